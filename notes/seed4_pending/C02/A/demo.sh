#!/usr/bin/env bash
# C02 / change A: the type of `ans` / `_` after an expression statement whose type is only
# known after constraint solving.
# Run with the worktree root as current directory. Exits 0 on the unchanged tree, non-zero
# with the change applied.
set -u

cargo build --offline -p numbat-cli >/dev/null 2>&1 || { echo "build failed"; exit 2; }
NUMBAT="target/debug/numbat --no-config"

tmp=$(mktemp -d)
trap 'rm -rf "$tmp"' EXIT
fail=0

# --- 1. ill-dimensioned use of `ans`: the previous result is a Length (sqrt of an area), it is
#        then bound to a variable annotated `Time`. Must be rejected as a whole: type error,
#        nothing printed.
cat > "$tmp/bad1.nbt" <<'EOF'
print("start")
sqrt(16 m^2)
let t: Time = ans
print(t)
EOF
out=$($NUMBAT "$tmp/bad1.nbt" 2>"$tmp/err1"); status=$?
if [ "$status" -eq 0 ]; then echo "FAIL 1: ill-dimensioned input was accepted (exit 0)"; fail=1; fi
if [ -n "$out" ]; then echo "FAIL 1: rejected input printed: $out"; fail=1; fi
if ! grep -q "while type checking" "$tmp/err1"; then echo "FAIL 1: no type error reported"; cat "$tmp/err1"; fail=1; fi

# --- 2. same, with `_`, an addition, and a result that comes from a multiplication with the
#        polymorphic literal-free generic function `abs`
cat > "$tmp/bad2.nbt" <<'EOF'
abs(-3 m)
print(_ + 1 s)
EOF
out=$($NUMBAT "$tmp/bad2.nbt" 2>"$tmp/err2"); status=$?
if [ "$status" -eq 0 ]; then echo "FAIL 2: ill-dimensioned input was accepted (exit 0)"; fail=1; fi
if [ -n "$out" ]; then echo "FAIL 2: rejected input printed: $out"; fail=1; fi
if ! grep -q "while type checking" "$tmp/err2"; then echo "FAIL 2: not rejected by the type checker:"; cat "$tmp/err2"; fail=1; fi

# --- 3. the reported type of `ans` is the dimension of the previous result
cat > "$tmp/ok3.nbt" <<'EOF'
sqrt(16 m^2)
type(ans)
EOF
out=$($NUMBAT "$tmp/ok3.nbt" 2>&1)
if ! printf '%s\n' "$out" | grep -q "Length"; then echo "FAIL 3: type(ans) reported as: $out"; fail=1; fi

# --- 4. control: well-dimensioned use keeps working
cat > "$tmp/ok4.nbt" <<'EOF'
sqrt(16 m^2)
print(ans + 1 m)
EOF
out=$($NUMBAT "$tmp/ok4.nbt" 2>&1)
if ! printf '%s\n' "$out" | grep -qx "5 m"; then echo "FAIL 4: expected a line '5 m', got: $out"; fail=1; fi

[ "$fail" -eq 0 ] && echo "OK"
exit "$fail"
