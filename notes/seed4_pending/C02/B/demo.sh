#!/usr/bin/env bash
# C02 / change B: unification of two function types whose return types are both closed.
# Run with the worktree root as current directory. Exits 0 on the unchanged tree, non-zero
# with the change applied.
set -u

cargo build --offline -p numbat-cli >/dev/null 2>&1 || { echo "build failed"; exit 2; }
NUMBAT="target/debug/numbat --no-config"

tmp=$(mktemp -d)
trap 'rm -rf "$tmp"' EXIT
fail=0

expect_rejected() { # <label> <file>
    local out status
    out=$($NUMBAT "$2" 2>"$tmp/err"); status=$?
    if [ "$status" -eq 0 ]; then echo "FAIL $1: ill-dimensioned input was accepted (exit 0)"; fail=1; fi
    if [ -n "$out" ]; then echo "FAIL $1: rejected input printed: $out"; fail=1; fi
    if ! grep -q "^error" "$tmp/err" || grep -q "runtime error" "$tmp/err"; then
        echo "FAIL $1: not rejected by the type checker:"; cat "$tmp/err"; fail=1
    fi
}

# --- 1. `apply` wants a function Length -> Time; `one_metre` (parameter not annotated, so
#        generic: forall A. A -> Length) returns a Length. Requires Length = Time.
cat > "$tmp/bad1.nbt" <<'EOF'
print("start")
fn apply(f: Fn[(Length) -> Time], x: Length) -> Time = f(x)
fn one_metre(x) = 1 m
let t: Time = apply(one_metre, 2 m)
print(t)
EOF
expect_rejected 1 "$tmp/bad1.nbt"

# --- 2. same through a function that applies its argument twice: Length^2 vs Length
cat > "$tmp/bad2.nbt" <<'EOF'
fn twice(f: Fn[(Length) -> Length], x: Length) -> Length = f(f(x))
fn unit_area(x) = 1 m^2
print(twice(unit_area, 1 m) + 1 m)
EOF
expect_rejected 2 "$tmp/bad2.nbt"

# --- 3. controls: the well-dimensioned variants are accepted, with the right results
cat > "$tmp/ok3.nbt" <<'EOF'
fn apply(f: Fn[(Length) -> Time], x: Length) -> Time = f(x)
fn two_seconds(x) = 2 s
print(apply(two_seconds, 2 m) + 1 s)
print(map(sqr, [1 m, 2 m]))
EOF
out=$($NUMBAT "$tmp/ok3.nbt" 2>&1)
expected=$'3 s\n[1 m², 4 m²]'
if [ "$out" != "$expected" ]; then echo "FAIL 3: expected '$expected', got: $out"; fail=1; fi

# --- 4. control: fully annotated (closed) function of the wrong type is rejected
cat > "$tmp/bad4.nbt" <<'EOF'
fn apply(f: Fn[(Length) -> Time], x: Length) -> Time = f(x)
fn len_to_len(x: Length) = 1 m
print(apply(len_to_len, 2 m))
EOF
expect_rejected 4 "$tmp/bad4.nbt"

[ "$fail" -eq 0 ] && echo "OK"
exit "$fail"
