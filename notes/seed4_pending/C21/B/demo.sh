#!/usr/bin/env bash
# C21 / change B: two-argument assert_eq on equal infinite quantities.
# Run from the worktree root. Exit 0 = property holds, non-zero = property violated.
set -u

cargo build --offline -p numbat-cli >/dev/null 2>&1 || { echo "build failed"; exit 2; }
NUMBAT="target/debug/numbat --no-config"

fail=0

# expect_abort <code>: the assertion in <code> must fail: non-zero exit status, and the
# marker statement that follows it in the same input must not run.
expect_abort() {
    local out rc
    out=$($NUMBAT -e "$1" -e 'print(4000 + 2)' 2>/dev/null)
    rc=$?
    if [ "$rc" -eq 0 ] || printf '%s\n' "$out" | grep -q '^4002$'; then
        echo "VIOLATION: assertion succeeded but must fail: $1"
        fail=1
    fi
}

# expect_pass <code>: the assertion must succeed and the marker must run.
expect_pass() {
    local out rc
    out=$($NUMBAT -e "$1" -e 'print(4000 + 2)' 2>/dev/null)
    rc=$?
    if [ "$rc" -ne 0 ] || ! printf '%s\n' "$out" | grep -q '^4002$'; then
        echo "VIOLATION: assertion failed but must succeed: $1"
        fail=1
    fi
}

# infinite quantities that are equal (after converting a to b's unit) must be accepted
expect_pass  'assert_eq(inf, inf)'
expect_pass  'assert_eq(-inf, -inf)'
expect_pass  'assert_eq(inf m, inf m)'
expect_pass  'assert_eq(inf m, inf cm)'
expect_pass  'assert_eq(1e200 * 1e200 km, inf m)'

# controls (same before and after)
expect_pass  'assert(inf == inf)'
expect_pass  'assert_eq(1 m, 100 cm)'
expect_pass  'assert_eq(0 m, 0 cm)'
expect_pass  'assert_eq([inf], [inf])'
expect_abort 'assert_eq(inf, -inf)'
expect_abort 'assert_eq(inf m, 1 m)'
expect_abort 'assert_eq(NaN, NaN)'
expect_abort 'assert_eq(0.07 m, 7 cm)'

exit $fail
