#!/usr/bin/env bash
# C21 / change A: three-argument assert_eq with a NaN difference (or a NaN tolerance).
# Run from the worktree root. Exit 0 = property holds, non-zero = property violated.
set -u

cargo build --offline -p numbat-cli >/dev/null 2>&1 || { echo "build failed"; exit 2; }
NUMBAT="target/debug/numbat --no-config"

fail=0

# expect_abort <code>: the assertion in <code> must fail: non-zero exit status, and the
# marker statement that follows it in the same input must not run.
expect_abort() {
    local out rc
    out=$($NUMBAT -e "$1" -e 'print(4000 + 2)' 2>/dev/null)
    rc=$?
    if [ "$rc" -eq 0 ] || printf '%s\n' "$out" | grep -q '^4002$'; then
        echo "VIOLATION: assertion succeeded but must fail: $1"
        fail=1
    fi
}

# expect_pass <code>: the assertion must succeed and the marker must run.
expect_pass() {
    local out rc
    out=$($NUMBAT -e "$1" -e 'print(4000 + 2)' 2>/dev/null)
    rc=$?
    if [ "$rc" -ne 0 ] || ! printf '%s\n' "$out" | grep -q '^4002$'; then
        echo "VIOLATION: assertion failed but must succeed: $1"
        fail=1
    fi
}

# |a - b| is NaN, which is not "at most eps"
expect_abort 'assert_eq(NaN, 1, 0.1)'
expect_abort 'assert_eq(1 m, NaN m, 1 cm)'
expect_abort 'assert_eq(NaN km, NaN km, 1 mm)'
expect_abort 'assert_eq(inf, inf, 1)'            # inf - inf = NaN
expect_abort 'assert_eq(-inf s, -inf s, 1 ms)'
# a NaN tolerance is never an upper bound
expect_abort 'assert_eq(1 m, 2 m, NaN m)'

# controls (same before and after)
expect_pass  'assert_eq(200 cm, 2.01 m, 1 cm)'
expect_abort 'assert_eq(200 cm, 2.01 m, 0.1 cm)'
expect_abort 'assert_eq(1 m, inf m, 1 cm)'
expect_abort 'assert_eq(NaN, NaN)'

exit $fail
