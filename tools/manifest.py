#!/usr/bin/env python3
"""Regenerates MANIFEST.json's checks / not_applicable from tools/props.py (claims) — keeps the manifest valid."""
import json, os, subprocess, sys
ROOT = os.path.dirname(os.path.dirname(os.path.abspath(__file__)))
sys.path.insert(0, os.path.join(ROOT, "tools"))
from props import PROPS
from props import CLAIMS, NOT_APPLICABLE

man = json.load(open(os.path.join(ROOT, "MANIFEST.json")))
ids = [json.loads(l)["id"] for l in open(os.path.join(ROOT, "properties.jsonl"))]
checks = []
na = []
# only properties whose check the coordinator has seen pass on the unchanged tree are claimed
READY = set(open(os.path.join(ROOT, "tools", "ready.txt")).read().split())
for pid in ids:
    if pid in PROPS and pid in CLAIMS and pid in READY:
        c = CLAIMS[pid]
        checks.append(dict(
            property_id=pid,
            quick_cmd=f"python3 tools/check.py {pid} --tier quick",
            thorough_cmd=f"python3 tools/check.py {pid} --tier thorough",
            evidence_file=f"/verif/evidence/{pid}.json",
            replay_cmd_template=f"python3 tools/check.py {pid} --replay {{path}}",
            engine="lean-proof+correspondence",
            level_claimed=dict(category=PROPS[pid]["level"], text=c["text"], design_ref=c["design_ref"]),
            level_note=c["note"],
            technique=c["technique"],
        ))
    else:
        na.append(dict(property_id=pid, reason=NOT_APPLICABLE.get(pid, "check still under construction (no claim made yet); see DESIGN.md section 5 for the planned model and theorems" if pid not in PROPS else "check built but not yet validated end-to-end by the coordinator (no claim made yet); see notes/" + pid + ".md")))
man["checks"] = checks
man["not_applicable"] = na
man["engines"][0]["serves_properties"] = [c["property_id"] for c in checks]
try:
    commits = subprocess.run(["git", "-C", "/repo", "log", "--format=%H %s", "e9ff5a9..HEAD"], capture_output=True, text=True).stdout.strip().split("\n")
    man["hooks"]["source_commits"] = [c.split()[0] for c in commits if c and "verif hook" in c]
except Exception:
    pass
json.dump(man, open(os.path.join(ROOT, "MANIFEST.json"), "w"), indent=1, ensure_ascii=False)
print(f"claimed: {len(checks)}  not_applicable: {len(na)}")
