#!/usr/bin/env python3
"""Prints the table of seeded changes (DESIGN.md section 0.5) from seeded/*/meta.json."""
import json, os, glob
ROOT = os.path.dirname(os.path.dirname(os.path.abspath(__file__)))
print("| seed | change (compiles, suite passes) | needs | outcome of the property's check | strengthening |")
print("|---|---|---|---|---|")
for p in sorted(glob.glob(os.path.join(ROOT, "seeded", "*", "meta.json"))):
    m = json.load(open(p))
    outs = []
    for prop, c in m.get("checks", {}).items():
        if c["caught"]:
            kind = "no-failing-input-found" if "no-failing-input-found" in (c["violation_line"] or "") else "VIOLATION with replay"
            d = c["detail"].split(" | ")[0].replace("failing input: ", "")[:110]
            outs.append(f"{prop}: {kind}" + (f" `{d}`" if d else ""))
        else:
            outs.append(f"{prop}: not caught")
    notes = m.get('strengthening', '—')
    for k in ('rebased', 'superseded'):
        if m.get(k):
            notes = (notes + ' ' if notes != '—' else '') + f"[{k}] " + m[k]
    print(f"| {m['id']} | {m['what']} | {m['needs_to_manifest']} | {'; '.join(outs).replace('|','/')} | {notes.replace('|','/')} |")
