#!/bin/bash
# Confirms a seeded change in its scratch worktree: (1) patch applies, (2) numbat's suite passes with it,
# (3) the demonstration fails with it and passes without it.   usage: seed_confirm.sh <worktree> <variant dir> <demo cmd...>
set -u
WT=$1; VAR=$2; shift 2
cd "$WT" || exit 2
git checkout -q -- . ; git apply --check "$VAR/patch.diff" || { echo "PATCH DOES NOT APPLY"; exit 2; }
echo "== demo WITHOUT the change"; ( "$@" ) >/tmp/seed_demo_out.txt 2>&1; R0=$?; tail -3 /tmp/seed_demo_out.txt; echo "exit=$R0"
git apply "$VAR/patch.diff"
echo "== suite WITH the change"; cargo test --workspace --no-fail-fast --offline 2>&1 | grep -E "^test result|FAILED|panicked" | head -20
echo "== demo WITH the change"; ( "$@" ) >/tmp/seed_demo_out.txt 2>&1; R1=$?; tail -5 /tmp/seed_demo_out.txt; echo "exit=$R1"
git checkout -q -- .
echo "SUMMARY without=$R0 with=$R1"
