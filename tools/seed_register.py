#!/usr/bin/env python3
"""Confirms a delivered seeded change in its scratch worktree (tools/seed_confirm.sh) and registers it
under seeded/<ID>/ (patch.diff, demonstration, notes.md, meta.json).
usage: seed_register.py <worktree> <variant dir> <ID> <property> <what> <needs> <demo cmd (shell)>"""
import json, os, shutil, subprocess, sys
ROOT = os.path.dirname(os.path.dirname(os.path.abspath(__file__)))
wt, var, sid, prop, what, needs, demo = sys.argv[1:8]
out = subprocess.run(["bash", os.path.join(ROOT, "tools", "seed_confirm.sh"), wt, var, "bash", "-c", demo],
                     capture_output=True, text=True).stdout
lines = [l for l in out.splitlines() if l.startswith("test result") or l.startswith("SUMMARY") or l.startswith("== ") or "PATCH DOES NOT" in l]
print(out[-1500:])
summ = [l for l in lines if l.startswith("SUMMARY")]
# only the suite run counts (the demonstration may itself be a cargo test)
suite, inside = [], False
for l in lines:
    if l.startswith("== "):
        inside = l.startswith("== suite WITH")
    elif inside and l.startswith("test result"):
        suite.append(l)
passed = sum(int(l.split()[3]) for l in suite)
failed = sum(int(l.split()[5]) for l in suite)
ok = bool(summ) and summ[0].split()[1] == "without=0" and summ[0].split()[2] != "with=0" and failed == 0 and passed >= 243
print(f"passed={passed} failed={failed} ok={ok}")
if not ok and "--force" not in sys.argv:
    sys.exit("NOT CONFIRMED (suite must pass with the change, demo must pass without it and fail with it)")
d = os.path.join(ROOT, "seeded", sid)
os.makedirs(d, exist_ok=True)
for f in os.listdir(var):
    if os.path.isfile(os.path.join(var, f)) and os.path.getsize(os.path.join(var, f)) < 200000:
        shutil.copy(os.path.join(var, f), os.path.join(d, f))
meta = dict(id=sid, property=prop, what=what, needs_to_manifest=needs, demo_cmd=demo,
            confirmed=dict(suite_with_change=f"{passed} passed, {failed} failed (cargo test --workspace --no-fail-fast --offline in a scratch worktree)",
                           demo="passes without the change, fails with it", log=lines),
            source="independent sub-agent given only the property text and a scratch worktree", checks={})
json.dump(meta, open(os.path.join(d, "meta.json"), "w"), indent=1, ensure_ascii=False)
print("registered", d)
