#!/bin/sh
# Runs every claimed check (tools/ready.txt) on /repo's working tree, N at a time.
#   tools/run_all.sh [quick|thorough] [seed] [jobs]
# Prints one line per property and exits non-zero if any check did.
cd "$(dirname "$0")/.." || exit 2
TIER=${1:-quick}; SEED=${2:-1}; JOBS=${3:-6}
mkdir -p work/logs
python3 tools/check.py --setup >/dev/null 2>&1
tr -s ' \n' '\n' < tools/ready.txt | grep '^C' | xargs -P "$JOBS" -I{} sh -c \
  'VERIF_SEED='"$SEED"' python3 tools/check.py {} --tier '"$TIER"' > work/logs/{}.'"$TIER"'.log 2>&1; echo "{} rc=$? $(grep -E "^(OK|VIOLATION)" work/logs/{}.'"$TIER"'.log | tail -n 1)"' | sort | tee work/logs/summary.$TIER.txt
! grep -qv "rc=0" work/logs/summary.$TIER.txt
