#!/usr/bin/env python3
"""Decision procedure of every check (DESIGN.md section 1.1).

  python3 tools/check.py Cxx [--tier quick|thorough] [--replay FILE]
  python3 tools/check.py --setup

Exit 0 = property held on everything explored (KNOWN-FINDING lines allowed);
exit 1 + `VIOLATION property=<id> replay=<path>` otherwise.
"""
import argparse
import fcntl
import hashlib
import json
import os
import re
import subprocess
import sys
import time

ROOT = os.path.dirname(os.path.dirname(os.path.abspath(__file__)))
LEAN = os.path.join(ROOT, "lean")
HARNESS = os.path.join(ROOT, "harness")
WORK = os.path.join(ROOT, "work")
REPO = "/repo"
sys.path.insert(0, os.path.join(ROOT, "tools"))
from props import PROPS  # noqa: E402

ALLOWED_AXIOMS = {"propext", "Classical.choice", "Quot.sound"}
FORBIDDEN = re.compile(r"\bsorry\b|\badmit\b|^\s*axiom\s|native_decide|bv_decide|implemented_by|\bunsafe\s|maxHeartbeats\s+0")

ENV = dict(os.environ)
ENV["CARGO_NET_OFFLINE"] = "true"
ENV.setdefault("CARGO_TERM_COLOR", "never")


def log(*a):
    print(*a, flush=True)


def run(cmd, cwd=None, timeout=None, stdin=None, stdout=None):
    t0 = time.time()
    p = subprocess.run(cmd, cwd=cwd, env=ENV, stdin=stdin, stdout=stdout if stdout else subprocess.PIPE,
                       stderr=subprocess.STDOUT if stdout is None else subprocess.PIPE, timeout=timeout)
    out = p.stdout.decode("utf-8", "replace") if p.stdout else ""
    if stdout is not None and p.stderr:
        out = p.stderr.decode("utf-8", "replace")
    return p.returncode, out, time.time() - t0


class Lock:
    """serialises lake / cargo invocations of concurrently running checks"""

    def __init__(self, name):
        os.makedirs(WORK, exist_ok=True)
        self.path = os.path.join(WORK, name + ".lock")

    def __enter__(self):
        self.f = open(self.path, "w")
        fcntl.flock(self.f, fcntl.LOCK_EX)

    def __exit__(self, *a):
        fcntl.flock(self.f, fcntl.LOCK_UN)
        self.f.close()


# --------------------------------------------------------------------------- Lean side

def strip_comments(src):
    out = []
    i = 0
    depth = 0
    n = len(src)
    while i < n:
        if src.startswith("/-", i):
            depth += 1
            i += 2
        elif depth and src.startswith("-/", i):
            depth -= 1
            i += 2
        elif depth:
            if src[i] == "\n":
                out.append("\n")
            i += 1
        elif src.startswith("--", i):
            while i < n and src[i] != "\n":
                i += 1
        else:
            out.append(src[i])
            i += 1
    return "".join(out)


def module_path(mod):
    return os.path.join(LEAN, *mod.split(".")) + ".lean"


def theorems_of(mod):
    """fully qualified names of the theorems declared in a module (namespace tracking by line scan)"""
    src = strip_comments(open(module_path(mod), encoding="utf-8").read())
    ns = []
    names = []
    for line in src.split("\n"):
        m = re.match(r"\s*namespace\s+(\S+)", line)
        if m:
            ns.append(m.group(1))
            continue
        m = re.match(r"\s*end\s+(\S+)", line)
        if m and ns and ns[-1] == m.group(1):
            ns.pop()
            continue
        m = re.match(r"\s*(?:@\[[^\]]*\]\s*)?(?:private\s+|protected\s+)?theorem\s+(\S+)", line)
        if m:
            names.append(".".join(ns + [m.group(1)]))
    return names


def transitive_local_imports(mods):
    seen = []
    todo = list(mods)
    while todo:
        m = todo.pop()
        if m in seen or not m.startswith("NumbatModel"):
            continue
        p = module_path(m)
        if not os.path.exists(p):
            continue
        seen.append(m)
        for line in open(p, encoding="utf-8"):
            mm = re.match(r"\s*import\s+(\S+)", line)
            if mm:
                todo.append(mm.group(1))
    return seen


def forbidden_scan(mods):
    hits = []
    for m in transitive_local_imports(mods):
        src = strip_comments(open(module_path(m), encoding="utf-8").read())
        for ln, line in enumerate(src.split("\n"), 1):
            if FORBIDDEN.search(line):
                hits.append(f"{m}:{ln}: {line.strip()}")
    return hits


def lean_build(targets):
    with Lock("lake"):
        rc, out, dt = run(["lake", "build"] + targets, cwd=LEAN, timeout=3600)
    return rc, out, dt


def lean_audit(pid, mods):
    """#print axioms on every theorem of the property's modules"""
    names = []
    for m in mods:
        names += theorems_of(m)
    os.makedirs(os.path.join(LEAN, "Audit"), exist_ok=True)
    path = os.path.join(LEAN, "Audit", pid + ".lean")
    with open(path, "w", encoding="utf-8") as f:
        for m in mods:
            f.write(f"import {m}\n")
        for n in names:
            f.write(f"#print axioms {n}\n")
    rc, out, dt = run(["lake", "env", "lean", path], cwd=LEAN, timeout=1800)
    res = {}
    # output: 'name' depends on axioms: [a, b]   |   'name' does not depend on any axioms
    # (theorem names may themselves end in primes)
    for m in re.finditer(r"'(\S+)' depends on axioms: \[([^\]]*)\]", out.replace("\n ", " ")):
        res[m.group(1)] = [a.strip() for a in m.group(2).replace("\n", " ").split(",") if a.strip()]
    for m in re.finditer(r"'(\S+)' does not depend on any axioms", out):
        res[m.group(1)] = []
    bad = {}
    for n in names:
        if n not in res:
            bad[n] = ["<no audit output>"]
        else:
            extra = [a for a in res[n] if a not in ALLOWED_AXIOMS]
            if extra:
                bad[n] = extra
    return names, res, bad, rc, out, f"cd {LEAN} && lake build {' '.join(mods)} && lake env lean Audit/{pid}.lean"


# --------------------------------------------------------------------------- implementation side

def harness_build(bins):
    with Lock("cargo"):
        # keep the lock file in step with /repo's so that the offline resolver never needs the index
        rc, out, dt = run(["cargo", "build", "--offline"] + sum([["--bin", b] for b in bins], []), cwd=HARNESS, timeout=3600)
    return rc, out, dt


def harness_run(binname, tier, seed, outdir, replay=None, budget=None, pid=None):
    os.makedirs(outdir, exist_ok=True)
    for f in ("req.txt", "impl.txt", "oracle.jsonl", "stats.json", "model.txt"):
        try:
            os.remove(os.path.join(outdir, f))
        except FileNotFoundError:
            pass
    cmd = [os.path.join(HARNESS, "target", "debug", binname), "--tier", tier, "--seed", str(seed), "--out", outdir]
    corpus = os.path.join(ROOT, "corpus", pid or "")
    if pid and os.path.isdir(corpus):
        cmd += ["--corpus", corpus]
    if replay:
        cmd += ["--replay", replay]
    if budget:
        cmd += ["--budget", str(budget)]
    rc, out, dt = run(cmd, cwd=ROOT, timeout=6 * 3600)
    return rc, out, dt


def driver_run(driver, outdir):
    exe = os.path.join(LEAN, ".lake", "build", "bin", driver)
    with open(os.path.join(outdir, "req.txt"), "rb") as fin, open(os.path.join(outdir, "model.txt"), "wb") as fout:
        p = subprocess.run([exe], stdin=fin, stdout=fout, stderr=subprocess.PIPE, env=ENV, timeout=6 * 3600)
    return p.returncode, p.stderr.decode("utf-8", "replace")


def diff_streams(outdir, limit=20):
    """line-by-line comparison of model.txt and impl.txt; ' || ' separates behavioural from structural part"""
    req = open(os.path.join(outdir, "req.txt"), encoding="utf-8", errors="replace").read().split("\n")
    imp = open(os.path.join(outdir, "impl.txt"), encoding="utf-8", errors="replace").read().split("\n")
    mod = open(os.path.join(outdir, "model.txt"), encoding="utf-8", errors="replace").read().split("\n")
    n = max(len(req), len(imp), len(mod))
    same = 0
    diffs = []
    total_diff = 0
    for i in range(n):
        r = req[i] if i < len(req) else "<missing>"
        a = imp[i] if i < len(imp) else "<missing>"
        b = mod[i] if i < len(mod) else "<missing>"
        if a == b:
            if r != "" or a != "":
                same += 1
            continue
        total_diff += 1
        if len(diffs) < limit:
            kind = "behavioural"
            if " || " in a and " || " in b and a.split(" || ")[0] == b.split(" || ")[0]:
                kind = "structural"
            diffs.append(dict(line=i + 1, request=r, impl=a, model=b, kind=kind))
    return same, total_diff, diffs


def load_oracle(outdir):
    p = os.path.join(outdir, "oracle.jsonl")
    res = []
    if os.path.exists(p):
        for line in open(p, encoding="utf-8", errors="replace"):
            line = line.strip()
            if line:
                try:
                    res.append(json.loads(line))
                except json.JSONDecodeError:
                    res.append(dict(key="<unparsable>", input=line, what="unparsable oracle line"))
    return res


def load_known(pid):
    p = os.path.join(ROOT, "known_findings.json")
    if not os.path.exists(p):
        return []
    data = json.load(open(p, encoding="utf-8"))
    return [e for e in data.get("findings", []) if e.get("property") == pid and e.get("status") == "known"]


def match_known(entry, failure):
    m = entry.get("match", {})
    kind = m.get("kind")
    val = m.get("value", "")
    key = failure.get("key", "")
    if kind == "key_exact":
        return key == val
    if kind == "key_prefix":
        return key.startswith(val)
    if kind == "key_regex":
        return re.search(val, key) is not None
    return False


# --------------------------------------------------------------------------- main decision

def write_replay(pid, payload):
    os.makedirs(os.path.join(ROOT, "replays"), exist_ok=True)
    h = hashlib.sha1(json.dumps(payload, sort_keys=True).encode()).hexdigest()[:10]
    path = os.path.join(ROOT, "replays", f"{pid}_{h}.json")
    with open(path, "w", encoding="utf-8") as f:
        json.dump(payload, f, indent=1, ensure_ascii=False)
    return path


def write_evidence(pid, cfg, tier, seed, cov, wall, violations):
    os.makedirs(os.path.join(ROOT, "evidence"), exist_ok=True)
    ev = dict(property_id=pid, tier=tier, seed=seed, level=cfg["level"], coverage=cov,
              assumptions=cfg.get("assumptions", []), wall_s=round(wall, 2), violations=violations)
    with open(os.path.join(ROOT, "evidence", pid + ".json"), "w", encoding="utf-8") as f:
        json.dump(ev, f, indent=1, ensure_ascii=False)


def run_gens(cfg):
    msgs = []
    import importlib
    for g in cfg.get("gens", []):
        modname, fn = g.split(":")
        mod = importlib.import_module(modname)  # tools/<modname>.py
        msgs.append(getattr(mod, fn)())
    return msgs


def check(pid, tier, seed, replay=None):
    t0 = time.time()
    cfg = PROPS[pid]
    try:
        dirty = subprocess.run(["git", "-C", REPO, "status", "--short"], capture_output=True, text=True, timeout=60).stdout.strip()
        if dirty:
            log("note: /repo working tree differs from HEAD (the check runs against the working tree):\n  " + dirty.replace("\n", "\n  "))
    except Exception:
        pass
    outdir = os.path.join(WORK, pid)
    os.makedirs(outdir, exist_ok=True)
    broken = []          # ties that no longer check: (name, detail)
    cov = dict(trusted_base=cfg["trusted_base"])

    # 1. regenerate tables, build proofs, audit
    gen_info = []
    try:
        gen_info = run_gens(cfg)
    except Exception as e:  # generator could not read the source any more
        broken.append(("generator", f"{type(e).__name__}: {e}"))
    if gen_info:
        cov["regenerated"] = gen_info
    targets = list(cfg["lean_modules"]) + ([cfg["driver"]] if cfg.get("driver") else [])
    rc, out, dt = lean_build(targets)
    cov["lean_build_s"] = round(dt, 1)
    if rc != 0:
        errs = [l for l in out.split("\n") if "error" in l][:10]
        broken.append(("proof-obligation (lake build " + " ".join(targets) + ")", "\n".join(errs) or out[-2000:]))
        names, bad = [], {}
        # (no `discharged: 0`: the evidence schema wants discharged >= 1; the generic counts are used instead)
        cov.update(lean_build_failed=True, obligations_not_discharged=len(sum([theorems_of(m) for m in cfg["lean_modules"]], [])),
                   checker_cmd="lake build " + " ".join(targets))
    else:
        names, res, bad, arc, aout, cmd = lean_audit(pid, cfg["lean_modules"])
        hits = forbidden_scan(cfg["lean_modules"])
        cov.update(obligations=len(names), discharged=len(names) - len(bad), checker_cmd=cmd,
                   theorems=names, axioms_used=sorted({a for v in res.values() for a in v}))
        partial = [n for n in names if n.endswith("_partial")]
        if partial:
            cov["partial_theorems"] = partial
        if bad:
            broken.append(("axiom-audit", json.dumps(bad)))
        if hits:
            broken.append(("forbidden-token", "; ".join(hits[:5])))
        if tier == "thorough":
            with Lock("lake"):
                lrc, lout, ldt = run(["lake", "env", "leanchecker"] + cfg["lean_modules"], cwd=LEAN, timeout=3600)
            cov["leanchecker"] = dict(rc=lrc, wall_s=round(ldt, 1))
            if lrc != 0:
                broken.append(("leanchecker", lout[-1500:]))

    # 2./3./4. implementation run, correspondence, oracle
    failures = []
    diffs = []
    stats = {}
    if cfg.get("harness"):
        rc, out, dt = harness_build([cfg["harness"]])
        cov["harness_build_s"] = round(dt, 1)
        if rc != 0:
            errs = [l for l in out.split("\n") if l.startswith("error")][:10]
            broken.append(("harness-build (hooks/harness no longer compile against /repo)", "\n".join(errs) or out[-2000:]))
        else:
            rc, out, dt = harness_run(cfg["harness"], tier, seed, outdir, replay=replay, pid=pid)
            cov["harness_run_s"] = round(dt, 1)
            if rc != 0:
                broken.append(("harness-run", out[-2000:]))
            else:
                stats = json.load(open(os.path.join(outdir, "stats.json"), encoding="utf-8"))
                failures = load_oracle(outdir)
                if cfg.get("driver") and not any(b[0].startswith("proof-obligation") for b in broken):
                    drc, derr = driver_run(cfg["driver"], outdir)
                    if drc != 0:
                        broken.append(("driver-run", derr[-1500:]))
                    else:
                        same, ndiff, diffs = diff_streams(outdir)
                        cov["traces_validated_against_impl"] = same
                        cov["correspondence_disagreements"] = ndiff
                        if ndiff:
                            broken.append((f"correspondence stream {cfg['driver']} ({ndiff} lines differ; first kind: {diffs[0]['kind']})",
                                           json.dumps(diffs[0], ensure_ascii=False)[:3000]))
    for k in ("evaluations", "distinct_nontrivial", "rule", "samples", "histogram", "extra"):
        if k in stats:
            cov[k] = stats[k]
    if stats.get("extra", {}).get("exhaustive"):
        cov["exhaustive"] = True
    if cfg.get("explanation"):
        cov["explanation"] = cfg["explanation"]

    # 5. outcome
    known = load_known(pid)
    unlisted = []
    reproduced = {}
    for f in failures:
        hit = next((e for e in known if match_known(e, f)), None)
        if hit:
            reproduced.setdefault(hit["id"], (hit, f))
        else:
            unlisted.append(f)
    for hid, (hit, f) in reproduced.items():
        log(f"KNOWN-FINDING: property={pid} {hit['what']}")
    cov["known_findings_reproduced"] = sorted(reproduced.keys())
    cov["oracle_failures_unlisted"] = len(unlisted)

    violation = None
    if unlisted:
        f = min(unlisted, key=lambda x: len(x.get("input", "")))  # report the smallest failing input
        violation = dict(property=pid, kind="failing-input", seed=seed, tier=tier, input=f["input"], key=f["key"],
                         oracle=f["what"], more=len(unlisted) - 1,
                         broken_ties=[dict(name=n, detail=d) for n, d in broken])
    elif broken:
        # the tie no longer checks: property-directed search for a concrete failing input
        found = None
        searched = 0
        if cfg.get("harness") and not any(b[0].startswith("harness-build") for b in broken) and not replay:
            sdir = os.path.join(WORK, pid + "_search")
            for s in range(3):
                rc, out, dt = harness_run(cfg["harness"], "search", seed * 1000 + 17 + s, sdir, pid=pid)
                if rc != 0:
                    break
                st = json.load(open(os.path.join(sdir, "stats.json"), encoding="utf-8"))
                searched += st.get("evaluations", 0)
                fs = [f for f in load_oracle(sdir) if not any(match_known(e, f) for e in known)]
                if fs:
                    found = fs[0]
                    break
        cov["search_evaluations"] = searched
        if found:
            violation = dict(property=pid, kind="failing-input", seed=seed, tier="search", input=found["input"], key=found["key"],
                             oracle=found["what"], broken_ties=[dict(name=n, detail=d) for n, d in broken])
        else:
            violation = dict(property=pid, kind="no-failing-input-found", seed=seed, tier=tier,
                             no_longer_checks=[dict(name=n, detail=d) for n, d in broken],
                             first_disagreement=diffs[0] if diffs else None,
                             input=(diffs[0]["request"] if diffs else None),
                             searched_cases=searched)

    wall = time.time() - t0
    write_evidence(pid, cfg, tier, seed, cov, wall, 1 if violation else 0)
    if violation:
        path = write_replay(pid, violation)
        tail = " no-failing-input-found" if violation["kind"] == "no-failing-input-found" else ""
        for n, d in broken:
            log(f"no longer checks: {n}\n  {d[:600]}")
        if violation["kind"] == "failing-input":
            log(f"failing input: {violation['input'][:400]}\n  oracle: {violation['oracle'][:400]}")
        log(f"VIOLATION property={pid} replay={path}{tail}")
        return 1
    log(f"OK property={pid} tier={tier} seed={seed} theorems={cov.get('discharged')}/{cov.get('obligations')} "
        f"cases={cov.get('evaluations')} lines_equal={cov.get('traces_validated_against_impl')} wall={wall:.1f}s")
    return 0


def replay_cmd(pid, path):
    payload = json.load(open(path, encoding="utf-8"))
    inp = payload.get("input")
    if not inp:
        log("replay file has no input (no-failing-input-found); re-running the check instead")
        return check(pid, payload.get("tier", "quick") if payload.get("tier") != "search" else "quick", payload.get("seed", 1))
    tmp = os.path.join(WORK, pid + "_replay_input.txt")
    os.makedirs(WORK, exist_ok=True)
    with open(tmp, "w", encoding="utf-8") as f:
        f.write(inp + "\n")
    rc = check(pid, "quick", payload.get("seed", 1), replay=tmp)
    if rc == 0:
        log("replay: no longer fails")
    return rc


def setup():
    rc_all = 0
    targets = []
    bins = []
    for pid, cfg in PROPS.items():
        try:
            run_gens(cfg)
        except Exception as e:
            log(f"generator for {pid} failed: {e}")
            rc_all = 1
        targets += cfg["lean_modules"]
        if cfg.get("driver"):
            targets.append(cfg["driver"])
        if cfg.get("harness"):
            bins.append(cfg["harness"])
    targets = list(dict.fromkeys(targets))
    bins = list(dict.fromkeys(bins))
    rc, out, dt = lean_build(targets)
    log(f"lake build: rc={rc} {dt:.0f}s")
    if rc != 0:
        log(out[-3000:])
        rc_all = 1
    rc, out, dt = harness_build(bins)
    log(f"cargo build: rc={rc} {dt:.0f}s")
    if rc != 0:
        log(out[-3000:])
        rc_all = 1
    return rc_all


def main():
    ap = argparse.ArgumentParser()
    ap.add_argument("prop", nargs="?")
    ap.add_argument("--tier", default=os.environ.get("VERIF_TIER", "quick"))
    ap.add_argument("--replay")
    ap.add_argument("--setup", action="store_true")
    a = ap.parse_args()
    if a.setup:
        sys.exit(setup())
    if a.prop not in PROPS:
        log(f"unknown property {a.prop}")
        sys.exit(2)
    seed = int(os.environ.get("VERIF_SEED", "1") or 1)
    tier = a.tier if a.tier in ("quick", "thorough") else "quick"
    if a.replay:
        sys.exit(replay_cmd(a.prop, a.replay))
    sys.exit(check(a.prop, tier, seed))


if __name__ == "__main__":
    main()
