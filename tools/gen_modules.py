#!/usr/bin/env python3
"""Regenerates lean/NumbatModel/Gen/Modules.lean from /repo/numbat/modules (property C17).

The table is not read by this script: the harness binary `c17 --dump FILE` lists, for every embedded `.nbt`
module, its statements in textual order as the *real* parser sees them (`numbat::verif::c17::module_summary`):
`use` targets, and for every other statement the names it defines and the free names it uses (value names with
unit prefixes split off by the real prefix parser of a session that has every module loaded).  This script
interns module paths and names as numbers and writes the Lean table plus the certificates the obligations in
`Oblig/Modules.lean` check (a rank for acyclicity, the import closure of every module).

Numbering (it matters for the obligations):
  * modules: position in the sorted list of module paths;
  * names: value names are `v:<ident>`, type names (dimensions, structs) `t:<ident>`; the names *defined* anywhere
    get the numbers 0,1,2,… in the order of their first definition (modules in table order, statements in textual
    order).  A second definition of a name re-uses its number, so "no name is defined twice" is exactly "the
    list of defined names, in table order, is strictly increasing" (`std_clash_free`).  Names that are only used
    (never defined — such a name makes `std_closed` fail) come afterwards.
"""
import fcntl
import os
import subprocess

ROOT = os.path.dirname(os.path.dirname(os.path.abspath(__file__)))
# (C17_HARNESS_DIR: only for running the check against a private copy of the repository and harness)
HARNESS = os.environ.get("C17_HARNESS_DIR", os.path.join(ROOT, "harness"))
WORK = os.path.join(ROOT, "work")
OUT = os.path.join(ROOT, "lean", "NumbatModel", "Gen", "Modules.lean")


def dump():
    os.makedirs(WORK, exist_ok=True)
    env = dict(os.environ)
    env["CARGO_NET_OFFLINE"] = "true"
    env.setdefault("CARGO_TERM_COLOR", "never")
    with open(os.path.join(WORK, "cargo.lock"), "w") as lock:
        fcntl.flock(lock, fcntl.LOCK_EX)
        p = subprocess.run(["cargo", "build", "--offline", "--bin", "c17"], cwd=HARNESS, env=env,
                           stdout=subprocess.PIPE, stderr=subprocess.STDOUT, timeout=3600)
        fcntl.flock(lock, fcntl.LOCK_UN)
    if p.returncode != 0:
        raise RuntimeError("harness binary c17 does not build: " + p.stdout.decode("utf-8", "replace")[-1500:])
    path = os.path.join(WORK, "C17_modules_dump.txt")
    p = subprocess.run([os.path.join(HARNESS, "target", "debug", "c17"), "--dump", path], cwd=ROOT, env=env,
                       stdout=subprocess.PIPE, stderr=subprocess.STDOUT, timeout=600)
    if p.returncode != 0:
        raise RuntimeError("c17 --dump failed: " + p.stdout.decode("utf-8", "replace")[-1500:])
    return open(path, encoding="utf-8").read()


def parse(text):
    """-> (header, [(module, [item])]) with item = ('use', target) | ('def', kind, names, uses, tparams)"""
    header = ""
    mods = []
    for line in text.split("\n"):
        if not line:
            continue
        if line.startswith("#"):
            header = line[1:].strip()
        elif line.startswith("module "):
            mods.append((line[7:], []))
        elif line.startswith("use "):
            mods[-1][1].append(("use", line[4:]))
        elif line.startswith("def "):
            parts = line.split(" ")
            f = {}
            for kv in parts[2:]:
                k, v = kv.split("=", 1)
                f[k] = [x for x in v.split(",") if x]
            names = ["v:" + x for x in f["names"]] + ["t:" + x for x in f["tnames"]]
            uses = ["v:" + x for x in f["uses"]] + ["t:" + x for x in f["tuses"]]
            mods[-1][1].append(("def", parts[1], names, uses, ["t:" + x for x in f["tparams"]]))
        else:
            raise ValueError("unexpected line in module dump: " + line)
    return header, mods


def lean_str(s):
    return '"' + s.replace("\\", "\\\\").replace('"', '\\"') + '"'


def chunks(xs, n):
    for i in range(0, len(xs), n):
        yield xs[i:i + n]


def nat_list(xs):
    return "[" + ", ".join(str(x) for x in xs) + "]"


def generate():
    header, mods = parse(dump())
    mod_id = {m: i for i, (m, _) in enumerate(mods)}
    # unknown `use` targets get numbers after the real modules (std_uses_exist then fails)
    extra_mods = []
    for _, items in mods:
        for it in items:
            if it[0] == "use" and it[1] not in mod_id:
                mod_id[it[1]] = len(mod_id)
                extra_mods.append(it[1])
    name_id = {}
    for _, items in mods:
        for it in items:
            if it[0] == "def":
                for n in it[2]:
                    name_id.setdefault(n, len(name_id))
    n_defined = len(name_id)
    for _, items in mods:
        for it in items:
            if it[0] == "def":
                for n in it[3] + it[4]:
                    name_id.setdefault(n, len(name_id))

    uses = {m: [it[1] for it in items if it[0] == "use"] for m, items in mods}

    # rank: 0 for modules without `use`, else 1 + max over targets; a cycle gets rank 0 everywhere on it
    rank = {}
    state = {}

    def rk(m):
        if m in rank:
            return rank[m]
        if state.get(m) == 1 or m not in uses:
            return 0
        state[m] = 1
        r = 0
        for n in uses[m]:
            r = max(r, 1 + rk(n))
        state[m] = 2
        rank[m] = r
        return r

    for m, _ in mods:
        rk(m)

    def closure(m):
        seen = []
        todo = [m]
        while todo:
            x = todo.pop()
            if x in seen:
                continue
            seen.append(x)
            todo.extend(uses.get(x, []))
        return sorted(mod_id[x] for x in seen)

    tparams = sorted({name_id[p] for _, items in mods for it in items if it[0] == "def" for p in it[4]})

    o = []
    o.append("import NumbatModel.Model.Modules")
    o.append("/-! GENERATED by tools/gen_modules.py from /repo/numbat/modules through `c17 --dump` — do not edit.")
    o.append(f"{header}; {len(mods)} modules, {n_defined} defined names, {len(name_id)} names in all. -/")
    o.append("namespace NumbatModel.Gen.Modules")
    o.append("open NumbatModel.Modules")
    o.append("")
    names_by_id = sorted(name_id, key=lambda n: name_id[n])
    all_mods = [m for m, _ in mods] + extra_mods
    o.append("def moduleNames : List String := [" + ", ".join(lean_str(m) for m in all_mods) + "]")
    o.append("")
    parts = []
    for k, ch in enumerate(chunks(names_by_id, 150)):
        o.append(f"def nameStrings{k} : List String := [" + ", ".join(lean_str(n) for n in ch) + "]")
        parts.append(f"nameStrings{k}")
    o.append("def nameStrings : List String := " + (" ++ ".join(parts) if parts else "[]"))
    o.append(f"def definedCount : Nat := {n_defined}")
    o.append("")
    for m, items in mods:
        i = mod_id[m]
        o.append(f"/-- `{m}` -/")
        rows = []
        for it in items:
            if it[0] == "use":
                rows.append(f".use {mod_id[it[1]]}")
            else:
                rows.append(f".defn {nat_list(name_id[n] for n in it[2])} {nat_list(name_id[n] for n in it[3])}")
        if rows:
            o.append(f"def m{i} : List Item := [\n  " + ",\n  ".join(rows) + "]")
        else:
            o.append(f"def m{i} : List Item := []")
    o.append("")
    o.append("/-- the importer: every embedded module with its statements in textual order -/")
    o.append("def table : Table := [" + ", ".join(f"({mod_id[m]}, m{mod_id[m]})" for m, _ in mods) + "]")
    o.append("")
    o.append("/-- certificate for acyclicity: rank of module i (0 = no `use` line) -/")
    o.append("def rank : List Nat := " + nat_list(rank.get(m, 0) for m, _ in mods))
    o.append("")
    o.append("/-- certificate for closedness: the modules reachable from module i along `use` lines (with i) -/")
    o.append("def closure : List (List Nat) := [\n  " + ",\n  ".join(nat_list(closure(m)) for m, _ in mods) + "]")
    o.append("")
    o.append("/-- names used as type parameters of generic functions / structs -/")
    o.append("def typeParams : List Nat := " + nat_list(tparams))
    o.append("")
    o.append("end NumbatModel.Gen.Modules")
    text = "\n".join(o) + "\n"
    os.makedirs(os.path.dirname(OUT), exist_ok=True)
    old = open(OUT, encoding="utf-8").read() if os.path.exists(OUT) else None
    if old != text:
        with open(OUT, "w", encoding="utf-8") as f:
            f.write(text)
    return dict(generator="gen_modules", source="/repo/numbat/modules via c17 --dump", modules=len(mods),
                defined_names=n_defined, names=len(name_id), use_edges=sum(len(v) for v in uses.values()),
                prefixes_resolved=("prefixes_resolved=true" in header), changed=(old != text))


if __name__ == "__main__":
    print(generate())
