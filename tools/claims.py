"""Text of each claim in MANIFEST.json (level text, note, technique)."""

NOT_APPLICABLE = {}

CLAIMS = {
    "C18": dict(
        text="Machine-checked refinement proof: for every operation sequence over any number of handles, the "
             "shared-storage representation (allocations, views, copy-on-shared) holds exactly the elements a plain "
             "immutable sequence holds in every handle, an operation on one handle never changes another, and no "
             "panicking branch is reachable (theorems run_refines, step_refines, never_panics over Model/ListM.lean). "
             "The model is tied to list.rs by a bit-exact correspondence run: the compiled model and the real "
             "NumbatList<u32> execute the same operation sequences and must agree on results, contents of all "
             "handles, equality matrix, and on the representation (allocation sharing, strong counts, views, "
             "allocation contents) after every step.",
        design_ref="DESIGN.md section 5 C18",
        note="Trusted: Lean kernel (axioms propext, Classical.choice, Quot.sound only), the hand-written model of "
             "list.rs and the correspondence harness whose generator bounds what the tie sees; Arc/VecDeque "
             "internals and Rust memory safety are outside the model.",
        technique="Lean 4 refinement proof (induction over operation sequences) + differential correspondence of the compiled model against NumbatList",
    ),
}
