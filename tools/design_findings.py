#!/usr/bin/env python3
"""Prints the tables of DESIGN.md section 0.3 (fixed / known findings) from known_findings.json."""
import json, os, re
ROOT = os.path.dirname(os.path.dirname(os.path.abspath(__file__)))
fs = json.load(open(os.path.join(ROOT, "known_findings.json")))["findings"]
def clean(w):
    w = re.sub(r"^(fixed|known): property=C\d\d (\(also [^)]*\) )?", "", w)
    w = re.sub(r"^[0-9a-f]{7} ", "", w)
    w = re.sub(r"^known: property=C\d\d ", "", w)
    return w.replace("|", "/").replace("\n", " ")
print("Repaired (`status: fixed`):\n")
print("| property | commit | id | defect |"); print("|---|---|---|---|")
for f in fs:
    if f["status"] == "fixed":
        print(f"| {f['property']} | {f.get('commit','')} | {f['id']} | {clean(f['what'])[:260]} |")
print("\nRecorded (`status: known`):\n")
print("| property | id | what fails |"); print("|---|---|---|")
for f in sorted((f for f in fs if f["status"] == "known"), key=lambda f: f["property"]):
    print(f"| {f['property']} | {f['id']} | {clean(f['what'])[:260]} |")
