"""C23 — translate selected standard-library functions from the AST of the real parser into Lean.

`c23 --dump-ast` (harness binary, hook `numbat::verif::c23::module_items_sexpr`) prints, for the items listed in
the harness (`ITEMS`), the untyped AST as S-expressions.  This script turns them into Lean definitions generic
over `NbtNum α` in `lean/NumbatModel/Gen/NbtFunctions.lean`:

* numeric literal (f64 bits)     -> `NbtNum.lit m e`  with  value = m * 2^e  exactly
* + - * / unary-  ==  <  >  ->   -> NbtNum.add/sub/mul/div/neg/beq/lt/convert (implicit multiplication = mul)
* identifiers: parameter / `where` local / another translated item / otherwise a *free symbol* (a unit such
  as `kelvin`), which becomes an explicit parameter of the definition (and of its callers)
* builtins: trunc, len, concat, cons_end, map (pure); head, tail, error (may fail -> `Except Err`)
* `where` locals are bound *before* the body (numbat evaluates them eagerly)
* a self-recursive function gets a leading fuel argument (`0 => .error .fuel`)
Everything else is rejected (the generator fails, which the check reports as a broken tie).
"""
import fcntl
import os
import re
import struct
import subprocess

ROOT = os.path.dirname(os.path.dirname(os.path.abspath(__file__)))
HARNESS = os.path.join(ROOT, "harness")
OUT = os.path.join(ROOT, "lean", "NumbatModel", "Gen", "NbtFunctions.lean")

RENAME = {"°C": "degC", "°F": "degF"}
BINOPS = {"Add": "NbtNum.add", "Sub": "NbtNum.sub", "Mul": "NbtNum.mul", "Div": "NbtNum.div",
          "ConvertTo": "NbtNum.convert", "Equal": "NbtNum.beq", "LessThan": "NbtNum.lt"}
PURE_BUILTINS = {"trunc", "len", "concat", "cons_end", "map"}
FAIL_BUILTINS = {"head", "tail", "error"}


# ------------------------------------------------------------------ S-expressions

def parse_sexpr(s):
    toks = re.findall(r"\(|\)|[^\s()]+", s)
    pos = 0

    def rd():
        nonlocal pos
        t = toks[pos]
        pos += 1
        if t == "(":
            out = []
            while toks[pos] != ")":
                out.append(rd())
            pos += 1
            return out
        return t

    r = rd()
    assert pos == len(toks), "trailing tokens"
    return r


def lean_name(n):
    n = RENAME.get(n, n)
    if not re.fullmatch(r"[A-Za-z_][A-Za-z0-9_]*", n):
        raise ValueError(f"cannot name {n!r} in Lean; extend RENAME")
    return n


def lit(bits_hex):
    x = struct.unpack(">d", bytes.fromhex(bits_hex))[0]
    if x != x or x in (float("inf"), float("-inf")):
        raise ValueError("non-finite literal")
    num, den = x.as_integer_ratio()
    e = -(den.bit_length() - 1)
    while num != 0 and num % 2 == 0:
        num //= 2
        e += 1
    if num == 0:
        e = 0
    return f"(NbtNum.lit ({num}) ({e}) : α)"


# ------------------------------------------------------------------ translation

class Item:
    def __init__(self, module, name, sx):
        self.module, self.name, self.sx = module, name, sx
        self.kind = sx[0]
        if self.kind == "fn":
            _, _, params, ret, body, where = sx
            self.params = [(p[0], p[1]) for p in params[1:]]
            self.ret = ret
            self.body = body
            self.where = [(w[0], w[1], w[2]) for w in where[1:]]
        else:
            _, _, ty, expr = sx
            self.params, self.ret, self.body, self.where = [], ty, expr, []
        self.free = []        # free symbols (transitively), sorted
        self.may_fail = False
        self.recursive = False


def idents(e, acc):
    if isinstance(e, list):
        if e and e[0] == "id":
            acc.add(e[1])
        elif e and e[0] in ("scalar", "str", "bool"):
            pass
        else:
            for x in e[1:]:
                idents(x, acc)
    return acc


def calls(e, acc):
    if isinstance(e, list) and e:
        if e[0] == "call" and isinstance(e[1], list) and e[1][0] == "id":
            acc.add(e[1][1])
        for x in e[1:]:
            calls(x, acc)
    return acc


class Gen:
    def __init__(self, items):
        self.items = {it.name: it for it in items}
        self.order = items
        self.analyse()

    def analyse(self):
        # free symbols and failure, to a fixed point
        for it in self.order:
            if it.body == "-":
                raise ValueError(f"{it.name} is a foreign function; cannot translate")
            bound = {p for p, _ in it.params} | {w for w, _, _ in it.where}
            ids = set()
            idents(it.body, ids)
            for _, _, we in it.where:
                idents(we, ids)
            it.direct_free = sorted(i for i in ids if i not in bound and i not in self.items
                                    and i not in PURE_BUILTINS and i not in FAIL_BUILTINS)
            cs = set()
            calls(it.body, cs)
            for _, _, we in it.where:
                calls(we, cs)
            it.uses = {i for i in ids if i in self.items}
            it.recursive = it.name in cs
            it.direct_fail = bool(cs & FAIL_BUILTINS) or it.recursive
        changed = True
        for it in self.order:
            it.free = list(it.direct_free)
            it.may_fail = it.direct_fail
        while changed:
            changed = False
            for it in self.order:
                for u in it.uses:
                    o = self.items[u]
                    nf = sorted(set(it.free) | set(o.free))
                    if nf != it.free:
                        it.free, changed = nf, True
                    if o.may_fail and not it.may_fail:
                        it.may_fail, changed = True, True

    def lty(self, t):
        return "List α" if t.startswith("List<") else ("Bool" if t == "Bool" else "α")

    def trv(self, e, it, env, binds):
        """translate to a *value* term: a failing sub-expression is bound to a fresh variable first"""
        return self.force(self.tr(e, it, env, binds), binds)

    # term for `e`; lines "let x ← ..." needed before it are appended to `binds`; a term that may fail is
    # marked `M!(...)`
    def tr(self, e, it, env, binds):
        k = e[0]
        if k == "scalar":
            return lit(e[1])
        if k == "bool":
            return e[1]
        if k == "id":
            n = e[1]
            if n in env:
                return env[n]
            if n in self.items:
                o = self.items[n]
                if o.params:
                    raise ValueError(f"function {n} used as a value outside map()")
                return self.ref(o)
            if n in PURE_BUILTINS or n in FAIL_BUILTINS:
                raise ValueError(f"builtin {n} used as a value")
            return lean_name(n)          # free symbol, a parameter of the current definition
        if k == "neg":
            return f"(NbtNum.neg {self.trv(e[1], it, env, binds)})"
        op = k.rstrip("~")
        if op in BINOPS and len(e) == 3:
            a = self.trv(e[1], it, env, binds)
            b = self.trv(e[2], it, env, binds)
            return f"({BINOPS[op]} {a} {b})"
        if op == "GreaterThan":
            a = self.trv(e[1], it, env, binds)
            b = self.trv(e[2], it, env, binds)
            return f"(NbtNum.lt {b} {a})"
        if k == "if":
            c = self.trv(e[1], it, env, binds)
            tb, eb = [], []
            t = self.tr(e[2], it, env, tb)
            f = self.tr(e[3], it, env, eb)
            if not tb and not eb and not self.is_m(t) and not self.is_m(f):
                return f"(if {c} then {t} else {f})"
            v = self.fresh()
            binds.append(f"let {v} ← (if {c} then {self.block(tb, t)} else {self.block(eb, f)})")
            return v
        if k == "list":
            return "[" + ", ".join(self.trv(x, it, env, binds) for x in e[1:]) + "]"
        if k == "call":
            if not (isinstance(e[1], list) and e[1][0] == "id"):
                raise ValueError("call of a computed callable")
            f = e[1][1]
            args = e[2:]
            if f == "error":
                if len(args) != 1 or args[0][0] != "str" or any(isinstance(p, list) for p in args[0][1:]):
                    raise ValueError("error() with a non-literal message")
                cps = [str(int(h, 16)) for part in args[0][1:] for h in part.split(".")]
                return "M!(.error (.user [" + ", ".join(cps) + "]))"
            if f == "map":
                g = args[0]
                if g[0] != "id" or g[1] not in self.items or self.items[g[1]].may_fail:
                    raise ValueError("map() over something that is not a pure translated function")
                xs = self.trv(args[1], it, env, binds)
                return f"(List.map ({self.ref(self.items[g[1]])}) {xs})"
            a = [self.trv(x, it, env, binds) for x in args]
            if f == "trunc":
                return f"(NbtNum.trunc {a[0]})"
            if f == "len":
                return f"(NbtNum.ofNat (List.length {a[0]}) : α)"
            if f == "concat":
                return f"({a[0]} ++ {a[1]})"
            if f == "cons_end":
                return f"({a[1]} ++ [{a[0]}])"
            if f == "head":
                return f"M!(headE {a[0]})"
            if f == "tail":
                return f"M!(tailE {a[0]})"
            if f in self.items:
                o = self.items[f]
                call = self.ref(o, fuel=("fuel" if o.name == it.name and o.recursive else None)) + "".join(" " + x for x in a)
                return f"M!({call})" if o.may_fail else f"({call})"
            raise ValueError(f"call of {f}, which is neither a known builtin nor a translated item")
        raise ValueError(f"unsupported expression {k}")

    def is_m(self, t):
        return t.startswith("M!(")

    def force(self, t, binds):
        """bind a monadic term to a fresh variable"""
        if self.is_m(t):
            v = self.fresh()
            binds.append(f"let {v} ← {t[2:]}")
            return v
        return t

    def block(self, binds, t):
        if self.is_m(t) and not binds:
            return t[2:]
        if self.is_m(t):
            return "(do " + "; ".join(binds) + "; " + t[2:] + ")"
        if not binds:
            return f"(pure {t})"
        return "(do " + "; ".join(binds) + f"; pure {t})"

    def fresh(self):
        self.n += 1
        return f"x{self.n}"

    def ref(self, o, fuel=None):
        s = lean_name(o.name)
        if o.recursive:
            s += " " + (fuel if fuel else "fuel?")
        for fr in o.free:
            s += " " + lean_name(fr)
        return s

    def emit(self, it):
        self.n = 0
        env = {p: lean_name(p) for p, _ in it.params}
        for w, _, _ in it.where:
            env[w] = lean_name(w)
        binds = []
        for w, wt, we in it.where:
            wb = []
            t = self.tr(we, it, env, wb)
            if wb or self.is_m(t):
                binds += wb
                binds.append(f"let {lean_name(w)} ← {t[2:]}" if self.is_m(t) else f"let {lean_name(w)} : {self.lty(wt)} := {t}")
            else:
                binds.append(f"let {lean_name(w)} : {self.lty(wt)} := {t}")
        t = self.tr(it.body, it, env, binds)
        ret = self.lty(it.ret) if it.ret != "-" else "α"
        frees = "".join(f" ({lean_name(f)} : α)" for f in it.free)
        params = "".join(f" ({lean_name(p)} : {self.lty(pt)})" for p, pt in it.params)
        doc = f"/-- `{it.name}` of module `{it.module}` -/"
        if it.may_fail:
            body = self.block(binds, t)
            if it.recursive:
                ptypes = " → ".join(self.lty(pt) for _, pt in it.params)
                pnames = ", ".join(lean_name(p) for p, _ in it.params)
                under = ", ".join("_" for _ in it.params)
                if "fuel?" in body:
                    raise ValueError("recursive function referenced without fuel")
                return (f"{doc}\ndef {lean_name(it.name)} [NbtNum α] (fuel : Nat){frees} : {ptypes} → M ({ret}) :=\n"
                        f"  match fuel with\n  | 0 => fun {under.replace(', ', ' ')} => .error .fuel\n"
                        f"  | fuel + 1 => fun {pnames.replace(', ', ' ')} => {body}")
            return f"{doc}\ndef {lean_name(it.name)} [NbtNum α]{frees}{params} : M ({ret}) :=\n  {body}"
        if binds:
            body = "\n  ".join(binds) + "\n  " + t
        else:
            body = t
        return f"{doc}\ndef {lean_name(it.name)} [NbtNum α]{frees}{params} : {ret} :=\n  {body}"


def dump_ast():
    env = dict(os.environ)
    env["CARGO_NET_OFFLINE"] = "true"
    os.makedirs(os.path.join(ROOT, "work"), exist_ok=True)
    with open(os.path.join(ROOT, "work", "cargo.lock"), "w") as lk:
        fcntl.flock(lk, fcntl.LOCK_EX)
        try:
            p = subprocess.run(["cargo", "build", "--offline", "--bin", "c23"], cwd=HARNESS, env=env,
                               stdout=subprocess.PIPE, stderr=subprocess.STDOUT, timeout=3600)
        finally:
            fcntl.flock(lk, fcntl.LOCK_UN)
    if p.returncode != 0:
        raise RuntimeError("cargo build --bin c23 failed: " + p.stdout.decode("utf-8", "replace")[-800:])
    p = subprocess.run([os.path.join(HARNESS, "target", "debug", "c23"), "--dump-ast"], cwd=ROOT, env=env,
                       stdout=subprocess.PIPE, stderr=subprocess.PIPE, timeout=600)
    if p.returncode != 0:
        raise RuntimeError("c23 --dump-ast failed: " + p.stderr.decode("utf-8", "replace")[-800:])
    rows = []
    for line in p.stdout.decode("utf-8").split("\n"):
        if line.strip():
            module, name, sx = line.split("\t")
            rows.append((module, name, sx))
    return rows


def render(rows):
    items = [Item(m, n, parse_sexpr(sx)) for m, n, sx in rows]
    g = Gen(items)
    # definition order: dependencies first (source order already has constants before use within a module)
    done, out = set(), []

    def visit(it):
        if it.name in done:
            return
        done.add(it.name)
        for u in sorted(it.uses):
            if u != it.name:
                visit(g.items[u])
        out.append(it)

    for it in items:
        visit(it)
    o = ["import NumbatModel.Model.NbtNum",
         "/-! GENERATED by tools/gen_nbt_functions.py from the AST of the real parser (`c23 --dump-ast`); do not edit.",
         "Source items:"]
    for m, n, sx in rows:
        o.append(f"  {m} {n}: {sx}".replace("-/", "- /"))
    o.append("-/")
    o.append("namespace NumbatModel.Gen.NbtFunctions")
    o.append("open NumbatModel.Nbt")
    o.append("variable {α : Type}")
    o.append("")
    for it in out:
        o.append(g.emit(it).replace("M!(", "("))
        o.append("")
    o.append("end NumbatModel.Gen.NbtFunctions")
    return "\n".join(o) + "\n", [it.name for it in out]


def generate():
    rows = dump_ast()
    text, names = render(rows)
    old = open(OUT, encoding="utf-8").read() if os.path.exists(OUT) else None
    if old != text:
        os.makedirs(os.path.dirname(OUT), exist_ok=True)
        with open(OUT, "w", encoding="utf-8") as f:
            f.write(text)
    return dict(file="Gen/NbtFunctions.lean", items=names, changed=old != text)


if __name__ == "__main__":
    print(generate())
