#!/usr/bin/env python3
"""Prints the per-property 'as built' table of DESIGN.md section 0.6 from tools/checks/*.py and evidence/*.json."""
import json, os, sys
ROOT = os.path.dirname(os.path.dirname(os.path.abspath(__file__)))
sys.path.insert(0, os.path.join(ROOT, "tools"))
from props import PROPS, CLAIMS
titles = {json.loads(l)["id"]: json.loads(l)["title"] for l in open(os.path.join(ROOT, "properties.jsonl"))}
for pid in sorted(PROPS):
    cfg, cl = PROPS[pid], CLAIMS[pid]
    ev = {}
    p = os.path.join(ROOT, "evidence", pid + ".json")
    if os.path.exists(p):
        ev = json.load(open(p)).get("coverage", {})
    thms = [t.split(".")[-1] for t in ev.get("theorems", [])]
    print(f"#### {pid} — {titles[pid]}\n")
    print(f"*Level* `{cfg['level']}`. *Lean modules* {', '.join('`'+m.replace('NumbatModel.','')+'`' for m in cfg['lean_modules'])}"
          f"{'; *regenerated* ' + ', '.join('`'+g+'`' for g in cfg['gens']) if cfg.get('gens') else ''}. "
          f"*Driver* `{cfg.get('driver')}`, *harness* `harness/src/bin/{cfg.get('harness')}.rs`.\n")
    print(f"*Theorems ({len(thms)})*: " + ", ".join('`'+t+'`' for t in thms) + ".\n")
    print("*Claim.* " + cl["text"] + "\n")
    print("*Note.* " + cl["note"] + "\n")
    if ev.get("evaluations"):
        print(f"*Quick tier (seed 1)*: {ev.get('evaluations')} cases, {ev.get('distinct_nontrivial')} distinct non-trivial, "
              f"{ev.get('traces_validated_against_impl')} correspondence lines equal, known findings reproduced: {ev.get('known_findings_reproduced')}.\n")
