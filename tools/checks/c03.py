"""C03 — quantity arithmetic agrees with dimensional analysis of unit definitions."""
from qty_common import QTY_TRUSTED

CFG = dict(
    lean_modules=["NumbatModel.Props.C03", "NumbatModel.Inst.Real", "NumbatModel.Oblig.UnitTable"],
    driver="drv_c03",
    harness="c03",
    gens=["gen_units:generate"],
    level="proof",
    trusted_base=QTY_TRUSTED + [
        "Rational::from_f64 (num-rational approximate_float) is an external parameter: the generator only uses exponents "
        "that the real function maps back to the written rational (checked per exponent through a hook)",
    ],
    assumptions=[
        "PosTbl / WF: every conversion factor of the unit table is positive and definitions refer to earlier rows "
        "(posTbl_of_rows reduces PosTbl to the rows; the rows come from the real session on every run)",
        "PowOK: every power has an integer exponent or a base of positive magnitude (for other cases x^r is not a field "
        "operation; the correspondence still covers them: NaN results are compared)",
        "implementation oracle tolerance: propagated first-order error bound x 64 + 64·2^-52 relative",
    ],
)

CLAIM = dict(
    text="Theorems (Props/C03.lean), for every well-founded unit table with positive factors and every lawful numeric "
         "instance: eval_den — for every expression tree over numbers, units with any prefix, + - * /, negation and "
         "rational powers, the value the VM computes, expressed in base units, equals the denotation obtained by exact "
         "arithmetic from the units' definitions; factor_product / factor_canon / factor_perm / factor_mul / factor_div "
         "/ factor_power — the conversion factor is the product of (prefix factor x base factor)^exponent and is "
         "invariant under canonicalisation and the order of factors; bf_base / bf_derived / base_fuel_irrelevant — the "
         "base factor of a derived unit is its own factor times the conversion factor of its defining unit, "
         "transitively; posTbl_of_rows. The same definitions at Float agree bit-for-bit with the real interpreter "
         "(source text -> tokenizer -> parser -> prefix resolution -> type checker -> compiler -> VM) on random "
         "type-directed expression trees over all prelude units, aliases and accepted prefixes."
         " The harness also evaluates every tree as a statement and compares the displayed (automatically simplified) result with the same dimensional arithmetic, and generates sums of equal powers of differently prefixed units and products / quotients whose dimension has a named unit.",
    design_ref="DESIGN.md section 5 C03",
    note="Exact-arithmetic theorems; 'up to floating-point rounding' is the gap between the ℝ and the Float "
         "instantiation of one definition, bounded only empirically by the oracle's error estimate.",
    technique="Lean 4 proof (structural induction over expression trees) over an abstract lawful field + bit-exact differential correspondence at Float through the full interpreter",
)
