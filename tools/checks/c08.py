"""C08 — no input crashes or hangs the interpreter."""
from common import COMMON_TRUSTED

CFG = dict(
    lean_modules=["NumbatModel.Props.C08"],
    driver="drv_c08",
    harness="c08",
    gens=[],
    level="exploration",
    trusted_base=COMMON_TRUSTED + [
        "the property is decided by search on the implementation (catch_unwind + watchdog on a worker thread with a "
        "1 GiB stack); the Lean part only models the factorial operator (u16 cast + loop) and i128 exponent products",
        "panics are identified by call site (file:line of the panic location); known_findings.json lists call sites, so a "
        "panic from a new site is a violation",
    ],
    assumptions=[
        "stack exhaustion and allocation failure are outside the check (nesting depth <= 500; inputs that define "
        "recursive functions are only run unmodified, because unbounded recursion is outside the property)",
        "the harness is built with debug assertions and overflow checks on, so `debug_assert!` failures and arithmetic "
        "overflow are reported as panics",
    ],
)

CLAIM = dict(
    text="Search on the implementation: standard-library and example statements, their token- and character-level "
         "mutations, numeric-literal substitution by extreme values, grammar-generated programs with extreme literals "
         "and exponents, extreme shapes (operator runs, nesting to depth 500, 70 000-element lists, 65 536 factorial "
         "operators), random UTF-8, calls of every function of the prelude session with arguments from the edges of "
         "each declared parameter type, dimensionful bases raised to compile-time exponent expressions over small "
         "integers — in fresh and in accumulating sessions, with the diagnostic of every error rendered, "
         "under catch_unwind and a wall-clock watchdog. Proved (Props/C08.lean) are the exact boundaries of the arithmetic "
         "cores behind the named crashes: factorial_terminates / factorial_panics_iff / factorial_order_zero_diverges / "
         "order_cast_zero_iff (the operator count is cast to u16: exactly the multiples of 65536 panic in checked builds "
         "and loop forever otherwise), mulI128_safe / mulI128_overflow_witness (exponent products), and from C18 that "
         "no list operation can panic. The factorial model is tied to the interpreter by a correspondence stream. (For "
         "the typed program fragment of C01, `program_no_incompatible` additionally excludes the VM's `pop_quantity` / "
         "`pop_bool` / struct and list shape panics — the outcome `stuck` of that model — for every well-typed program.)",
    design_ref="DESIGN.md section 5 C08",
    note="Exploration level: no executable model short of the whole interpreter decides this property. The search found "
         "some twenty genuine crash or hang sites on the pinned tree; most were repaired in numbat (`fix:` commits: "
         "full_simplify, mod, atan2, diagnostic backtrace, substitution unwrap, interpolation traversal, function "
         "self-reference, non-quantity units, NaN comparison, base, gcd, range, linspace, split), the rest are recorded "
         "as known findings by panic site / message (rational exponent overflow in num-rational, factorial order cast, "
         "VM constant table assert, last-result type confusion, polymorphic NaN/inf in FFI conversions, strfmt and "
         "pretty_dtoa, format-spec width).",
    technique="randomised and shape-directed crash search on the implementation (panic capture by call site, watchdog) + Lean 4 theorems for the arithmetic cores of the known crashes",
)

CLAIM["text"] += ' A class of range edges was added: date-times plus or minus durations of every magnitude, calendar arithmetic, three-argument assertions with tolerances from 5e-324 to 1e308 (their failure message formats the tolerance), and definitions whose parameters or where-variables are named like units.'
CLAIM["text"] += " Deeply nested inputs (parentheses, if-else chains, long sums, unary minus, list brackets; 50-100 levels, which must work, and 5000-100000 levels) are handed to the `numbat` binary built from the current tree in a child process, because a stack overflow kills the process and cannot be observed in-process."
