"""C01 — accepted programs never go wrong dimensionally at run time."""
from qty_common import QTY_TRUSTED

CFG = dict(
    lean_modules=["NumbatModel.Props.C01", "NumbatModel.Inst.Real", "NumbatModel.Oblig.UnitTable"],
    driver="drv_c01",
    harness="c01",
    gens=["gen_units:generate"],
    level="proof",
    trusted_base=QTY_TRUSTED + [
        "the static typing relations HasDim (Lemmas/QtyDim.lean, expression fragment) and HasTy/ProgOK (Lemmas/QtyProg.lean, "
        "program fragment) are hand-written models of numbat's checker over dimension vectors indexed by base units; "
        "numbat's checker works over base dimensions — the harness checks on every run that base units and base "
        "dimensions correspond one-to-one. Polymorphism is modelled semantically: the type of a global and the "
        "signature of a function are the *sets of their monomorphic instances* (`let z = 0` has every dimension; "
        "`fn f<D: Dim>(x: D) -> D^2` has one instance per D), a `let` must be typed at every instance of its type and a "
        "function body at every instance of its signature; numbat's inference of these sets (type schemes) is C02's and "
        "C16's subject, not modelled here",
        "Model/QtyProg.lean (evalP, evalArgs, runProg) is a hand-written model of what the compiler and the VM do for "
        "the fragment (one opcode per operator, strict && and ||, lazy conditional, arguments left to right, `where` "
        "clauses in order as further locals, raw values "
        "of globals); it is tied to the code by the `mprog` stream: generated programs of the fragment run definition "
        "by definition on the real interpreter, raw value of every new global compared bit for bit",
        "the inference of polymorphic types and the list functions other than head/tail/cons/len are outside "
        "the Lean model; for them "
        "the claim rests on the implementation oracle (raw value of every global vs reported static type) over generated programs",
    ],
    assumptions=[
        "NamesDistinct: distinct rows of the unit table have distinct names (kernel-checked on the regenerated prelude "
        "table: Oblig/UnitTable.unitNames_nodup); it yields ConvComplete (Lemmas/QtyCanon.convComplete)",
        "a zero value is exempt from the unit check (the polymorphic zero carries no unit)",
        "the theorems are over exact arithmetic (a lawful field: no NaN, no infinity); where the Float run differs "
        "in kind, the check reports it (known finding C01-zero-nonfinite: `0 * NaN` is not a zero)",
        "the target of a conversion is a unit expression (known finding C01-convert-to-zero: `1 m -> 0` is accepted "
        "and fails at run time)",
        "program_soundness is stated for every fuel of the model's evaluator; `out of fuel` (a non-terminating "
        "recursion) is an outcome of the model only",
        "FFI functions are trusted to return what their declared signature says; `parse` and `quantity_cast` are not generated",
        "known findings: composite non-integer exponents (`(m^2)^(0.1+0.2)`: static exponent 3/10, run-time exponent "
        "Rational::from_f64(0.30000000000000004)) and the polymorphic `inf`/`NaN` literals (`inf + 1 m`)",
    ],
)

CLAIM = dict(
    text="Theorems (Props/C01.lean). (1) Expression fragment: soundness_partial / soundness / no_incompatible_units — "
         "for every expression typed by HasDim (numbers incl. the polymorphic zero, units with prefixes, + - * / "
         "negation, powers with constant rational exponents), evaluation by the VM's quantity operations yields a "
         "value whose unit has the static dimension vector (or is a zero), or fails with a division by zero, never "
         "with a unit incompatibility; for every unit table with distinct unit names, because conversions between "
         "units of equal dimension vector succeed (convComplete, Lemmas/QtyCanon.lean); the prelude table satisfies "
         "the hypotheses (Oblig/UnitTable). (2) Program fragment: expr_soundness / program_soundness / "
         "program_soundness_closed / program_no_incompatible — for every sequence of `let` and `fn` definitions typed "
         "by ProgOK (expressions as in (1) plus earlier globals, parameters, conversions `a -> unit expression`, the "
         "six comparisons, && || !, boolean literals, if-then-else, and calls of first-order — possibly recursive, "
         "possibly generic — user functions with `where` clauses, lists (literals, `head`, `tail`, `cons`, `len`; "
         "so recursive list functions such as `sum` are in the fragment) and structs (literals with the compiler's "
         "evaluation order, field access); polymorphic globals and generic "
         "signatures are sets of instances), running it with the model of the compiler+VM (evalP/runProg, any fuel) from a session that "
         "satisfies the invariant ends in a session in which every global agrees with its static type and every "
         "function is checked, or fails with a division by zero or `head`/`tail` of an empty list (or the model's fuel "
         "runs out); never with a unit "
         "incompatibility, never with an operand of the wrong kind. The model is tied to the code by the `mprog` "
         "stream (bit-exact raw values of all globals of generated programs of the fragment). The rest of the "
         "property (the inference of generic signatures, the other list functions, unit and dimension "
         "definitions) is checked on the real interpreter: generated type-directed programs, the raw value of every "
         "global — recursively through struct fields and list elements — against the static type the checker "
         "reports, and the kind of every run-time failure.",
    design_ref="DESIGN.md section 5 C01",
    note="Partial: the theorems cover the program fragment (incl. generic functions and polymorphic lets, as instance "
         "sets, where-clauses, lists and structs) over exact arithmetic; the other list functions, strings and "
         "date-times are exploration-level (implementation oracle over generated programs). Proving the conversion rule and "
         "running the fragment on the interpreter exposed two more genuine defects (C01-convert-to-zero: `1 m -> 0`; "
         "C01-zero-nonfinite: a polymorphic zero times NaN), recorded as known findings next to the composite "
         "non-integer exponents and the polymorphic inf/NaN; the zero-on-the-left comparison defect was repaired.",
    technique="Lean 4 proof (induction over typing derivations / over the evaluator's fuel) for the expression and program fragments + bit-exact correspondence of the compiled model with the real interpreter on generated programs + implementation oracle over generated programs",
)
