"""C01 — accepted programs never go wrong dimensionally at run time."""
from qty_common import QTY_TRUSTED

CFG = dict(
    lean_modules=["NumbatModel.Props.C01", "NumbatModel.Inst.Real", "NumbatModel.Oblig.UnitTable"],
    driver="drv_c01",
    harness="c01",
    gens=["gen_units:generate"],
    level="proof",
    trusted_base=QTY_TRUSTED + [
        "the static typing relation HasDim (Lemmas/QtyDim.lean) is a hand-written model of numbat's checker for the "
        "expression fragment (numbers with the polymorphic zero, units, + - * / neg, powers with constant rational "
        "exponents) over dimension vectors indexed by base units; numbat's checker works over base dimensions — the "
        "harness checks on every run that base units and base dimensions correspond one-to-one",
        "functions, where-clauses, conditionals, structs and lists are outside the Lean model; for them the claim rests "
        "on the implementation oracle (raw value of every global vs reported static type) over generated programs",
    ],
    assumptions=[
        "NamesDistinct: distinct rows of the unit table have distinct names (kernel-checked on the regenerated prelude "
        "table: Oblig/UnitTable.unitNames_nodup); it yields ConvComplete (Lemmas/QtyCanon.convComplete)",
        "a zero value is exempt from the unit check (the polymorphic zero carries no unit)",
        "FFI functions are trusted to return what their declared signature says; `parse` and `quantity_cast` are not generated",
        "known findings: composite non-integer exponents (`(m^2)^(0.1+0.2)`: static exponent 3/10, run-time exponent "
        "Rational::from_f64(0.30000000000000004)) and the polymorphic `inf`/`NaN` literals (`inf + 1 m`)",
    ],
)

CLAIM = dict(
    text="Theorems (Props/C01.lean) for the expression fragment: soundness_partial — for every expression typed by "
         "the static relation HasDim (numbers incl. the polymorphic zero, units with prefixes, + - * / negation, powers "
         "with constant rational exponents), evaluation by the VM's quantity operations yields a value whose unit has "
         "the static dimension vector (or is a zero), or fails with a division by zero; no_incompatible_units — it "
         "never fails with a unit incompatibility; soundness — the same for every unit table with distinct unit names, "
         "because conversions between units of equal dimension vector succeed (convComplete: sorting by name, merging "
         "and dropping zero exponents yields a canonical form that is unique for a given exponent vector; about 500 "
         "lines, Lemmas/QtyCanon.lean); the prelude table satisfies the hypotheses (Oblig/UnitTable). The rest of the property "
         "(functions incl. generic and inferred ones, where-clauses, conditionals, structs, lists, unit and dimension "
         "definitions) is checked on the real interpreter: generated type-directed programs, the raw value of every "
         "global — recursively through struct fields and list elements — against the static type the checker reports, "
         "and the kind of every run-time failure.",
    design_ref="DESIGN.md section 5 C01",
    note="Partial: the theorems cover the expression fragment; statements about functions, "
         "structs and lists are exploration-level (implementation oracle over generated programs). Two genuine defects "
         "are recorded as known findings (composite non-integer exponents; polymorphic inf/NaN); the zero-on-the-left "
         "comparison defect was repaired.",
    technique="Lean 4 proof (induction over typing derivations) for the expression fragment + implementation oracle over generated programs + bit-exact correspondence of base representations",
)
