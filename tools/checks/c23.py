"""C23 — configuration of the check and text of the claim."""
from common import COMMON_TRUSTED

CFG = dict(
    lean_modules=['NumbatModel.Props.C23'],
    driver='drv_c23',
    harness='c23',
    gens=['gen_nbt_functions:generate'],
    level='proof',
    trusted_base=COMMON_TRUSTED + [
        'tools/gen_nbt_functions.py: translation of the untyped AST (hook numbat::verif::c23::module_items_sexpr, printed by '
        'the real parser from the module source embedded in the crate) of from_celsius, °C, celsius, from_fahrenheit, °F, '
        'fahrenheit, _offset_*, _scale_*, trunc_in, _zero_length, _mixed_unit_list into Lean definitions over the signature '
        'NbtNum (Gen/NbtFunctions.lean); its reading of numbat semantics (eager `where`, `a -> b` keeps the quantity, '
        'implicit multiplication, head/tail/error as failures) is trusted and exercised by the correspondence',
        'the exact instance NbtNum Rat (a quantity is its magnitude in base units) is the semantics the theorems speak '
        'about; f64 rounding is outside the theorems and inside the stated harness tolerances',
        'Model/Time.lean (C19) for _unixtime_µs / _from_unixtime_µs / date-time difference and addition',
        'libm (sin, asin, …, exp, ln): not modelled; tested only'],
    assumptions=[
        'temperature theorems: the magnitude of the unit kelvin is non-zero; division is field division (numbat raises an '
        'error on division by an exact zero, which cannot occur with the non-zero constants of these functions)',
        'mixed units: theorems are about _mixed_unit_list on any non-empty unit list (unit_list first removes duplicates '
        'and sorts descending with library code that is not translated)',
        'Julian-date theorem on the exact instance; on f64 the Julian date in seconds has 53 bits (tolerance 2 ulp + 1 ns)',
        'inverse pairs are tested on principal domains with margins (see PAIRS in harness/src/bin/c23.rs), tolerance '
        '1e-9·max(1,|x|)'],
)

CLAIM = dict(
    text=('Partial. Proved in Lean about definitions regenerated on every run from the real parser\'s AST of the .nbt '
          'sources (so an edit that breaks an inverse law breaks a proof): °C↔K and °F↔K are mutually inverse in both '
          'directions, also through the aliases and chained (celsius_roundtrip, fahrenheit_roundtrip, '
          'celsius_fahrenheit_roundtrip; exact field arithmetic); _mixed_unit_list, the worker of unit_list, returns for '
          'every value and every non-empty unit list one part per unit, the parts add up to the value and all but the last '
          'are whole multiples of their unit, and an empty unit list is an error (mixed_units_spec, mixed_units_sum, '
          'mixed_units_whole, mixed_units_empty; induction over the unit list). Proved about the time model of C19: '
          'from_unixtime∘unixtime is the instant truncated to whole microseconds and unixtime∘from_unixtime is the identity '
          'on accepted counts (unixtime_roundtrip, from_unixtime_roundtrip); from_julian_date∘julian_date is the same '
          'instant in exact arithmetic (julian_roundtrip). Tie: the generated temperature functions run at Float against '
          'the interpreter bit-exactly, the generated _mixed_unit_list runs at exact rationals against the interpreter\'s '
          'whole-unit counts, and the time model against _unixtime_µs / _from_unixtime_µs / julian_date bit-exactly. Only '
          'tested, not proved: the f64 behaviour of all of the above (explicit tolerances), the .nbt glue of unixtime_s/ms/µs '
          'and unit_list\'s unique/sort, and the trigonometric, hyperbolic, exponential and logarithmic inverse pairs (libm) '
          'on their principal domains.'),
    design_ref='DESIGN.md section 5 C23',
    note=('Trusted: Lean kernel, the translator, the exact-arithmetic reading of quantities, the harness and its tolerances. '
          'One defect found by this check was repaired in numbat: unixtime_µs(from_unixtime_µs(400191)) = 400190 '
          '(floor after a lossy s↔µs detour; `fix:` commit, regression inputs in the corpus).'),
    technique=('translator from the real AST to Lean + theorems over exact arithmetic (grind, induction) + differential '
               'correspondence (Float bit patterns, exact rational counts) + tolerance oracle on the interpreter'),
)

CLAIM["text"] += ' Temperatures handed to °C / °F are also written in mK, kK and µK, and the inverse pairs of math::trigonometry_extra (cot/acot, coth/acoth, secant/arcsecant, csc/acsc, sech/asech, csch/acsch) are tested with a relative tolerance of 1e-9 on the well-conditioned part of their domains.'
