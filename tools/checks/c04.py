"""C04 — conversion yields exactly the requested unit and the same quantity."""
from qty_common import QTY_TRUSTED

CFG = dict(
    lean_modules=["NumbatModel.Props.C04", "NumbatModel.Inst.Real", "NumbatModel.Oblig.UnitTable"],
    driver="drv_c04",
    harness="c04",
    gens=["gen_units:generate"],
    level="proof",
    trusted_base=QTY_TRUSTED,
    assumptions=[
        "PosTbl: every conversion factor in the unit table is positive (checked on the regenerated table by the harness: "
        "all factor bit patterns are positive finite numbers)",
        "floating-point tolerance of the implementation oracle: relative error <= (64 + 32·#factors)·2^-52",
    ],
)

CLAIM = dict(
    text="Theorems (Props/C04.lean) about the model of Quantity::convert_to, for every unit table with positive "
         "factors, every quantity and target unit and every lawful numeric instance: the result carries exactly the "
         "requested unit (convert_unit); it denotes the same physical quantity (convert_phys); the common-factor "
         "cancellation heuristic is irrelevant for the value (convert_value); converting back restores the magnitude "
         "(convert_roundtrip); converting through an intermediate unit agrees with converting directly "
         "(convert_transitive); a zero converts to any unit (convert_zero); a conversion succeeds exactly when the "
         "quantity is zero or source and target have the same dimension vector (convert_ok_iff, any NumOps instance, "
         "via the uniqueness of canonical base representations). The model executed at Float must agree "
         "bit-for-bit with the real convert_to on generated and (thorough) all ordered pairs of same-dimension "
         "prelude units; an independent oracle recomputes value·F(src)/F(tgt) from the direct unit definitions."
         " A further stream converts to compound targets (products / quotients of 2-3 units, half of them coherent units only) through the interpreter: the displayed unit must be the requested unit expression as numbat itself represents it.",
    design_ref="DESIGN.md section 5 C04",
    note="Exact-arithmetic theorems; f64 rounding is covered only by the bit-exact correspondence and the "
         "tolerance oracle. The displayed `× target` form (conversion target with magnitude ≠ 1) is checked by C05's "
         "display stream, not here. The criterion for success/failure of a conversion is the theorem convert_ok_iff and is "
         "exercised by the oracle's different-dimension stream.",
    technique="Lean 4 proof over an abstract lawful field + bit-exact differential correspondence at Float",
)
