"""C15 — configuration of the check and text of the claim."""
from common import COMMON_TRUSTED

CFG = dict(
    lean_modules=['NumbatModel.Props.C15'],
    driver='drv_c15',
    harness='c15',
    gens=[],
    level='proof',
    trusted_base=COMMON_TRUSTED + [
        'modelled, not verified: typed_ast.rs expression printer (with_parens, with_parens_liberal, pretty_print_binop, '
        'temperature sugar, string parts), escape_numbat_string, strip_and_escape, Tokenizer::consume_string as '
        'Model/Printer.lean; the reference parser of the theorem is a model of the documented grammar '
        '(parser.rs module documentation), tied to the real parser only through the round-trip oracle',
        'outside the model: number formatting (C14), the tokenizer outside string scanning (C10), name resolution, '
        'the statement-level printer (let/fn/unit/dimension/struct headers, decorators, readable types) — covered by '
        'the round-trip oracle on the implementation only',
    ],
    assumptions=[
        'a scalar prints as the text Number::pretty_print gives and that text is read back as one number token',
        'identifiers and unit names are read back as one identifier token each (C10 tokenize_unlex)',
    ],
)

CLAIM = dict(
    text=('For the expression printer of typed_ast.rs (model Model/Printer.lean, bit-exact with the implementation on '
          'every printed expression of the generated sessions): Lean theorems that the echoed tokens re-read, by a parser '
          'for the documented grammar, to the same tree up to re-association of the + and × chains the printer flattens '
          '(print_parse, all 14 binary operators, unary operators, conditionals, fused products, superscripts), that printing the re-read tree gives the same text (print_idempotent, all constructors, under the predicate Stable), and that strip_and_escape inverts '
          'escape_numbat_string on every string (escape_unescape) and the tokenizer string scan ends exactly at the '
          'closing quote (escape_token_boundary); the exact side conditions are stated as a predicate and each excluded '
          'shape has a witness theorem replayed on the real interpreter. On the implementation: every accepted generated '
          'statement of every kind is echoed and re-read in a clone of the prior session state and must be accepted with '
          'the same type, value bits, print output and echo.'),
    design_ref='DESIGN.md section 5 C15',
    note=('Trusted: Lean kernel, the hand-written printer model and reference parser, the harness. 22 deviations found on '
          'the unchanged tree are listed as known findings (known_findings.json ids C15-*); statements outside the '
          'expression fragment are covered by the implementation-side oracle only.'),
    technique='Lean 4 proof about an executable printer/parser model + differential correspondence + round-trip oracle on the real interpreter',
)
