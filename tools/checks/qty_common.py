from common import COMMON_TRUSTED

QTY_TRUSTED = COMMON_TRUSTED + [
    "modelled, not verified: prefix.rs, unit.rs, product.rs, quantity.rs as Model/Qty.lean over the numeric "
    "signature NumOps; units refer to their definitions through the unit table that the harness re-extracts from "
    "the real session on every run (Context::verif_unit_table) and sends to the driver",
    "theorems hold for every LawfulNum instance (a field with positivity and the power laws; ℝ with Real.rpow "
    "is one: Inst/Real.lean, the only file importing a Mathlib module); IEEE-754 rounding is outside every "
    "theorem and inside the executed Float instance, whose agreement with the Rust code is checked bit-for-bit",
    "Lean's Float operations and Rust's f64 operations are the platform's binary64 operations; f64::powi is "
    "LLVM's __powidf2 (mirrored), powf is libm pow on both sides",
    "num-rational (Ratio<i128> arithmetic and to_f64) is not modelled beyond exact rational arithmetic (no i128 overflow)",
    "tools/gen_units.py + harness binary dump_units regenerate Gen/UnitTable.lean from a real session on every run; Oblig/UnitTable.lean re-proves (decide +kernel) that the prelude table is well-founded with positive finite factors, i.e. that the hypotheses WF and PosTbl hold for the prelude table read in ℝ",
]
