"""C19 — configuration of the check and text of the claim."""
from common import COMMON_TRUSTED

CFG = dict(
    lean_modules=['NumbatModel.Props.C19'],
    driver='drv_c19',
    harness='c19',
    gens=[],
    level='proof',
    trusted_base=COMMON_TRUSTED + [
        'modelled, not verified: vm.rs Op::AddToDateTime / SubFromDateTime / DiffDateTime / TzConversion and the part of '
        'jiff 0.2.18 they use (Span::try_seconds / nanoseconds with the single sign, Timestamp::checked_add on time-only '
        'spans, since + total(Second), with_time_zone) as Model/Time.lean',
        'assumed external contract (jiff): calendar, time-zone database, strftime/strptime and the RFC parsers; the '
        'ranges Timestamp::MIN/MAX and SpanSeconds::MAX are constants of the model (compared against the crate by the '
        'correspondence at both ends of the range)',
        'IEEE-754 double arithmetic of Lean Float equals Rust f64 for + - * / floor ceil round and u64->f64 conversion '
        '(compared bit-exactly on every run)'],
    assumptions=[
        'supported range of instants: jiff Timestamp::MIN..=MAX (-9999-01-02T01:59:59Z ..= 9999-12-30T22:00:00.999999999Z); '
        'supported durations: |trunc(d in seconds)| <= 631107417600',
        'theorems hold for every numeric instance DurOps α; that the f64 operations behind floatOps (trunc, fract, '
        'round, as i64) give parts of equal sign is a fact about IEEE arithmetic outside the theorems '
        '(roundNs_eq takes it as a hypothesis; roundNs_nearest proves it for the exact instance)',
        'full-precision formats checked for parse(format(t)): the formats numbat documents with %.f and an offset, RFC 3339 '
        'in UTC, RFC 9557 only for years 0..9999 (strftime %Y does not print ISO 8601 six-digit signed years)'],
)

CLAIM = dict(
    text=('Partial. Proved in Lean (for every instant, zone, duration and every numeric instance, hence for the Float '
          'instance the driver executes): (t + d) - d and (t - d) + d return exactly t (same instant, same zone) whenever '
          'the first step succeeds (add_then_sub, sub_then_add); (t + d) - t is exactly the nanosecond offset the VM '
          'computes from d (add_then_diff, sub_then_diff), and on exact arithmetic that offset is a nearest nanosecond of d '
          '(roundNs_nearest, roundNs_eq); time-zone conversion changes only the zone and commutes with arithmetic '
          '(tz_same_instant, tz_commutes_with_add); an operation succeeds iff the duration is representable and the exact '
          'sum lies in the supported range, and then yields that exact sum — never a wrapped or clamped date '
          '(out_of_range_is_error, out_of_range_is_error_sub, in_range_succeeds). The model (Model/Time.lean) mirrors vm.rs '
          'and the used part of jiff and is tied to the code by a bit-exact correspondence through the real interpreter '
          '(results of +, -, difference in seconds as f64 bit patterns, zone conversion, error kinds). Only tested, not '
          'proved: everything that is jiff — calendar, time-zone database, formatting and parsing; the statement "parsing '
          'a date-time displayed with a full-precision format yields the same instant" is checked by the oracle on the '
          'implementation only (10 formats, ~600 IANA zones, whole year range).'),
    design_ref='DESIGN.md section 5 C19',
    note=('Trusted: Lean kernel, the hand-written model of the four VM operations and of the jiff span/timestamp arithmetic '
          'they use, the harness. jiff itself is an assumed contract. Two defects of the unchanged tree are recorded as '
          'known findings (documented 12-hour format does not parse back; `t + 0 s` is a type error).'),
    technique=('Lean 4 theorems over an abstract numeric signature + differential correspondence of the compiled Float '
               'instance against the interpreter; independent integer-arithmetic oracle on the implementation'),
)
