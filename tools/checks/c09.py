"""C09 — configuration of the check and text of the claim."""
from common import COMMON_TRUSTED

CFG = dict(
    lean_modules=['NumbatModel.Props.C09'],
    driver='drv_c09',
    harness='c09',
    gens=[],
    level='proof',
    trusted_base=COMMON_TRUSTED + [
        'modelled, not verified: bytecode_interpreter.rs (compile_expression / compile_define_variable / '
        'compile_statement) and vm.rs (Op, add_op*, patch_u16_value_at, run_without_cleanup) as Model/VM.lean; the '
        'typed AST as Model/Core.lean; spans, markup and the unit/prefix/date-time instructions are left out',
        'parameters of the model, not verified: value-level arithmetic on quantities, foreign functions '
        '(len/head/tail/cons/cons_end/str_length are mirrored in the driver), strfmt format specifiers, number '
        'formatting (the driver formats integers below 2^53 only)',
        'the front end (parser, prefix transformer, type checker) is outside the model: the model receives the '
        'typed statements through the hook Context::verif_c09_typed_dump; the independent reference evaluator '
        'in the harness works on the source tree, so a front-end defect that changes the meaning still shows',
    ],
    assumptions=[
        'code size, number of constants, locals and call-argument records stay below 65536 (u16 operands)',
        'well-typed input: every theorem is conditional on the reference evaluation not taking a branch where '
        'the Rust code would panic (operand of the wrong kind, wrong arity)',
        'a function value carries the chunk index of the definition that was current when the reference was created '
        '(the late binding by name of the pinned code — `let g = f`, a redefinition of `f`, `g(1)` called the new `f` — '
        'was a defect found by this check and repaired in numbat; the reference semantics, the VM model and the proofs follow)',
    ],
)

CLAIM = dict(
    text=('Machine-checked compiler-correctness proofs (Lean 4, induction on evaluation fuel) over a byte-level model of '
          'numbat\'s bytecode compiler and stack machine against a reference big-step evaluator of the typed core '
          'language: compile_correct (every expression: operators, conditionals with both jump patches, local / global / '
          'ans / function-reference resolution with shadowing, lists, structs, strings, direct calls with frames and '
          'where-variables, recursion, foreign calls, calls of function values), call_correct, conditional_bytes, the '
          'order facts struct_field_order / list_order / joinstring_order, and program_correct (a whole input: statements '
          'compiled then run, globals, last result, printed lines and result value equal those of the reference semantics, '
          'same run-time error otherwise). The model is tied to the Rust code by a bit-exact correspondence run on '
          'generated well-typed sessions (bytes of every chunk, constants, locals table, function map, struct and foreign '
          'tables, machine state, values, printed lines), and an independent reference evaluator over the generated '
          'source tree is the oracle on the implementation.'),
    design_ref='DESIGN.md section 5 C09',
    note=('Trusted: Lean kernel, the hand-written models, the harness; value-level arithmetic, foreign functions '
          'and number formatting are parameters.'),
    technique=('Lean 4 compiler-correctness proof (induction on evaluation fuel) + differential correspondence of the '
               'compiled model against the real compiler and VM + independent reference evaluator as oracle'),
)

CLAIM["text"] += ' Function values include the foreign list/string functions (called through variables, parameters and conditionals), so argument order through `CallCallable` is compared for foreign functions too.'
