"""C06 — configuration of the check and text of the claim."""
from common import COMMON_TRUSTED

CFG = dict(
    lean_modules=['NumbatModel.Props.C06'],
    driver='drv_c06',
    harness='c06',
    gens=[],
    level='proof',
    trusted_base=COMMON_TRUSTED + [
        'modelled, not verified: Context::interpret_with_settings (numbat/src/lib.rs), Resolver::resolve / '
        'inlining_pass / add_code_source (resolver.rs) and the error clean-up of Vm::run (vm.rs) as '
        'Model/Session.lean; the transformer, type checker and interpreter are stage *parameters* that return the '
        'state they leave behind even when they fail',
        'Model/SessionNames.lean (name-level instance of the stage functions executed by the driver: which kind '
        'of definition is registered in which component)',
        'outside the model: load_currency_module_on_demand (off in the library default and in the harness), '
        'spans / source ids inside component states, terminal_width, the contents of source files'],
    assumptions=[
        'history theorem: the stage functions see source ids only through labels (hypothesis `Congruence`; '
        'discharged for label-free parsers by `congruence_of_labelFree`); the implementation side of this '
        'assumption is what the twin-session oracle tests',
        'the module nesting depth of the model is bounded (Stages.depth; Err.fuel is an explicit result)'],
)

CLAIM = dict(
    text=('Machine-checked proof on the session state machine: for every session, input and stage functions, if '
          '`interpret` fails at any stage (unknown module, parse error, name resolution, type check, run time) the '
          'resulting session equals the old one in every component except the source-file table and the input '
          'counters (`failure_is_noop`); lifted by induction to histories — a failing input can be deleted from '
          'any history without changing the final session or the outcomes of later inputs '
          '(`failing_input_removable`), and the pre-repair code is proved to violate it (`failure_leaks_import_prefix`). '
          'Tie: twin-session oracle on the real Context (every input is also run on a session that never saw the '
          'failing inputs: outcomes and full state digests equal) and a correspondence run in which the compiled model, '
          'told per input the failing stage and the modules/names introduced, predicts the names known to each '
          'component, the imported modules and the file-table counters.'),
    design_ref='DESIGN.md section 5 C06, section 4 M-Sess',
    note=('Trusted: Lean kernel, the hand-written model of interpret_with_settings / the resolver, the harness '
          '(generator, digest hook, twin oracle). The stage functions are parameters, so the theorem is about the '
          'snapshot/restore structure, not about the stages themselves.'),
    technique=('Lean 4 proof over a parametric state machine (case split per stage, induction over histories) + '
               'twin-session oracle and name-level differential correspondence against the real Context'),
)
