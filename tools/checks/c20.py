"""C20 — configuration of the check and text of the claim."""
from common import COMMON_TRUSTED

CFG = dict(
    lean_modules=['NumbatModel.Props.C20'],
    driver='drv_c20',
    harness='c20',
    gens=[],
    level='proof',
    trusted_base=COMMON_TRUSTED + [
        'modelled, not verified: numbat/src/html_formatter.rs (html_format, HtmlFormatter::format_part, HtmlWriter), '
        'the default method markup::Formatter::format, and html_escape::encode_text (crate html-escape 0.2.13) as '
        'Model/Html.lean over bytes',
        'specification vocabulary: the HTML reader `lex` of Model/Html.lean (every `<` opens a tag that must be '
        '</span> or <span class="numbat-[a-z-]+">, every `&` opens amp/lt/gt, bare `>` rejected) and its Rust twin in '
        'harness/src/bin/c20.rs (which additionally tolerates &quot; &apos; &#39; &#x27; &#x2F;)',
        'outside the model: which write/set_color calls codespan-reporting makes for a diagnostic (recorded from the '
        'real run and fed to the model), what markup numbat builds for a value (taken from the real run), '
        'String::from_utf8_lossy in HtmlWriter::to_string (identity on the valid UTF-8 the clients write), the '
        'browser\'s HTML parser',
    ],
    assumptions=[
        'the class names in HtmlFormatter\'s table are renderer constants over [a-z-] (checked: cssClass_valid), and the '
        'rendered text is placed in element content (not inside an attribute or <script>), where & < > are the only '
        'characters with markup meaning',
        'the bytes written to HtmlWriter form valid UTF-8 overall (true for codespan, which writes str slices)',
    ],
)

CLAIM = dict(
    text=('Machine-checked proof over a byte-level model of html_formatter.rs: for every list of markup parts and both '
          'indentation modes (format_tags) and for every sequence of set_color/reset/flush/write calls with arbitrary '
          'byte slices on a fresh HtmlWriter (writer_tags), the output is read completely by a conservative HTML reader '
          'that accepts only the renderer\'s own <span class="numbat-…">/</span> tags and the entities &amp; &lt; &gt;, '
          'the spans are balanced with classes from the renderer\'s table, and un-escaping the text content gives back '
          'exactly the original text; escape_no_meta/escape_roundtrip state the same for html_escape::encode_text; '
          'prefix_writer_leaks shows the writer before commit c2fa8f9 fails it on <img src=x onerror=alert(1)>. The '
          'model is tied to the code on every run: inputs with HTML metacharacters in strings, comments, decorator '
          'strings, invalid tokens and error messages are interpreted by the real Context and rendered exactly as '
          'numbat-wasm does (HtmlFormatter for echo/print/result/info markup, codespan into HtmlWriter for resolver, '
          'name-resolution, type-check and run-time errors); the compiled model, given the same markup parts resp. '
          'the recorded writer calls, must produce byte-identical output; independently an HTML tokenizer in the '
          'harness checks every real rendering for foreign tags, stray & and >, balance, and equality of the decoded '
          'text with the plain-text rendering.'),
    design_ref='DESIGN.md section 5 C20',
    note=('Trusted: Lean kernel (axioms propext, Classical.choice, Quot.sound only), the hand-written model and the '
          'reader used as specification, the harness. codespan-reporting and the markup numbat produces are inputs '
          'to the model, not modelled; the generator bounds which diagnostics/markup the tie and the oracle see.'),
    technique=('Lean 4 proof (induction over markup parts / writer call sequences against an executable HTML reader) + '
               'differential correspondence of the compiled model against HtmlFormatter/HtmlWriter + independent '
               'tokenizer oracle on real renderings'),
)
