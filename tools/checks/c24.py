"""C24 — configuration of the check and text of the claim."""
from common import COMMON_TRUSTED

EXPLANATION = (
    'Exhaustive execution, not a theorem: the finite set of @example snippets (re-extracted from the real crate on '
    'every run) is executed completely on the real interpreter in both tiers; whether a snippet runs depends on the '
    'whole language and library, which no model here decides. The Lean obligations only concern the regenerated '
    'table (size, distinct keys, exemption exactly by the stated rule).')

CFG = dict(
    lean_modules=['NumbatModel.Oblig.Examples'],
    driver=None,
    harness='c24',
    gens=['gen_examples:generate'],
    level='other',
    explanation=EXPLANATION,
    trusted_base=COMMON_TRUSTED + [
        'the real interpreter is the only judge of "runs without error"; no model of it is involved',
        'tools/gen_examples.py and `c24 --list` (extraction of the examples through Context::functions() after `use all`, '
        'plus every module of numbat/modules not imported by `use all`)',
        'exchange rates: Context::use_test_exchange_rates() (all rates 1.0, as in numbat\'s own test-suite); the '
        'network fetch of real rates is outside the check',
        'the crate is built with default-features = false (no `plotting`, no `fetch-exchangerates`) plus `verif`, '
        '`html-formatter`'],
    assumptions=[
        'session assumed by the documentation: `use prelude`, `use units::currencies`, then `use <module>` if the '
        'function\'s module is not yet imported (what numbat/examples/inspect.rs does, plus currencies as the property says)',
        'an example is exempt iff it mentions, as an identifier token outside string literals, a foreign function whose '
        'Rust body reads std::env (derived from numbat/src/ffi/*.rs on every run; today: args)',
        'examples using now()/random() are executed and must not fail, but their values are not compared'],
)

CLAIM = dict(
    text=('Exhaustive execution (level "other", not a proof): every @example snippet attached to a standard-library '
          'function — the complete finite set, re-extracted on every run from the real crate via Context::functions() — '
          'is interpreted by the real interpreter in a fresh clone of a session with the prelude and the currency units '
          'loaded (test exchange rates), preceded by `use <module>` where the documentation needs it; the oracle is '
          '"no resolver, name-resolution, type-check or run-time error and no panic". Examples that depend on the process '
          'environment are exempt by rule (they mention a foreign function whose implementation reads std::env). Small Lean '
          'obligations, re-proved on the regenerated table by kernel evaluation, state that the table has the advertised '
          'size, that its (module, function, index) keys are distinct and that the exempt flag of every row is exactly the '
          'rule\'s verdict (theorems table_size, keys_nodup, exempt_by_rule, rows_nonempty; rule lemmas '
          'nothing_exempt_without_env_functions, exempt_mono). No claim is made by proof about any example running.'),
    design_ref='DESIGN.md section 5 C24',
    note=('For this finite quantifier the execution is complete (both tiers run all examples; the seed is irrelevant), but '
          'it is a run of the implementation, not a theorem. Trusted: the harness, the extraction through '
          'Context::functions(), test exchange rates instead of fetched ones.'),
    technique='regenerated table + exhaustive execution on the real interpreter; Lean kernel-evaluated table obligations',
)
