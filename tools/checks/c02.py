"""C02 — configuration of the check and text of the claim."""
from common import COMMON_TRUSTED

CFG = dict(
    lean_modules=['NumbatModel.Props.C02'],
    driver='drv_c02',
    harness='c02',
    gens=[],
    level='proof',
    trusted_base=COMMON_TRUSTED + [
        'modelled, not verified: DType canonicalisation and algebra (typed_ast.rs), ApplySubstitution and '
        'Substitution::extend (substitutions.rs), Constraint::try_trivial_resolution / try_satisfy and '
        'ConstraintSet::add / solve (constraints.rs) as Model/Types.lean; exponents are exact rationals in the '
        'model (overflow of Ratio<i128> is outside it, see C08); struct types and HasField are not modelled',
        'the constraint *generation* of elaborate_expression is not modelled for C02: for whole programs the tie is '
        'the oracle on the implementation (an independent exponent-vector analysis with Gauss-Jordan elimination, '
        'harness/src/bin/c02_parts/oracle.rs) over the hand-written unit/dimension tables of c02_parts/tables.rs, '
        'which are themselves cross-checked against the run-time unit registry on every run',
    ],
    assumptions=[
        'theorems are stated for the dimension fragment of the constraint language (Equal between type variables and '
        'Dimension types, IsDType, EqualScalar); a type parameter D is read through the variable named D, as '
        'ApplySubstitution does',
        'generated programs avoid rejections that are not about dimensions (undefined names, non-constant '
        'exponents on dimensionful bases, name clashes, generic unit definitions, missing Dim bounds)',
    ],
)

CLAIM = dict(
    text=('Machine-checked proof that numbat\'s constraint solver computes exactly the solutions of the dimension '
          'equations it is given: every try_satisfy step (including the Gaussian-elimination step on exponents) '
          'preserves the set of solutions, the substitution returned by solve is sound and principal (a valuation '
          'satisfies the constraints iff it factors through it), and canonicalisation / multiply / power / '
          'substitution application never change the denoted exponent vector (theorems step_preserves_solutions, '
          'solve_sound, solve_principal, solve_characterises_solutions, apply_preserves_denotation over '
          'Model/Types.lean). The model is tied to the code on every run by driving the real ConstraintSet::add / '
          'solve, DType algebra and substitution application with generated systems and requiring equal answers '
          '(substitution, dtype variables, remaining constraints, error kind). For whole programs an executable '
          'statement of the property is evaluated on the real interpreter: each generated multi-statement program '
          'and at least three mis-dimensioned mutants are accepted/rejected exactly as an independent '
          'exponent-vector dimensional analysis says, every reported type (including inferred polymorphic '
          'function types, compared as instance families) equals the analysed one, and a rejected input prints '
          'nothing and defines nothing.'),
    design_ref='DESIGN.md section 5 C02',
    note=('Trusted: Lean kernel (axioms propext, Classical.choice, Quot.sound only), the hand-written model of the '
          'solver and the harness (generators, independent oracle, hand-written unit table). Completeness '
          '(a solvable system is never rejected) is checked by the oracle on generated programs and systems, not '
          'proved. Two defects found by this check were repaired (Substitution::extend unwrapped a substitution '
          'error: `fn f(x) = x^2 && true`; a derived unit could be defined by a Bool/String expression) and stay '
          'in the corpus.'),
    technique=('Lean 4 proof (solution-set preservation by induction over the solver loop) + differential '
               'correspondence of the compiled model against the real solver + independent dimensional-analysis '
               'oracle on generated programs and mutants'),
)
CLAIM["text"] += " isDType_trivially_satisfied_iff: a `T: Dim` constraint is discarded as trivially satisfied exactly for dimension types that mention neither a type variable nor a type parameter, so no Dim obligation on a type parameter is dropped (numbat repaired: 64bad51; the program stream drops Dim bounds as a mutation, the solve stream contains closed `isd` systems)."
