"""C17 — configuration of the check and text of the claim."""
from common import COMMON_TRUSTED

CFG = dict(
    lean_modules=['NumbatModel.Props.C17', 'NumbatModel.Oblig.Modules'],
    driver='drv_c17',
    harness='c17',
    gens=['gen_modules:generate'],
    level='proof',
    trusted_base=COMMON_TRUSTED + [
        'modelled, not verified: Resolver::inlining_pass / Resolver::resolve (numbat/src/resolver.rs) as '
        'Model/Modules.lean (abstract module system: a module is a list of `use` lines and definitions with '
        'defined and used names; depth-first inlining with the imported-modules list, fuel = number of table entries)',
        'tools/gen_modules.py and the hook numbat::verif::c17::module_summary (walk over the AST of the real parser: '
        'defined names incl. aliases, free value/type identifiers, locally bound parameters; unit prefixes split '
        'off by the real prefix parser of a session with every module loaded) — they decide what the regenerated '
        'table Gen/Modules.lean says about /repo/numbat/modules',
        'the session digest of the oracle (hook Context::verif_c17_digest): names of variables/functions/units/'
        'dimensions/structs, canonical type schemes, raw values as f64 bit patterns with unit factors, unit '
        'definitions and metadata; function *bodies* (bytecode) are not part of the digest',
        'outside the model: name resolution, type checking and evaluation of the inlined statements (abstracted in '
        'the theorem as an arbitrary function of the values of the used names), parse errors inside modules, '
        'FileSystemImporter / user module paths (the sessions use BuiltinModuleImporter only)'],
    assumptions=[
        'a definition depends only on the names it mentions (free identifiers of its AST, plus `from_celsius`/'
        '`from_fahrenheit` for the temperature pseudo-units); implicit dependencies inside the interpreter '
        '(e.g. the dimension `Time` in DateTime arithmetic, units looked up by FFI functions at run time) are '
        'covered only by the oracle, not by the closedness obligation',
        'exchange rates are numbat\'s own test rates (`Context::use_test_exchange_rates`, every rate 1.0) as in '
        'numbat\'s test `modules_are_self_consistent`; no module is excluded (plot::* only define functions)'],
)

CLAIM = dict(
    text=('Machine-checked theorems about a model of Resolver::inlining_pass, for every module table (cyclic or '
          'not) and every sequence of inputs: each module is inlined at most once, completely and in textual '
          'order, re-importing yields nothing (inline_once, reimport_nothing); when a statement of M is emitted '
          'every module M imported textually before it has been emitted completely, or lies with M on an import '
          'cycle and then exactly a textual prefix of it has been emitted (deps_before_use); for closed, '
          'clash-free, acyclic tables the resulting definitions and the environment computed from them are the '
          'same for every order of root imports covering the same closure (order_independent). The hypotheses '
          'are proved for the standard library by kernel-evaluated obligations over a module table that is '
          're-extracted from /repo/numbat/modules with the real parser on every run (use targets exist, import '
          'graph acyclic, no name defined twice, every used name defined earlier in the module or in the closure '
          'of an earlier `use`, no type parameter equals a type name). The model is tied to the code by a '
          'correspondence run (real Resolver vs compiled model on the statement sequence and imported-modules '
          'list for standard-library import orders and for random synthetic module systems with cycles and '
          'unknown modules), and the property itself is checked on the real interpreter: every module alone, '
          'ordered pairs (all 3782 in the thorough tier), random larger subsets with repeated imports — every '
          'import succeeds, re-import leaves the session digest unchanged, the digest equals that of the sorted '
          'import order.'),
    design_ref='DESIGN.md section 5 C17',
    note=('Trusted: Lean kernel, the hand-written resolver model, the table generator with its AST walk (what '
          'counts as a use of a name), the digest (function bodies are not compared), the harness. Type '
          'checking/evaluation of the inlined statements is abstracted, so order-dependence that does not go '
          'through names (e.g. the numbering of fresh type variables) is seen only by the oracle.'),
    technique=('Lean 4 proofs by rule induction over the resolver\'s runs + kernel-checked obligations over a '
               'regenerated module table + differential correspondence of the compiled model against '
               'Resolver::resolve + exhaustive pair / random subset oracle on the interpreter'),
)
