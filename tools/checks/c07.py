"""C07 — configuration of the check and text of the claim."""
from common import COMMON_TRUSTED

CFG = dict(
    lean_modules=['NumbatModel.Props.C07'],
    driver='drv_c07',
    harness='c07',
    gens=[],
    level='proof',
    trusted_base=COMMON_TRUSTED + [
        'modelled, not verified: Context::interpret_with_settings, Resolver::resolve / inlining_pass and '
        'SessionHistory::save (options of the `save` command) as Model/Session.lean; transformer, type checker and '
        'interpreter are stage parameters',
        'Model/SessionNames.lean (name-level instance executed by the driver)',
        'outside the model: the real parser (joining with a newline, trimming), Clone of Context (sessions are values '
        'in the model; clone independence is checked on the implementation only), load_currency_module_on_demand'],
    assumptions=[
        'LabelFree: the parser ignores the source id',
        'ParseJoin: parsing `a⏎b` yields the statements of a followed by those of b; trimming an input does not '
        'change its parse',
        'TransformSeq / CheckSeq: transformer and type checker process a statement list left to right',
        'RunPrefixDet (prefix determinacy): the run stage does not depend on the later part of the batch through the '
        'final transformer / type checker it receives — violated by `inspect` in the real code (known finding '
        'C07-inspect-final-registry); the theorem batch_neq_incremental_without_prefixDet shows it cannot be dropped',
        'all five hypotheses hold for the name-level instance the driver executes (names_hypotheses)'],
)

CLAIM = dict(
    text=('Machine-checked proof on the session state machine: under explicit prefix-determinacy hypotheses on the '
          'stage functions, submitting inputs one at a time, joined into one multi-line input (any split), or '
          'replaying the file written by `save` (successful inputs only, trimmed) in the initial session gives the same '
          'session (up to file table and input counters), the concatenated printed output and the last value '
          '(`batch_eq_incremental`, `batchAll_eq_incremental`, `okInputs_run`, `replay_eq`); the hypotheses are '
          'non-vacuous (`names_hypotheses`) and necessary (`batch_neq_incremental_without_prefixDet`). Tie: on the '
          'real Context, generated successful sessions are evaluated one statement per input, joined at random split '
          'points, as one input, and replayed from the file the real `save` command writes; digests, printed output and '
          'results must be equal; a cloned Context and its original are continued differently and compared with '
          'uncloned sessions; the compiled model predicts the names known to each component for all three ways of '
          'submitting.'),
    design_ref='DESIGN.md section 5 C07, section 4 M-Sess',
    note=('Trusted: Lean kernel, the model of interpret_with_settings and of SessionHistory::save, the harness. Known '
          'finding: `inspect` prints the readable type with the type checker of the whole batch, so batch and '
          'incremental output differ (exactly the case the prefix-determinacy hypothesis excludes).'),
    technique=('Lean 4 proof over a parametric state machine (inversion of successful runs, induction over histories) + '
               'differential oracle incremental / batched / replayed / cloned on the real Context'),
)

CLAIM["text"] += ' Sessions contain lines entered twice in a row, and a further run interleaves the inspection commands `info <name>` / `list` (through the real command runner) with the inputs: commands are not saved and must leave results, prints and state unchanged.'
