"""C13 — configuration of the check and text of the claim."""
from common import COMMON_TRUSTED

CFG = dict(
    lean_modules=['NumbatModel.Props.C13', 'NumbatModel.Oblig.PrefixTable'],
    driver='drv_c13',
    harness='c13',
    gens=['gen_prefix_table:generate'],
    level='proof',
    trusted_base=COMMON_TRUSTED + [
        'modelled, not verified: numbat/src/prefix_parser.rs (prefixes, parse, ensure_name_is_available, add_unit, '
        'add_other_identifier, add_shadowing_identifier), prefix.rs (as_string_short/long), decorator.rs '
        '(name_and_aliases_inner, get_canonical_unit_name), the definition part of prefix_transformer.rs and '
        'Display for UnitFactor, as Model/PrefixParser.lean; strings are lists of code points, IndexMap an '
        'association list, the HashMap of other identifiers a list used as a set, spans left out',
        'tools/gen_prefix_table.py and the hook dump it reads (table of `use all`: 231 units, 628 aliases, the 34 '
        'prefix rows and the texts as_string_short/long print); the driver re-prints every generated row and the '
        'harness compares it with the table of the running crate',
        'instance fact "the standard-library table is accepted call by call by the model\'s addUnit" '
        '(hypothesis of Oblig gen_print_reads_back / gen_table_invariant) is established by executing the compiled '
        'model next to the real add_unit on every run, not by the kernel (it needs ~10^7 string comparisons); '
        'this step trusts the Lean compiler',
        'the plain-text reader of @aliases/@metric_prefixes/@binary_prefixes declarations in the .nbt files '
        '(harness), against which the registered table is compared',
    ],
    assumptions=[
        'identifiers are valid UTF-8 without whitespace (true of everything the tokenizer produces), so byte-wise '
        'starts_with/ends_with/slicing coincide with the code-point list operations of the model',
        'the theorems speak about resolution by the prefix parser (`PrefixParser::parse`, the observation point '
        'named by the property); whether a displayed text can be *typed* as one identifier is decided by the '
        'tokenizer and is checked only by the harness (oracle keys lang-denote / show-lang)',
    ],
)

CLAIM = dict(
    text=('Machine-checked proof by invariant over every sequence of unit / variable / function definitions the '
          'prefix parser accepts: no identifier ever has two readings as (prefix, unit alias) and none is both a unit '
          'reading and a variable or function (addUnit_preserves, addOther_preserves, session_invariant, '
          'resolve_unique); hence an accepted alias + prefix combination is parsed as exactly that prefix and unit '
          '(resolve_correct), a prefix spelling the alias does not accept is never read as that alias and every unit '
          'reading parse returns is a declared one (resolve_rejects, resolve_sound), and the displayed form of a '
          'prefixed unit parses back to the same prefix and unit whenever the canonical name is a registered alias '
          'accepting the displayed form (print_reads_back) — an obligation re-proved by the kernel over the unit table '
          're-extracted from the crate on every run (gen_canon_reads_back, 231 units of `use all`), together with '
          'equality of the crate\'s prefix table and prefix texts with the model\'s. The model is tied to the code by '
          'an EXHAUSTIVE bit-exact correspondence in both tiers: every alias of `use prelude` and `use all` x 34 prefix '
          'rows x (long, every short spelling), accepted or not, near misses, all other identifiers (92 000 lookups), '
          'the replay of the registered table through the model\'s and the real add_unit in two orders, the displayed '
          'text of all 10 000 accepted combinations, and random clashing definition sequences through the raw API and '
          'through the language. An independent oracle (brute-force reading table computed from the @aliases / '
          '@metric_prefixes / @binary_prefixes declarations read from the .nbt text) checks the property on the real '
          'code: accepted => resolves to that prefix and unit, otherwise plain or another declared reading, all '
          'identifiers pairwise collision-free, displayed text reads back through the prefix parser and through the '
          'whole language.'),
    design_ref='DESIGN.md section 5 C13',
    note=('Trusted: Lean kernel (axioms propext, Classical.choice, Quot.sound only), the hand-written model, the '
          'generator of the unit table, the harness. The instance fact that the standard-library table is accepted by '
          'the model\'s addUnit is established by compiled execution next to the real add_unit. Known finding: the '
          'arcsecond alias `″` is declared `short` with @metric_prefixes; its prefixed forms (`m″`, displayed for '
          'milliarcsecond) resolve correctly in the prefix parser but cannot be typed as one identifier, so the '
          'displayed text reads back as metre × arcsecond.'),
    technique=('Lean 4 invariant proof over all definition sequences + kernel-checked obligations over the regenerated '
               'unit table + exhaustive differential correspondence of the compiled model against the real prefix '
               'parser + independent declaration-based oracle'),
)
CLAIM["text"] += " shadowing_is_exact / shadowed_name_is_identifier: a parameter or where-variable registered as shadowing identifier turns exactly its own name into a plain identifier and leaves the reading of every other string — also of prefixed forms of a unit of that name — unchanged (the type checker's matching lookup was repaired in numbat 83b9c17)."
