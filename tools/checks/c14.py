"""C14 — configuration of the check and text of the claim."""
from common import COMMON_TRUSTED

CFG = dict(
    lean_modules=['NumbatModel.Props.C14'],
    driver='drv_c14',
    harness='c14',
    gens=[],
    level='proof',
    trusted_base=COMMON_TRUSTED + [
        'modelled, not verified: Number::pretty_print_with_dtoa_config (numbat/src/number.rs) as Model/NumFmt.lean: '
        'integer-branch condition decoded from the f64 bit pattern, use_grouping, num_format 0.4.4 grouping '
        '(run_core_algorithm: separator before every 4th digit from the right) and the post-processing of the '
        'pretty_dtoa string (trim_end_matches, `.`→`.0`, `e`→`e+`)',
        'parameter, not modelled: pretty_dtoa 0.3.0 (shortest digits via ryu, rounding to max_sig_digits, choice of '
        'e-notation) — its output string is fed to the model; its shape contract wellFormedRaw is checked by the '
        'driver on every string, its numerical correctness only by the harness oracle (exact big-integer arithmetic)',
        'specification vocabulary in Model/NumFmt.lean: isNumberLiteral (mirror of the tokenizer\'s number rule '
        'without `_`), decimalValue (exact rational value of a decimal literal, digits read by core '
        'Nat.ofDigitChars), removeSep (str::replace(sep, ""))',
        'f64 `10.0.powf(threshold-1)` is taken to be exact for the powers of ten below 2^53 (it is on this platform; '
        'the correspondence run covers every threshold)',
    ],
    assumptions=[
        'the digit separator contains no ASCII digit and no `-` (theorem hypothesis SepOK; a separator containing '
        'digits makes "removing the separator" meaningless), and is at most 8 bytes long (num_format limit)',
        'significant digits between 1 and 17 in the generated cases (the setting is cast to u8 by numbat)',
        'float branch: the oracle accepts |shown - x| <= half a unit of the n-th significant digit + half an ulp of x, '
        'because numbat/pretty_dtoa round the shortest round-trip decimal of x (half-up), not x itself',
    ],
)

CLAIM = dict(
    text=('Machine-checked proof about the model of Number::pretty_print_with_dtoa_config: for every integer, '
          'threshold and every separator without digit or minus sign, removing the separator from the displayed '
          'text gives exactly `-`? and all decimal digits of the integer (int_all_digits), that text is a valid '
          'numbat literal whose exact value is the integer (int_reads_back), groups are of three from the right and '
          'grouping is applied iff the separator is non-empty and the digit count reaches the threshold '
          '(int_grouping, grouping_iff_digit_count); from the bit pattern: a value that is an integer of magnitude '
          'below 2^53 always takes this branch and the displayed literal denotes exactly the f64 '
          '(displayed_integer_reads_back, integerValue_exact). Float branch: for every string satisfying the '
          'decidable shape contract of pretty_dtoa output, the post-processed text is a valid numbat literal of '
          'exactly the same decimal value (float_post_same_value); NaN/inf are displayed as the keywords '
          '(nan_inf_keywords). Tie: for f64 bit patterns of all classes x separators x thresholds x significant '
          'digits 1..17 the compiled model, given the string the real pretty_dtoa returned, must produce the text '
          'that the real Value::pretty_print_with displays, and the contract is evaluated on every real dtoa string. '
          'Independent oracle on the implementation: the displayed text minus separator is accepted by numbat\'s '
          'real tokenizer+parser as one literal (under at most one unary minus), Context::interpret reads it back, '
          'integers below 2^53 show all digits, other values equal the exact binary value rounded to the configured '
          'number of significant digits (exact big-integer arithmetic; tolerance half a unit of the last digit plus '
          'half an ulp), inf/NaN are the keywords.'),
    design_ref='DESIGN.md section 5 C14',
    note=('Partial by design: digit generation and rounding inside pretty_dtoa are not modelled or proved — they are '
          'checked by the exact-arithmetic oracle on the generated inputs only. Trusted: Lean kernel (axioms '
          'propext, Classical.choice, Quot.sound only), the hand-written model, the harness.'),
    technique=('Lean 4 proof (integer formatting, grouping, post-processing of the dtoa string against an exact decimal '
               'reader) + differential correspondence of the compiled model against Value::pretty_print_with + '
               'exact-arithmetic read-back oracle through the real parser'),
)
