"""C10 — configuration of the check and text of the claim."""
from common import COMMON_TRUSTED

CFG = dict(
    lean_modules=['NumbatModel.Props.C10', 'NumbatModel.Oblig.DocPrecedence'],
    driver='drv_c10',
    harness='c10',
    gens=['gen_doc_precedence:generate'],
    level='proof',
    trusted_base=COMMON_TRUSTED + [
        'modelled, not verified: numbat/src/tokenizer.rs as Model/Syntax.lean and the expression part of '
        'numbat/src/parser.rs as Model/SyntaxParser.lean (level by level, statement loop with error recovery), '
        'number-literal conversion (str::parse::<f64>, i128 as f64) and strip_and_escape as Model/SyntaxSexpr.lean',
        'parameter of the model: the XID_Start / XID_Continue tables of the unicode-ident crate (supplied per input '
        'by the harness)',
        'tools/gen_doc_precedence.py (extraction of the operator table of book/src/basics/operations.md)',
        'the formalisation of the BNF of the parser module documentation as the relation Derives '
        '(Model/SyntaxGrammar.lean) and, independently, as the Earley grammar of the harness',
    ],
    assumptions=[
        'the documented grammar is read with four corrections of the BNF text that the book itself implies: '
        'factor ::= per_factor ((*|/) per_factor)*; `|>` is followed by a call; a juxtaposed operand starts with a '
        'number, identifier, `?` or `(`; argument lists / list expressions may end in a comma (notes/C10.md)',
        'parse_render covers juxtaposition whose right operand starts with a number, identifier or `?` '
        '(`x! (y)` only by correspondence and corpus); parse_sound is about newline-free token lists',
        'definitions (let/fn/unit/...), decorators, type annotations and string interpolation are outside the parser '
        'model (token level only)',
    ],
)

CLAIM = dict(
    text=('Machine-checked proof that the model of numbat\'s recursive-descent expression parser inverts a reference '
          'printer that inserts parentheses only where the documented precedence table demands them: for every '
          'well-formed surface tree (all operators with any spelling, implicit multiplication, per, unary minus/plus, '
          'factorials, ^ and ^-, unicode exponents, comparisons, logic, conversions, conditionals, calls, field access, '
          'lists, structs, |>, redundant parentheses) parse(render s) = the documented tree (parse_render, '
          'parse_render_expr, parse_extra_parens) — this fixes precedence and associativity of every pair of '
          'constructs; everything the parser accepts is a sentence of the BNF of the parser documentation with the '
          'returned tree (parse_sound); the tokenizer reads back blank-separated simple tokens in every ASCII/Unicode '
          'spelling (tokenize_unlex_partial) and no operator character is an identifier character. The table used by '
          'the printer is proved equal to the table of book/src/basics/operations.md, re-extracted on every run '
          '(doc_precedence_order). The model is tied to tokenizer.rs/parser.rs by a bit-exact correspondence run '
          '(token streams, S-expressions of the AST incl. f64 bit patterns of literals, parse errors after recovery, '
          'identifier character classes) and the implementation is checked directly against the documentation by '
          'two model-independent oracles: rendered random trees must parse to themselves, and an Earley recogniser '
          'of the BNF decides accept/reject for token soups.'),
    design_ref='DESIGN.md section 5 C10',
    note=('Trusted: Lean kernel (axioms propext, Classical.choice, Quot.sound only; decide +kernel in the table '
          'obligation), the hand-written models and their correspondence harness, the extraction script, the '
          'formalisation of the BNF. Partial: the lexer lemma (simple tokens, blank-separated); definitions, type '
          'annotations and string interpolation are not in the parser model.'),
    technique=('Lean 4 proof (structural induction over surface trees with a loop-form invariant for the '
               'left-recursive levels; fuel-indexed soundness induction) + regenerated documentation table + '
               'differential correspondence of the compiled model against numbat\'s tokenizer and parser'),
)
