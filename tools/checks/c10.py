"""C10 — configuration of the check and text of the claim."""
from common import COMMON_TRUSTED

CFG = dict(
    lean_modules=['NumbatModel.Props.C10', 'NumbatModel.Oblig.DocPrecedence'],
    driver='drv_c10',
    harness='c10',
    gens=['gen_doc_precedence:generate'],
    level='proof',
    trusted_base=COMMON_TRUSTED + [
        'modelled, not verified: numbat/src/tokenizer.rs as Model/Syntax.lean and the expression part of '
        'numbat/src/parser.rs as Model/SyntaxParser.lean (level by level), number-literal conversion and '
        'strip_and_escape as Model/SyntaxSexpr.lean',
        'parameter of the model: the XID_Start / XID_Continue tables of the unicode-ident crate (supplied per input)',
    ],
    assumptions=[],
)

CLAIM = dict(
    text='(stage 2) correspondence of the tokenizer/parser model with the real code; theorems follow',
    design_ref='DESIGN.md section 5 C10',
    note='in progress',
    technique='Lean 4 proof about a model of the recursive-descent parser + differential correspondence',
)
