"""C22 — configuration of the check and text of the claim."""
from common import COMMON_TRUSTED

CFG = dict(
    lean_modules=['NumbatModel.Props.C22'],
    driver='drv_c22',
    harness='c22',
    gens=[],
    level='proof',
    trusted_base=COMMON_TRUSTED + [
        'modelled, not verified: Cli::run / initialize_context / parse_and_evaluate / main of numbat-cli/src/main.rs '
        'as Model/Cli.lean (execution mode Normal, pretty-printing off, a file and/or -e given); the library call '
        'interpret_with_settings is the parameter `eval`',
        'the harness builds the CLI itself (`cargo build --offline -p numbat-cli` in /repo) and runs '
        '/repo/target/debug/numbat with --no-config --no-init --color never in an empty HOME / XDG_CONFIG_HOME',
        'outside the model: clap argument parsing, reading the file, the REPL and --inspect-interactively, config and '
        'init files, colours, the currency fetch thread, process and pipe behaviour of the OS'],
    assumptions=[
        'the per-input outcomes given to the model are those of the library run in-process by the harness on the '
        'same inputs with the same source kinds (same crate, same tree)',
        'exprs_eq_file_upto_labels: the library outcomes for CodeSource::Text and CodeSource::File differ at most in '
        'the source label inside the diagnostic (checked on the binary: stderr compared up to the source label)'],
)

CLAIM = dict(
    text=('Machine-checked proof about the run loop of the CLI for an arbitrary library function: the exit status is 0 '
          'iff the prelude and every input succeed and 1 otherwise (`exit_zero_iff_all_ok`); nothing after the first '
          'failing input is evaluated or written (`stops_at_first_failure`); stdout is exactly the print lines and '
          'results of the successful inputs and stderr exactly the diagnostic of the failing one plus the stop line '
          '(`results_to_stdout_errors_to_stderr`, `main_streams`); `-e` expressions behave like a file with the same '
          'lines (`exprs_eq_file`; `exprs_eq_file_upto_labels` when the two source kinds differ in the label of diagnostics only). Tie: the real `numbat` binary built from the current tree is run on generated '
          'programs (succeeding; failing at each stage and position) as a file, as `-e` arguments and as file + `-e`; '
          'exit status, stdout and stderr must be byte-equal to the prediction of the compiled model, which is given the '
          'per-input outcomes of the library run in-process; and an independent oracle checks status, stream contents '
          'and the agreement of the file and `-e` forms.'),
    design_ref='DESIGN.md section 5 C22',
    note=('Partial by nature: the theorems are about the fold over inputs with its ControlFlow, not about clap, the OS '
          'or the REPL. Observation: the print output of a failing input is dropped by the CLI (it is only written in '
          'the Ok branch), which the property text allows ("results and printed values" of what succeeded).'),
    technique=('Lean 4 proof about the run-loop fold + differential correspondence of the compiled model against the '
               'real binary (exit status, stdout, stderr byte-exact)'),
)

CLAIM["text"] += ' Every third program is also run under `--pretty-print always|never` (exit status and stderr must not depend on the flag), and programs contain lines that start with a minus sign (a `-e` value like any other).'
