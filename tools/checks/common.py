COMMON_TRUSTED = [
    "Lean 4.33 kernel; axioms of every property theorem audited against {propext, Classical.choice, Quot.sound}",
    "Lean compiler/runtime for the compiled driver executable that runs the model's definitions",
    "tools/check.py (diff, known-finding matching) and the Rust harness (generators, canonicaliser, oracle)",
    "the guarded read-only hook accessors in /repo (cargo feature `verif`)",
]
