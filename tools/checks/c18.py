"""C18 — configuration of the check and text of the claim."""
from common import COMMON_TRUSTED

CFG = dict(
    lean_modules=['NumbatModel.Props.C18'],
    driver='drv_c18',
    harness='c18',
    gens=[],
    level='proof',
    trusted_base=COMMON_TRUSTED + [       'modelled, not verified: numbat/src/list.rs as Model/ListM.lean (heap of allocations + handle slots; '
        'Arc::strong_count derived as the number of live handles; VecDeque as List; allocation never freed)',
        'outside the model: Rust memory safety, Arc/VecDeque internals, capacity and re-allocation behaviour'],
    assumptions=[       'no Weak references exist (true of list.rs), so strong_count = number of live NumbatList values on '
        'the allocation',
        'element equality is reflexive (u32 in the harness; for Value elements containing NaN the pointer '
        'short-cut of PartialEq differs from element-wise equality)'],
)

CLAIM = dict(
    text=('Machine-checked refinement proof: for every operation sequence over any number of handles, the '
 'shared-storage representation (allocations, views, copy-on-shared) holds exactly the elements a plain '
 'immutable sequence holds in every handle, an operation on one handle never changes another, and no '
 'panicking branch is reachable (theorems run_refines, step_refines, never_panics over Model/ListM.lean). '
 'The model is tied to list.rs by a bit-exact correspondence run: the compiled model and the real '
 'NumbatList<u32> execute the same operation sequences and must agree on results, contents of all handles, '
 'equality matrix, and on the representation (allocation sharing, strong counts, views, allocation contents) '
 'after every step.'),
    design_ref='DESIGN.md section 5 C18',
    note=('Trusted: Lean kernel (axioms propext, Classical.choice, Quot.sound only), the hand-written model of '
 'list.rs and the correspondence harness whose generator bounds what the tie sees; Arc/VecDeque internals '
 'and Rust memory safety are outside the model.'),
    technique=('Lean 4 refinement proof (induction over operation sequences) + differential correspondence of the compiled '
 'model against NumbatList'),
)

CLAIM["text"] += " A language-level stream runs straight-line numbat programs over the standard library's list functions (cons, cons_end, tail, take, drop, concat, reverse; solely owned temporaries and let-bound shared lists; NaN elements) on the real interpreter: after every statement every variable must hold what a plain sequence holds, `len` must agree, and `==` between any two variables must be equality of the sequences, whether or not they share storage."
CLAIM["text"] += " eq_is_sequence_equality: `==` on the representation (lengths, then elements pairwise; the definition the driver executes for the equality matrix) is equality of the two plain sequences for any element equality, reflexive or not, so it does not depend on sharing (numbat repaired: 2bb906d)."
