"""C16 — configuration of the check and text of the claim."""
from common import COMMON_TRUSTED

CFG = dict(
    lean_modules=['NumbatModel.Props.C16'],
    driver='drv_c16',
    harness='c16',
    gens=[],
    level='proof',
    trusted_base=COMMON_TRUSTED + [
        'modelled, not verified: the solver (Model/Types.lean, shared with C02) and, in Model/Elab.lean, constraint '
        'generation of elaborate_expression for unannotated function bodies built from literals, 0, units, '
        'parameters, unary minus, + - ->, * /, constant rational powers, comparisons, conditionals and calls of '
        'functions with a given scheme; substitution into the typed statement, exponent normalisation '
        '(exponents_for / lcm) and generalisation of check_statement',
        'signature *printing* (pretty_print_function_signature, readable dimension names) and parsing of the '
        're-declared text are not modelled: they are exercised on the implementation by the harness oracle',
    ],
    assumptions=[
        'theorems are stated for parameter/return types of the dimension fragment (type variables and Dimension types)',
        'FreshParamNames: the printed type parameter names A..Z are not names of dimensions of the session; the '
        'excluded point (a session that defines dimensions A, B, C) is generated on purpose and is a known finding',
    ],
)

CLAIM = dict(
    text=('Machine-checked proof that the exponent normalisation by which the printed signature of an inferred '
          'function differs from the scheme stored for calls (every exponent of a free dimension variable multiplied '
          'by the lcm of the denominators) never changes the set of instances, and therefore neither which argument '
          'dimensions a call accepts nor its result dimension (theorems lcm_normalise_same_scheme, '
          'scale_variable_same_instances, calls_agree_partial over Model/Types.lean and Model/Elab.lean; soundness '
          'and principality of the inferred scheme are the C02 theorems). The model of inference (constraint '
          'generation, solving, normalisation, generalisation) is tied to the code on every run: for each generated '
          'unannotated function body the model must compute exactly the scheme of the typed statement and the scheme '
          'stored in the environment. The property itself is evaluated on the real interpreter: every accepted '
          'generated function is re-declared with the signature numbat printed for it (must be accepted) and 24 '
          'generated call sites per function must be accepted by the inferred version iff by the annotated version, '
          'with the same result type.'),
    design_ref='DESIGN.md section 5 C16',
    note=('annotation_accepted (re-declaration elaborates to the same scheme) is checked on the implementation, not '
          'proved; calls_agree is proved in its semantic form for the normalisation step (calls_agree_partial). '
          'Known findings reproduced on every run: printed signatures that do not read back (type parameter names '
          'clashing with dimensions A, B, C of the session; several dimension names joined by `or`; exponents >= 10 '
          'printed with several superscript digits).'),
    technique=('Lean 4 proof (valuation semantics of dimension types, substitution = composition lemma) + differential '
               'correspondence of the compiled inference model against the real type checker + property oracle on the '
               'implementation (re-declaration and call-site agreement)'),
)
