"""C21 — assertions decide exactly their documented predicate."""
from qty_common import QTY_TRUSTED

CFG = dict(
    lean_modules=["NumbatModel.Props.C21", "NumbatModel.Inst.Real", "NumbatModel.Oblig.UnitTable"],
    driver="drv_c21",
    harness="c21",
    gens=["gen_units:generate"],
    level="proof",
    trusted_base=QTY_TRUSTED + [
        "ffi/procedures.rs assert / assert_eq modelled as assertBool / assertEq2 / assertEq3 (Model/Qty.lean); Value "
        "equality of non-quantities (booleans, strings, lists) is not modelled — oracle only",
    ],
    assumptions=[
        "PosTbl: every conversion factor of the unit table is positive",
        "oracle decision margin: cases whose |a-b| vs eps (or a vs b) relation is within a relative 1e-9 are not judged "
        "by the oracle (they are still compared bit-for-bit with the model)",
        "that a failing assertion aborts the input and restores the session is proved for the session model in C06 and "
        "checked here on the implementation through marker prints",
    ],
)

CLAIM = dict(
    text="Theorems (Props/C21.lean): assert(c) succeeds iff c (assert_iff); assert_eq(a,b) succeeds iff a converted to "
         "b's unit has b's magnitude — for every NumOps instance incl. Float (assert_eq2_iff) — and, in exact arithmetic, "
         "iff a and b are the same physical quantity (assert_eq2_phys); assert_eq(a,b,eps) succeeds iff |a-b| <= eps as "
         "physical quantities (assert_eq3_iff, via qsub_same_unit) and never with a NaN tolerance (assert_eq3_nan_eps, "
         "any instance). The Float instance of the same definitions gives the same verdict as the real interpreter "
         "running assert_eq on generated near-equal / far / NaN operands and tolerances in various units; marker prints "
         "show that a failing assertion aborts its input.",
    design_ref="DESIGN.md section 5 C21",
    note="Exact-arithmetic theorems plus two instance-independent ones; non-quantity assert_eq (booleans, strings, "
         "lists) is checked by the oracle only.",
    technique="Lean 4 proof over an abstract lawful field + differential correspondence at Float through the interpreter",
)

CLAIM["text"] += ' Operands may be infinite (equal infinities are equal), and fixed cases cover a zero tolerance written without a unit and lists of different lengths.'
CLAIM["text"] += " The model of assert_eq/3 follows numbat's repair 0551bf6 (epsNorm: a zero tolerance without a unit is brought into the unit of an operand): assert_eq3_iff holds for every tolerance that has a unit or is not zero, assert_eq3_unitless_zero / assert_eq3_unitless_zero_iff say that with the unit-less zero the assertion succeeds iff a and b are the same physical quantity; one generated tolerance in sixteen is the unit-less zero (bit-exact correspondence)."
