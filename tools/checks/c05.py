"""C05 — automatic unit simplification never changes the quantity."""
from qty_common import QTY_TRUSTED

CFG = dict(
    lean_modules=["NumbatModel.Props.C05", "NumbatModel.Inst.Real", "NumbatModel.Oblig.UnitTable"],
    driver="drv_c05",
    harness="c05",
    gens=["gen_units:generate"],
    level="proof",
    trusted_base=QTY_TRUSTED + [
        "the unit registry (HashMap of derived units with base representations) is modelled as the unit table plus the "
        "abbreviation flags, candidates ordered alphabetically as get_derived_entry_names_for_filtered sorts them",
    ],
    assumptions=[
        "PosTbl: every conversion factor of the unit table is positive",
        "totality (the unwrap of heuristic 3 never panics) is not a theorem: it needs the canonical-form theory of base "
        "representations; a panic is detected by the correspondence (model returns `panic` where the grouped conversion "
        "fails) and by the oracle on the implementation",
        "magnitude oracle skipped when the units' conversion factors span more than 100 decimal orders of magnitude "
        "(Planck units to high powers): intermediate factors leave the normal f64 range",
    ],
)

CLAIM = dict(
    text="Theorems (Props/C05.lean), for every unit table with positive factors and every lawful numeric instance: "
         "full_simplify (heuristics 1-3, with the loop invariant of the grouping heuristic h3_fold) and the "
         "registry-based simplification preserve the physical magnitude (simplify_phys, simplifyReg_phys); neither "
         "touches a value whose unit was chosen by an explicit conversion (simplify_respects_flag, "
         "simplifyReg_respects_flag); `x -> U` is displayed in exactly U (convert_not_simplified). The same "
         "definitions at Float agree bit-for-bit with Quantity::full_simplify, with the VM's simplify_quantity, and "
         "with the value the real interpreter displays for generated expressions (raw global vs displayed result).",
    design_ref="DESIGN.md section 5 C05",
    note="Exact-arithmetic theorems; the 'never panics' part of the property is covered by correspondence and "
         "oracle only (the defect `2 aa * 3 bb * 1 kg` with permuted unit definitions was repaired by a fix: commit and "
         "stays in the corpus).",
    technique="Lean 4 proof (loop invariant over unit groups) over an abstract lawful field + bit-exact differential correspondence at Float",
)
