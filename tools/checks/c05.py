"""C05 — automatic unit simplification never changes the quantity."""
from qty_common import QTY_TRUSTED

CFG = dict(
    lean_modules=["NumbatModel.Props.C05", "NumbatModel.Inst.Real", "NumbatModel.Oblig.UnitTable", "NumbatModel.Oblig.SimplifyTotal"],
    driver="drv_c05",
    harness="c05",
    gens=["gen_units:generate"],
    level="proof",
    trusted_base=QTY_TRUSTED + [
        "the unit registry (HashMap of derived units with base representations) is modelled as the unit table plus the "
        "abbreviation flags, candidates ordered alphabetically as get_derived_entry_names_for_filtered sorts them",
    ],
    assumptions=[
        "PosTbl: every conversion factor of the unit table is positive",
        "simplify_total / simplifyReg_total (the unwrap of heuristic 3 cannot fail) assume WF (definitions refer to "
        "earlier rows) and NamesDistinct; both are kernel-checked on the regenerated prelude table and the theorem is "
        "instantiated there (Oblig/SimplifyTotal.lean). They are about the repaired code (fix 275b2e3): the model "
        "takes `removed_exponent` from the canonical base representation, as the code does now",
        "magnitude oracle skipped when the units' conversion factors span more than 100 decimal orders of magnitude "
        "(Planck units to high powers): intermediate factors leave the normal f64 range",
    ],
)

CLAIM = dict(
    text="Theorems (Props/C05.lean), for every unit table with positive factors and every lawful numeric instance: "
         "full_simplify (heuristics 1-3, with the loop invariant of the grouping heuristic h3_fold) and the "
         "registry-based simplification preserve the physical magnitude (simplify_phys, simplifyReg_phys); neither "
         "touches a value whose unit was chosen by an explicit conversion (simplify_respects_flag, "
         "simplifyReg_respects_flag); `x -> U` is displayed in exactly U (convert_not_simplified). For every table whose "
         "definitions refer to earlier rows only and whose rows have distinct names, full_simplify and the "
         "registry-based simplification are total — the `unwrap` of the grouped conversion of heuristic 3 cannot "
         "panic (simplify_total, simplifyReg_total; proof: the factors of a group have equal sort keys, a sort key is "
         "the canonical base representation scaled by a non-zero constant, so the base vectors of a group are "
         "proportional in the ratio of their first exponents, the target `rep^e` has the dimension vector of the "
         "group, and same-dimension conversions succeed by convComplete; Lemmas/QtySimplify.lean, about 450 lines); "
         "instantiated at the regenerated prelude table (prelude_simplify_total). Under the same hypotheses both "
         "simplifications preserve the physical dimension — the simplified unit has the dimension vector of the "
         "original unit, except that a zero is displayed as the bare, dimension-polymorphic `0` (simplify_dim, "
         "simplifyReg_dim, simplify_zero; loop invariant h3_fold_vec) — and converting the simplified result back to "
         "the unit of the unsimplified computation always succeeds and gives exactly the unsimplified magnitude "
         "(simplify_convert_back, simplifyReg_convert_back; instantiated at the prelude table). The same "
         "definitions at Float agree bit-for-bit with Quantity::full_simplify, with the VM's simplify_quantity, and "
         "with the value the real interpreter displays for generated expressions (raw global vs displayed result).",
    design_ref="DESIGN.md section 5 C05",
    note="Exact-arithmetic theorems. The 'never panics' part of the property is now a theorem of the repaired code "
         "(simplify_total); the defect `2 aa * 3 bb * 1 kg` with permuted unit definitions was found by this check, "
         "repaired by a fix: commit, and stays in the corpus (reverting the fix breaks the correspondence: seed C05-B).",
    technique="Lean 4 proof (loop invariant over unit groups; totality via uniqueness of canonical base representations) over an abstract lawful field + bit-exact differential correspondence at Float",
)
