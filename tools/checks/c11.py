"""C11 — comparisons do not depend on operand order."""
from qty_common import QTY_TRUSTED

CFG = dict(
    lean_modules=["NumbatModel.Props.C11", "NumbatModel.Inst.Real", "NumbatModel.Oblig.UnitTable"],
    driver="drv_c11",
    harness="c11",
    gens=["gen_units:generate"],
    level="proof",
    trusted_base=QTY_TRUSTED,
    assumptions=[
        "PosTbl: every conversion factor of the unit table is positive",
        "'same dimension' is the hypothesis that each operand converts into the other's unit",
        "known finding C11-rounding-asymmetry: on f64 the one-sided conversion rounds; asymmetries between operands that "
        "are equal up to rounding (<= 16 ulp / 16 subnormal steps, in base units or in either operand's unit) are "
        "classified `cmp-asym-rounding` and reported as KNOWN-FINDING; any other asymmetry is a violation",
    ],
)

CLAIM = dict(
    text="Theorems (Props/C11.lean), for every unit table with positive factors and every lawful numeric instance: "
         "a == b equals b == a (eq_symm), a < b equals b > a (lt_gt), a <= b equals b >= a (le_ge), a != b is the "
         "negation of a == b (ne_not_eq), exactly one of <, ==, > holds (trichotomy), and — for every NumOps instance "
         "including Float — every ordering comparison with a NaN operand is false (nan_false). All reduce to qcmp_phys / "
         "qeq_phys: comparison of quantities is comparison of physical values. The same definitions executed at Float "
         "agree bit-for-bit with Quantity::partial_cmp_preserve_nan / PartialEq (hook) and with the six comparison "
         "operators evaluated by the real interpreter, in both operand orders; this Float model reproduces the "
         "implementation's rounding asymmetry exactly.",
    design_ref="DESIGN.md section 5 C11",
    note="Exact-arithmetic theorems; the f64 rounding asymmetry of the one-sided conversion (e.g. 40.5 firkin == "
         "(40.5 firkin -> long_hundredweight) is false while the mirrored comparison is true) is a genuine defect "
         "recorded as a known finding by call site + classifier, not repaired (a repair changes the comparison "
         "semantics of every program). The zero-on-the-left conversion error was repaired (fix: commit).",
    technique="Lean 4 proof over an abstract lawful field + bit-exact differential correspondence at Float (hook and interpreter)",
)
