"""C12 — addition commutes and subtraction anti-commutes, units included."""
from qty_common import QTY_TRUSTED

CFG = dict(
    lean_modules=["NumbatModel.Props.C12", "NumbatModel.Inst.Real", "NumbatModel.Oblig.UnitTable"],
    driver="drv_c12",
    harness="c12",
    gens=["gen_units:generate"],
    level="proof",
    trusted_base=QTY_TRUSTED,
    assumptions=[
        "PosTbl: every conversion factor of the unit table is positive",
        "add_comm_display needs only commutativity of + on the numeric instance; IEEE-754 addition is commutative, which "
        "the bit-exact correspondence and the bit-equality oracle confirm on every generated pair",
        "floating-point tolerance of the physical-value oracle: 64·2^-52 relative to |a|+|b| in base units (128 for triples)",
    ],
)

CLAIM = dict(
    text="Theorems (Props/C12.lean), for every unit table with positive factors and every lawful numeric instance: the "
         "physical value of a sum/difference is the sum/difference of the physical values (add_phys, sub_phys), hence "
         "a+b and b+a denote the same quantity (add_comm_phys), a-b is the negation of b-a (sub_anticomm_phys), "
         "three-operand sums agree in every order (add3_phys); and when the units' conversion factors differ and not "
         "both operands are zero, a+b and b+a are the same value in the same unit syntactically (add_comm_display, via "
         "smallerUnit_comm). The Float instance of the same definitions agrees bit-for-bit with impl Add/Sub for "
         "&Quantity; displayed texts of both orders are compared through the real interpreter.",
    design_ref="DESIGN.md section 5 C12",
    note="Exact-arithmetic theorems; rounding is covered by the bit-exact correspondence and tolerance oracles.",
    technique="Lean 4 proof over an abstract lawful field + bit-exact differential correspondence at Float",
)

CLAIM["text"] += " The same two-operand sums are also written with the library's fold (`sum([a, b])`, `sum([b, a])`) and must display what `a + b` displays."
