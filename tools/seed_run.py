#!/usr/bin/env python3
"""Runs a registered check against a seeded change: applies seeded/<id>/patch.diff to /repo, runs
`tools/check.py <prop>` (quick tier), reverts /repo, and records the outcome in seeded/<id>/meta.json.
usage: seed_run.py <seed id> [<prop> ...]      (default prop = meta.json's property)"""
import json, os, subprocess, sys, time
ROOT = os.path.dirname(os.path.dirname(os.path.abspath(__file__)))
sid = sys.argv[1]
d = os.path.join(ROOT, "seeded", sid)
meta = json.load(open(os.path.join(d, "meta.json")))
props = sys.argv[2:] or [meta["property"]]
patch = os.path.join(d, "patch.diff")
assert subprocess.run(["git", "-C", "/repo", "status", "--short"], capture_output=True, text=True).stdout.strip() == "", "/repo is not clean"
subprocess.run(["git", "-C", "/repo", "apply", patch], check=True)
try:
    for p in props:
        t0 = time.time()
        r = subprocess.run(["python3", os.path.join(ROOT, "tools", "check.py"), p], capture_output=True, text=True, cwd=ROOT)
        lines = [l for l in r.stdout.strip().split("\n") if not l.startswith("KNOWN-FINDING")]
        viol = [l for l in lines if l.startswith("VIOLATION")]
        fail = [l for l in lines if l.startswith("failing input") or l.startswith("  oracle")]
        meta.setdefault("checks", {})[p] = dict(exit=r.returncode, caught=bool(viol), violation_line=viol[0] if viol else None,
                                               detail=" | ".join(fail)[:600], wall_s=round(time.time() - t0, 1))
        print(p, "exit", r.returncode, viol[0] if viol else "NOT CAUGHT", "|", " | ".join(fail)[:300])
finally:
    subprocess.run(["git", "-C", "/repo", "checkout", "--", "."], check=True)
json.dump(meta, open(os.path.join(d, "meta.json"), "w"), indent=1, ensure_ascii=False)
for f in os.listdir(os.path.join(ROOT, "replays")):
    if f.endswith(".json"):
        os.remove(os.path.join(ROOT, "replays", f))
