"""Per-property configuration of tools/check.py.

Each entry:
  lean_modules : Lean modules whose theorems are the property's proof obligations (Props/*, Oblig/*)
  driver       : lean_exe target of the line-protocol driver (None = no correspondence stream)
  harness      : harness binary (src/bin/<name>.rs) (None = no implementation run)
  gens         : list of generator callables names in tools/gen.py run before the Lean build
  level        : evidence level written
  trusted_base : the property's part of DESIGN.md section 3
  assumptions  : what the check assumes
  expect_partial: names of theorems that are `_partial` versions (reported in evidence)
"""

COMMON_TRUSTED = [
    "Lean 4.33 kernel; axioms of every property theorem audited against {propext, Classical.choice, Quot.sound}",
    "Lean compiler/runtime for the compiled driver executable that runs the model's definitions",
    "tools/check.py (diff, known-finding matching) and the Rust harness (generators, canonicaliser, oracle)",
    "the guarded read-only hook accessors in /repo (cargo feature `verif`)",
]

PROPS = {
    "C18": dict(
        lean_modules=["NumbatModel.Props.C18"],
        driver="drv_c18",
        harness="c18",
        gens=[],
        level="proof",
        trusted_base=COMMON_TRUSTED + [
            "modelled, not verified: numbat/src/list.rs as Model/ListM.lean (heap of allocations + handle slots; "
            "Arc::strong_count derived as the number of live handles; VecDeque as List; allocation never freed)",
            "outside the model: Rust memory safety, Arc/VecDeque internals, capacity and re-allocation behaviour",
        ],
        assumptions=[
            "no Weak references exist (true of list.rs), so strong_count = number of live NumbatList values on the allocation",
            "element equality is reflexive (u32 in the harness; for Value elements containing NaN the pointer short-cut of PartialEq differs from element-wise equality)",
        ],
    ),
}
