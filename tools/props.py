"""Loads the per-property configuration files tools/checks/cXX.py.

Each file defines
  CFG   : lean_modules (modules whose theorems are the property's proof obligations), driver (lean_exe target
          or None), harness (binary name or None), gens (names of functions in tools/gen.py run before the Lean
          build), level (evidence level), trusted_base, assumptions
  CLAIM : text, design_ref, note, technique  (MANIFEST.json fields)
  NOT_APPLICABLE (optional) : reason string — the property is then not claimed.
"""
import glob
import importlib.util
import os
import sys

HERE = os.path.join(os.path.dirname(os.path.abspath(__file__)), "checks")
sys.path.insert(0, HERE)

PROPS = {}
CLAIMS = {}
NOT_APPLICABLE = {}
for path in sorted(glob.glob(os.path.join(HERE, "c[0-9]*.py"))):
    pid = os.path.basename(path)[:-3].upper()
    spec = importlib.util.spec_from_file_location("check_" + pid, path)
    mod = importlib.util.module_from_spec(spec)
    spec.loader.exec_module(mod)
    if getattr(mod, "NOT_APPLICABLE", None):
        NOT_APPLICABLE[pid] = mod.NOT_APPLICABLE
        continue
    PROPS[pid] = mod.CFG
    CLAIMS[pid] = mod.CLAIM
