#!/usr/bin/env python3
"""Refreshes the generated regions of DESIGN.md (between `<!-- BEGIN:x -->` and `<!-- END:x -->`):
findings (known_findings.json), seeds (seeded/*/meta.json), asbuilt (tools/checks/*.py + evidence/*.json)."""
import os, re, subprocess, sys
ROOT = os.path.dirname(os.path.dirname(os.path.abspath(__file__)))
p = os.path.join(ROOT, "DESIGN.md")
s = open(p).read()
for name, tool in (("findings", "design_findings.py"), ("seeds", "design_seeds.py"), ("asbuilt", "design_table.py")):
    out = subprocess.run([sys.executable, os.path.join(ROOT, "tools", tool)], capture_output=True, text=True, check=True).stdout
    pat = re.compile(r"(<!-- BEGIN:%s -->\n).*?(<!-- END:%s -->)" % (name, name), re.S)
    if not pat.search(s):
        sys.exit(f"region {name} missing in DESIGN.md")
    s = pat.sub(lambda m: m.group(1) + out.rstrip("\n") + "\n" + m.group(2), s)
open(p, "w").write(s)
print("DESIGN.md regions refreshed")
