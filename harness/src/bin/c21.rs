//! C21 — assertions decide exactly their documented predicate.
//!
//! Every case is run through the real interpreter as source text
//!   `print("before")⏎ assert_eq(A, B[, EPS])⏎ print("after")`
//! (and `assert(cond)`, and assert_eq on booleans / strings / lists).  The outcome kind (ok, AssertFailed,
//! AssertEq2Failed, AssertEq3Failed, other) and the captured prints are the implementation's answer; the Lean
//! model of `assert_eq` (`assert2` / `assert3` requests) must give the same verdict.
//! Oracle (independent of the model): the documented predicate recomputed from the direct unit definitions
//! with a decision margin (cases inside the margin are not judged), a failing assertion suppresses "after",
//! a passing one does not.

use numbat::resolver::CodeSource;
use numbat::verif::c03::QDesc;
use numbat::{InterpreterSettings, NumbatError, RuntimeErrorKind};
use nvh::qty::*;
use nvh::*;
use std::sync::{Arc, Mutex};

#[derive(Debug, Clone)]
enum Case {
    Eq2(QDesc, QDesc),
    Eq3(QDesc, QDesc, QDesc),
    Text(String, bool), // source of a non-quantity assertion, expected to pass?
}

fn case_text(c: &Case) -> String {
    match c {
        Case::Eq2(a, b) => format!("eq2 {} {}", q_text(a), q_text(b)),
        Case::Eq3(a, b, e) => format!("eq3 {} {} {}", q_text(a), q_text(b), q_text(e)),
        Case::Text(s, ok) => format!("text {} {}", if *ok { "pass" } else { "fail" }, s),
    }
}

fn parse_case(line: &str) -> Option<Case> {
    let w: Vec<&str> = line.split(' ').collect();
    let qq = |i: usize| -> Option<QDesc> { Some(q(u64::from_str_radix(w.get(i)?, 16).ok()?, parse_unit(w.get(i + 1)?)?)) };
    match *w.first()? {
        "eq2" if w.len() == 5 => Some(Case::Eq2(qq(1)?, qq(3)?)),
        "eq3" if w.len() == 7 => Some(Case::Eq3(qq(1)?, qq(3)?, qq(5)?)),
        "text" if w.len() >= 3 => Some(Case::Text(w[2..].join(" "), w[1] == "pass")),
        _ => None,
    }
}

/// (outcome kind, prints)
fn run_src(ctx: &numbat::Context, code: &str) -> (String, Vec<String>) {
    let mut c = ctx.clone();
    let prints = Arc::new(Mutex::new(Vec::<String>::new()));
    let p2 = prints.clone();
    let mut settings = InterpreterSettings { print_fn: Box::new(move |m| p2.lock().unwrap().push(m.to_string())) };
    let r = catch(std::panic::AssertUnwindSafe(|| match c.interpret_with_settings(&mut settings, code, CodeSource::Internal) {
        Ok(_) => "ok".to_string(),
        Err(e) => match *e {
            NumbatError::RuntimeError(ref r) => match r.kind {
                RuntimeErrorKind::AssertFailed(..) => "failed".into(),
                RuntimeErrorKind::AssertEq2Failed(..) => "failed".into(),
                RuntimeErrorKind::AssertEq3Failed(..) => "failed".into(),
                RuntimeErrorKind::QuantityError(..) => "qerr".into(),
                ref k => format!("runtime {:?}", k).chars().take(60).collect(),
            },
            NumbatError::TypeCheckError(_) => "type-error".into(),
            ref o => format!("other {}", o).chars().take(60).collect(),
        },
    }));
    let kind = match r { Ok(k) => k, Err(p) => format!("panic {}", p) };
    let v = prints.lock().unwrap().clone();
    (kind, v)
}

fn run_case(ctx: &numbat::Context, units: &Units, out: &mut Out, c: &Case) {
    let text = case_text(c);
    let key = format!("assert:{}", text);
    let (stmt, req) = match c {
        Case::Eq2(a, b) => (format!("assert_eq({}, {})", q_src(a), q_src(b)), Some(format!("assert2 {} {}", q_text(a), q_text(b)))),
        Case::Eq3(a, b, e) => (format!("assert_eq({}, {}, {})", q_src(a), q_src(b), q_src(e)), Some(format!("assert3 {} {} {}", q_text(a), q_text(b), q_text(e)))),
        Case::Text(s, _) => (s.clone(), None),
    };
    let code = format!("print(\"before\")\n{}\nprint(\"after\")", stmt);
    let (kind, prints) = run_src(ctx, &code);
    out.case(&text, true);
    out.count(&format!("outcome_{}", kind.split(' ').next().unwrap_or("?")));
    if let Some(req) = req {
        out.line(&req, &kind);
    }
    if kind.starts_with("panic") || kind == "type-error" || kind.starts_with("other") || kind.starts_with("runtime") {
        if kind == "type-error" {
            out.count("generator_rejected");
        } else {
            out.oracle_fail(&key, &text, &format!("unexpected outcome {}", kind));
        }
        return;
    }
    // a failing assertion aborts its input: no later statement runs
    let before = prints.iter().any(|p| p == "before");
    let after = prints.iter().any(|p| p == "after");
    if !before {
        out.oracle_fail(&key, &text, "statement before the assertion did not print");
    }
    if (kind == "ok") != after {
        out.oracle_fail(&key, &text, &format!("outcome {} but marker after the assertion {}", kind, if after { "ran" } else { "did not run" }));
    }
    // the documented predicate, recomputed independently with a decision margin
    let margin = 1e-9;
    match c {
        Case::Eq2(a, b) => {
            let (va, vb) = (f64::from_bits(a.bits), f64::from_bits(b.bits));
            let conv = va * (units.oracle_factor(&a.factors) / units.oracle_factor(&b.factors));
            if va.is_nan() || vb.is_nan() {
                if kind == "ok" { out.oracle_fail(&key, &text, "assert_eq with a NaN operand succeeded"); }
            } else if conv.is_infinite() || vb.is_infinite() {
                // equal infinities are equal; an infinity and anything else are not
                out.count("judged");
                if (conv == vb) != (kind == "ok") { out.oracle_fail(&key, &text, &format!("a in b's unit is {:e}, b is {:e}, outcome {}", conv, vb, kind)); }
            } else if show(&a.factors) == show(&b.factors) {
                out.count("judged");
                if (va == vb) != (kind == "ok") { out.oracle_fail(&key, &text, &format!("same unit, values {} {}, outcome {}", va, vb, kind)); }
            } else if (conv - vb).abs() > margin * conv.abs().max(vb.abs()) {
                out.count("judged");
                if kind == "ok" { out.oracle_fail(&key, &text, &format!("a in b's unit is {:e}, b is {:e}, but assert_eq succeeded", conv, vb)); }
            } else {
                out.count("inside_margin_not_judged");
            }
        }
        Case::Eq3(a, b, e) => {
            let (va, vb, ve) = (f64::from_bits(a.bits), f64::from_bits(b.bits), f64::from_bits(e.bits));
            let fe = units.oracle_factor(&e.factors);
            let diff = (va * (units.oracle_factor(&a.factors) / fe) - vb * (units.oracle_factor(&b.factors) / fe)).abs();
            if ve.is_nan() || va.is_nan() || vb.is_nan() {
                if kind == "ok" { out.oracle_fail(&key, &text, "assert_eq/3 with a NaN operand or tolerance succeeded"); }
            } else if diff.is_finite() {
                let scale = (va * units.oracle_factor(&a.factors) / fe).abs().max(1e-300);
                if diff < ve - margin * scale.max(ve.abs()) {
                    out.count("judged");
                    if kind != "ok" { out.oracle_fail(&key, &text, &format!("|a-b| = {:e} <= eps = {:e} but outcome {}", diff, ve, kind)); }
                } else if diff > ve + margin * scale.max(ve.abs()) {
                    out.count("judged");
                    if kind == "ok" { out.oracle_fail(&key, &text, &format!("|a-b| = {:e} > eps = {:e} but assert_eq succeeded", diff, ve)); }
                } else {
                    out.count("inside_margin_not_judged");
                }
            }
        }
        Case::Text(_, expect) => {
            out.count("judged");
            if *expect != (kind == "ok") { out.oracle_fail(&key, &text, &format!("expected {} but outcome {}", if *expect { "pass" } else { "fail" }, kind)); }
        }
    }
}

fn show(f: &[numbat::verif::c03::FactorDesc]) -> String { numbat::verif::c03::show_unit(f) }

fn main() {
    let args = Args::parse();
    let mut out = Out::new(&args);
    out.rule = "assert_eq(a,b) and assert_eq(a,b,eps) on pairs of same-dimension prelude units (no prefixes) with b's value derived from a's (equal after conversion, off by one ulp, off by a relative 1e-6..1e-1, far, NaN, equal and opposite infinities), eps in a third unit of the dimension sized around |a-b| (x0.5, x0.999999, x1.000001, x2, 0, NaN, negative); assert on comparisons; assert_eq on booleans, strings and lists; each followed by a marker print. distinct = case text; every case is non-trivial".into();
    let ctx = prelude_ctx();
    let units = Units::load(&ctx);
    units.emit(&mut out);
    let run_file = |p: &std::path::Path, out: &mut Out| {
        for l in read_lines(p) {
            if let Some(c) = parse_case(&l) {
                run_case(&ctx, &units, out, &c);
            }
        }
    };
    if let Some(p) = &args.replay {
        run_file(p, &mut out);
        out.finish();
        return;
    }
    if let Some(dir) = args.extra.get("corpus") {
        let mut files: Vec<_> = std::fs::read_dir(dir).map(|d| d.filter_map(|e| e.ok()).map(|e| e.path()).collect()).unwrap_or_default();
        files.sort();
        for f in files {
            run_file(&f, &mut out);
        }
    }
    let mut rng = Rng::new(args.seed);
    let multi: Vec<&String> = units.by_dim.keys().filter(|d| units.by_dim[*d].len() >= 2).collect();
    let one = 0x3ff0000000000000u64;
    let n = args.count(1500, 30000);
    for i in 0..n {
        let d = *rng.pick(&multi);
        let rows = &units.by_dim[d];
        let u = |rng: &mut Rng| vec![units.factor(*rng.pick(rows), (false, 0), 1, 1)];
        let (ua, ub, ue) = (u(&mut rng), u(&mut rng), u(&mut rng));
        let va = match rng.below(14) { 0 => 0.0, 1 => f64::NAN, 2 => f64::INFINITY, 3 => f64::NEG_INFINITY, _ => ((rng.unit_f64() * 2000.0 - 1000.0) * 256.0).round() / 256.0 };
        let a = q(va.to_bits(), ua);
        let conv = ctx.verif_quantity_op("convert", &a, Some(&q(one, ub.clone())));
        let base = parse_answer(&conv).map(|x| x.0).unwrap_or(1.0);
        let vb = match rng.below(10) {
            0 | 1 | 2 => base,
            3 => f64::from_bits(base.to_bits().wrapping_add(1)),
            4 => base * (1.0 + 10f64.powi(-(rng.range(1, 6) as i32))),
            5 => base * (1.0 - 10f64.powi(-(rng.range(1, 6) as i32))),
            6 => f64::NAN,
            7 => -base,
            _ => base + ((rng.unit_f64() - 0.5) * 16.0).round() / 8.0,
        };
        let b = q(vb.to_bits(), ub);
        if i % 2 == 0 {
            run_case(&ctx, &units, &mut out, &Case::Eq2(a, b));
        } else {
            // eps sized around |a - b| expressed in eps's unit
            let fe = units.oracle_factor(&ue);
            let diff = (va * units.oracle_factor(&a.factors) / fe - vb * units.oracle_factor(&b.factors) / fe).abs();
            let d0 = if diff.is_finite() && diff > 0.0 { diff } else { 1.0 };
            let ve = match rng.below(9) { 0 => d0 * 0.5, 1 => d0 * 0.999999, 2 => d0 * 1.000001, 3 => d0 * 2.0, 4 => 0.0, 5 => f64::NAN, 6 => -d0, 7 => d0 * 1e3, _ => d0 * (0.5 + rng.unit_f64()) };
            // one tolerance in sixteen is the literal zero without a unit
            let (ve, ue) = if rng.chance(1, 16) { (0.0, Vec::new()) } else { (ve, ue) };
            run_case(&ctx, &units, &mut out, &Case::Eq3(a, b, q(ve.to_bits(), ue)));
        }
    }
    // non-quantity assertions
    let texts: &[(&str, bool)] = &[
        ("assert(true)", true), ("assert(false)", false), ("assert(1 m < 2 ft)", false), ("assert(1 m > 2 ft)", true),
        ("assert(1 < 2 && 2 < 3)", true), ("assert(!(1 == 1))", false),
        ("assert_eq(true, true)", true), ("assert_eq(true, false)", false),
        ("assert_eq(\"abc\", \"abc\")", true), ("assert_eq(\"abc\", \"abd\")", false),
        ("assert_eq([1, 2, 3], [1, 2, 3])", true), ("assert_eq([1, 2, 3], [1, 2, 4])", false), ("assert_eq([1 m, 2 m], [100 cm, 200 cm])", true),
        ("assert_eq([1, 2], [1, 2, 3])", false), ("assert_eq(\"{1 + 1}\", \"2\")", true),
        // a zero tolerance written without a unit (the literal 0 has every dimension)
        ("assert_eq(1 m, 1 m, 0)", true), ("assert_eq(1 m, 2 m, 0)", false), ("assert_eq(1 m, 100 cm, 0)", true), ("assert_eq(0, 5 m, 0)", false),
        ("assert_eq([], [1 m])", false), ("assert_eq([1], [1, 1])", false), ("assert_eq([[1], [2]], [[1], [2, 3]])", false),
    ];
    for (s, ok) in texts {
        run_case(&ctx, &units, &mut out, &Case::Text(s.to_string(), *ok));
    }
    out.finish();
}
