//! The independent oracle: ordinary dimensional analysis of a program by exponent vectors.
//!
//! It never calls numbat and shares nothing with the Lean model.  Every quantity expression gets an
//! exponent vector over base dimensions (units come from the hand-written table in tables.rs); the
//! dimension of an unannotated parameter, of a literal `0` and of an instantiated generic is an *unknown*
//! (one more axis).  Every place where two quantities must have the same dimension contributes one linear
//! equation; a statement is dimensionally consistent iff its equations are solvable over ℚ with the
//! type parameters treated as independent rigid axes — decided here by Gauss–Jordan elimination on the
//! coefficient matrix (not by incremental substitution as numbat does).  The solved types are compared
//! with numbat's through a canonical form of the *family of instances* (canon_family).
#![allow(dead_code)]
use super::ast::*;
use super::q::*;
use std::collections::{BTreeMap, BTreeSet};

#[derive(Clone, Debug, PartialEq)]
pub enum Ty {
    D(V),
    B,
    S,
    L(Box<Ty>),
    F(Vec<Ty>, Box<Ty>),
}

impl Ty {
    pub fn scalar() -> Ty {
        Ty::D(V::zero())
    }
    pub fn map_v(&self, f: &dyn Fn(&V) -> V) -> Ty {
        match self {
            Ty::D(v) => Ty::D(f(v)),
            Ty::B => Ty::B,
            Ty::S => Ty::S,
            Ty::L(t) => Ty::L(Box::new(t.map_v(f))),
            Ty::F(ps, r) => Ty::F(ps.iter().map(|p| p.map_v(f)).collect(), Box::new(r.map_v(f))),
        }
    }
    pub fn leaves<'a>(&'a self, out: &mut Vec<&'a V>) {
        match self {
            Ty::D(v) => out.push(v),
            Ty::B | Ty::S => {}
            Ty::L(t) => t.leaves(out),
            Ty::F(ps, r) => {
                for p in ps {
                    p.leaves(out);
                }
                r.leaves(out);
            }
        }
    }
    pub fn shape(&self) -> String {
        match self {
            Ty::D(_) => "D".into(),
            Ty::B => "B".into(),
            Ty::S => "S".into(),
            Ty::L(t) => format!("L({})", t.shape()),
            Ty::F(ps, r) => format!(
                "F({})->{}",
                ps.iter().map(|p| p.shape()).collect::<Vec<_>>().join(","),
                r.shape()
            ),
        }
    }
    pub fn show(&self) -> String {
        match self {
            Ty::D(v) => v.show(),
            Ty::B => "Bool".into(),
            Ty::S => "String".into(),
            Ty::L(t) => format!("List<{}>", t.show()),
            Ty::F(ps, r) => format!(
                "Fn({}) -> {}",
                ps.iter().map(|p| p.show()).collect::<Vec<_>>().join(", "),
                r.show()
            ),
        }
    }
}

/// a type with quantified variables `Atom::Q(0..nq)`; `dim[i]` = the variable carries a `Dim` bound
#[derive(Clone, Debug, PartialEq)]
pub struct Scheme {
    pub nq: usize,
    pub dim: Vec<bool>,
    pub ty: Ty,
}

impl Scheme {
    pub fn mono(ty: Ty) -> Scheme {
        Scheme { nq: 0, dim: vec![], ty }
    }
}

#[derive(Clone, Debug, Default)]
pub struct World {
    pub units: BTreeMap<String, V>,
    pub dims: BTreeMap<String, V>,
    pub vars: BTreeMap<String, Scheme>,
    pub fns: BTreeMap<String, Scheme>,
}

#[derive(Clone, Debug, PartialEq)]
pub enum Line {
    Let(String, Scheme),
    Fn(String, Scheme),
    Unit(String, V),
    Dim(String),
    Expr(Scheme),
    Proc,
}

#[derive(Clone, Debug, PartialEq)]
pub enum Verdict {
    /// dimensionally consistent; one line per statement
    Ok(Vec<Line>),
    /// statement `stmt` requires two different dimensions to be equal
    Inconsistent { stmt: usize, why: String },
    /// outside what the oracle analyses (structural type mismatch, unknown name, …)
    Unsupported(String),
}

enum Stop {
    Unsupported(String),
}

struct Ctx<'a> {
    w: &'a World,
    eqs: Vec<(V, String)>,
    next_unk: usize,
    forced: BTreeSet<usize>,
    locals: Vec<(String, Ty)>,
    tpars: Vec<String>,
    /// type parameters without a `Dim` bound that were used where a dimension is required
    forced_tpars: BTreeSet<String>,
}

type R<T> = Result<T, Stop>;

fn unsup<T>(s: impl Into<String>) -> R<T> {
    Err(Stop::Unsupported(s.into()))
}

impl<'a> Ctx<'a> {
    fn new(w: &'a World) -> Ctx<'a> {
        Ctx { w, eqs: vec![], next_unk: 0, forced: BTreeSet::new(), locals: vec![], tpars: vec![], forced_tpars: BTreeSet::new() }
    }
    fn fresh(&mut self) -> V {
        let v = V::atom(Atom::Unk(self.next_unk));
        self.next_unk += 1;
        v
    }
    fn force(&mut self, v: &V) {
        for u in v.unknowns() {
            self.forced.insert(u);
        }
        for a in v.0.keys() {
            if let Atom::TPar(n) = a {
                if is_unbounded_tpar(n) {
                    self.forced_tpars.insert(n.clone());
                }
            }
        }
    }
    /// after `solve`: an unbounded type parameter that a dimension-only position depends on
    fn missing_dim_bound(&self, sol: &BTreeMap<usize, V>) -> Option<String> {
        let mut bad = self.forced_tpars.clone();
        for (j, v) in sol {
            if self.forced.contains(j) {
                for a in v.0.keys() {
                    if let Atom::TPar(n) = a {
                        if is_unbounded_tpar(n) {
                            bad.insert(n.clone());
                        }
                    }
                }
            }
        }
        bad.into_iter().next().map(|n| format!("type parameter {n} is used as a dimension but is declared without a Dim bound"))
    }
    fn force_ty(&mut self, t: &Ty) {
        let mut ls = Vec::new();
        t.leaves(&mut ls);
        let ls: Vec<V> = ls.into_iter().cloned().collect();
        for v in ls {
            self.force(&v);
        }
    }
    fn dim_of(&mut self, t: Ty, what: &str) -> R<V> {
        match t {
            Ty::D(v) => Ok(v),
            other => unsup(format!("{what}: expected a quantity, found {}", other.show())),
        }
    }
    fn equate(&mut self, a: &Ty, b: &Ty, what: &str) -> R<()> {
        match (a, b) {
            (Ty::D(x), Ty::D(y)) => {
                self.eqs.push((x.sub(y), what.to_string()));
                Ok(())
            }
            (Ty::B, Ty::B) | (Ty::S, Ty::S) => Ok(()),
            (Ty::L(x), Ty::L(y)) => self.equate(x, y, what),
            (Ty::F(p1, r1), Ty::F(p2, r2)) if p1.len() == p2.len() => {
                for (x, y) in p1.iter().zip(p2.iter()) {
                    self.equate(x, y, what)?;
                }
                self.equate(r1, r2, what)
            }
            _ => unsup(format!("{what}: structural mismatch {} vs {}", a.show(), b.show())),
        }
    }
    fn instantiate(&mut self, s: &Scheme) -> Ty {
        let fresh: Vec<V> = (0..s.nq).map(|_| self.fresh()).collect();
        for (i, f) in fresh.iter().enumerate() {
            if s.dim[i] {
                self.force(f);
            }
        }
        s.ty.map_v(&|v: &V| {
            v.subst(&|a: &Atom| if let Atom::Q(i) = a { Some(fresh[*i].clone()) } else { None })
        })
    }
    fn dx(&self, d: &DX) -> R<V> {
        Ok(match d {
            DX::One => V::zero(),
            DX::Name(n) => {
                if self.tpars.contains(n) {
                    V::atom(Atom::TPar(n.clone()))
                } else if let Some(v) = self.w.dims.get(n) {
                    v.clone()
                } else {
                    return unsup(format!("unknown dimension {n}"));
                }
            }
            DX::Mul(a, b) => self.dx(a)?.add(&self.dx(b)?),
            DX::Div(a, b) => self.dx(a)?.sub(&self.dx(b)?),
            DX::Pow(a, q) => self.dx(a)?.scale(*q),
        })
    }
    fn ann(&self, a: &Ann) -> R<Ty> {
        Ok(match a {
            Ann::D(d) => Ty::D(self.dx(d)?),
            Ann::List(a) => Ty::L(Box::new(self.ann(a)?)),
            Ann::Bool => Ty::B,
        })
    }
    fn infer(&mut self, e: &E) -> R<Ty> {
        Ok(match e {
            E::Num(_) => Ty::scalar(),
            E::Zero => {
                let v = self.fresh();
                self.force(&v);
                Ty::D(v)
            }
            E::Unit(u) => match self.w.units.get(u) {
                Some(v) => Ty::D(v.clone()),
                None => return unsup(format!("unknown unit {u}")),
            },
            E::Var(n) => {
                if let Some((_, t)) = self.locals.iter().rev().find(|(m, _)| m == n) {
                    t.clone()
                } else if let Some(s) = self.w.vars.get(n) {
                    let s = s.clone();
                    self.instantiate(&s)
                } else {
                    return unsup(format!("unknown variable {n}"));
                }
            }
            E::Neg(a) => {
                let t = self.infer(a)?;
                let v = self.dim_of(t, "negation")?;
                self.force(&v);
                Ty::D(v)
            }
            E::Bin(op, a, b) => {
                let ta = self.infer(a)?;
                let tb = self.infer(b)?;
                let va = self.dim_of(ta, "left operand")?;
                let vb = self.dim_of(tb, "right operand")?;
                self.force(&va);
                self.force(&vb);
                match op {
                    Op::Add | Op::Sub | Op::Conv => {
                        let what = match op {
                            Op::Add => "operands of +",
                            Op::Sub => "operands of -",
                            _ => "operands of ->",
                        };
                        self.eqs.push((va.sub(&vb), what.into()));
                        Ty::D(va)
                    }
                    Op::Mul => Ty::D(va.add(&vb)),
                    Op::Div => Ty::D(va.sub(&vb)),
                }
            }
            E::Pow(a, q, _) => {
                let t = self.infer(a)?;
                let v = self.dim_of(t, "base of a power")?;
                self.force(&v);
                Ty::D(v.scale(*q))
            }
            E::PowE(_, x) => {
                let t = self.infer(x)?;
                let v = self.dim_of(t, "exponent")?;
                self.force(&v);
                self.eqs.push((v, "exponent must be dimensionless".into()));
                Ty::scalar()
            }
            E::Cmp(c, a, b) => {
                let ta = self.infer(a)?;
                let tb = self.infer(b)?;
                match c {
                    Cmp::Eq | Cmp::Ne => self.equate(&ta, &tb, "operands of a comparison")?,
                    _ => {
                        let va = self.dim_of(ta, "left operand")?;
                        let vb = self.dim_of(tb, "right operand")?;
                        self.force(&va);
                        self.force(&vb);
                        self.eqs.push((va.sub(&vb), "operands of a comparison".into()));
                    }
                }
                Ty::B
            }
            E::If(c, a, b) => {
                let tc = self.infer(c)?;
                if tc != Ty::B {
                    return unsup("condition is not boolean");
                }
                let ta = self.infer(a)?;
                let tb = self.infer(b)?;
                self.equate(&ta, &tb, "branches of a conditional")?;
                ta
            }
            E::Call(f, args) => {
                let s = match self.w.fns.get(f) {
                    Some(s) => s.clone(),
                    None => return unsup(format!("unknown function {f}")),
                };
                let Ty::F(ps, r) = self.instantiate(&s) else {
                    return unsup("not a function");
                };
                if ps.len() != args.len() {
                    return unsup("arity");
                }
                for (i, (p, a)) in ps.iter().zip(args.iter()).enumerate() {
                    let ta = self.infer(a)?;
                    self.equate(p, &ta, &format!("argument {} of {f}", i + 1))?;
                }
                *r
            }
            E::List(xs) => {
                if xs.is_empty() {
                    return unsup("empty list");
                }
                let t0 = self.infer(&xs[0])?;
                for x in &xs[1..] {
                    let t = self.infer(x)?;
                    self.equate(&t0, &t, "list elements")?;
                }
                Ty::L(Box::new(t0))
            }
            E::Str(_) => Ty::S,
        })
    }

    /// Gauss–Jordan on the unknowns; `Err(what)` = some equation demands two different dimensions to be
    /// equal.  On success: the value of every eliminated unknown in terms of free unknowns and rigid axes.
    fn solve(&mut self) -> Result<BTreeMap<usize, V>, String> {
        // rows: (coefficients on unknowns, rigid part, origin)
        let mut rows: Vec<(BTreeMap<usize, Q>, V, String)> = self
            .eqs
            .iter()
            .map(|(v, what)| {
                let mut c = BTreeMap::new();
                let mut r = V::zero();
                for (a, e) in &v.0 {
                    match a {
                        Atom::Unk(i) => {
                            c.insert(*i, *e);
                        }
                        a => r = r.add(&V::atom(a.clone()).scale(*e)),
                    }
                }
                (c, r, what.clone())
            })
            .collect();
        let mut pivots: Vec<(usize, usize)> = Vec::new(); // (unknown, row)
        let mut used = vec![false; rows.len()];
        for col in 0..self.next_unk {
            let Some(pr) = (0..rows.len()).find(|&i| !used[i] && rows[i].0.get(&col).map(|q| !q.is_zero()).unwrap_or(false)) else {
                continue;
            };
            used[pr] = true;
            let k = rows[pr].0[&col];
            let inv = Q::one().div(k);
            let prow: (BTreeMap<usize, Q>, V) = (
                rows[pr].0.iter().map(|(i, q)| (*i, q.mul(inv))).collect(),
                rows[pr].1.scale(inv),
            );
            rows[pr].0 = prow.0.clone();
            rows[pr].1 = prow.1.clone();
            for i in 0..rows.len() {
                if i == pr {
                    continue;
                }
                let f = rows[i].0.get(&col).copied().unwrap_or(Q::zero());
                if f.is_zero() {
                    continue;
                }
                for (j, q) in &prow.0 {
                    let n = rows[i].0.get(j).copied().unwrap_or(Q::zero()).sub(q.mul(f));
                    if n.is_zero() {
                        rows[i].0.remove(j);
                    } else {
                        rows[i].0.insert(*j, n);
                    }
                }
                rows[i].1 = rows[i].1.sub(&prow.1.scale(f));
            }
            pivots.push((col, pr));
        }
        for (i, (c, r, what)) in rows.iter().enumerate() {
            if !used[i] && c.values().all(|q| q.is_zero()) && !r.is_zero() {
                return Err(format!("{what}: dimensions differ by {}", r.show()));
            }
        }
        let mut sol = BTreeMap::new();
        for (col, pr) in pivots {
            // U_col + Σ c_k U_k + r = 0
            let mut v = rows[pr].1.scale(Q::int(-1));
            for (k, q) in &rows[pr].0 {
                if *k != col {
                    v = v.add(&V::atom(Atom::Unk(*k)).scale(q.neg()));
                }
            }
            sol.insert(col, v);
        }
        // a free unknown is a dimension if it was used as one, or a solved unknown that was depends on it
        let mut more = Vec::new();
        for (j, v) in &sol {
            if self.forced.contains(j) {
                more.extend(v.unknowns());
            }
        }
        self.forced.extend(more);
        Ok(sol)
    }

    /// applies the solution and turns the remaining unknowns and the type parameters into quantified
    /// variables (numbered by first occurrence)
    fn generalise(&self, t: &Ty, sol: &BTreeMap<usize, V>) -> Scheme {
        let t1 = t.map_v(&|v: &V| {
            v.subst(&|a: &Atom| if let Atom::Unk(i) = a { sol.get(i).cloned() } else { None })
        });
        let mut ls = Vec::new();
        t1.leaves(&mut ls);
        let mut order: Vec<Atom> = Vec::new();
        for v in ls {
            for a in v.0.keys() {
                if matches!(a, Atom::Unk(_) | Atom::TPar(_)) && !order.contains(a) {
                    order.push(a.clone());
                }
            }
        }
        let dim = order
            .iter()
            .map(|a| match a {
                Atom::Unk(i) => self.forced.contains(i),
                Atom::TPar(n) => !is_unbounded_tpar(n),
                _ => true,
            })
            .collect();
        let ty = t1.map_v(&|v: &V| {
            v.subst(&|a: &Atom| order.iter().position(|b| b == a).map(|i| V::atom(Atom::Q(i))))
        });
        Scheme { nq: order.len(), dim, ty }
    }
}

pub fn upper_camel(s: &str) -> String {
    // what `heck::ToUpperCamelCase` does on the names the generator uses (lower-case letters only)
    let mut c = s.chars();
    match c.next() {
        Some(f) => f.to_uppercase().collect::<String>() + c.as_str(),
        None => String::new(),
    }
}

/// analyses one statement in `w`; on success updates `w`
pub fn analyse_stmt(w: &mut World, s: &S) -> Result<Line, Result<String, String>> {
    // Err(Ok(why)) = inconsistent, Err(Err(why)) = unsupported
    let un = |st: Stop| -> Result<String, String> {
        let Stop::Unsupported(m) = st;
        Err(m)
    };
    let mut c = Ctx::new(w);
    match s {
        S::Let { name, ann, e } => {
            let t = c.infer(e).map_err(un)?;
            if let Some(a) = ann {
                let ta = c.ann(a).map_err(un)?;
                c.equate(&t, &ta, "annotation of a definition").map_err(un)?;
            }
            let sol = c.solve().map_err(Ok)?;
            let sch = c.generalise(&t, &sol);
            w.vars.insert(name.clone(), sch.clone());
            Ok(Line::Let(name.clone(), sch))
        }
        S::Fn { name, tpars, params, ret, body } => {
            c.tpars = tpars.clone();
            let mut pts = Vec::new();
            for (n, a) in params {
                let t = match a {
                    Some(a) => c.ann(a).map_err(un)?,
                    None => Ty::D(c.fresh()),
                };
                c.locals.push((n.clone(), t.clone()));
                pts.push(t);
            }
            let tb = c.infer(body).map_err(un)?;
            if let Some(a) = ret {
                let ta = c.ann(a).map_err(un)?;
                c.equate(&tb, &ta, "return type annotation").map_err(un)?;
            }
            let sol = c.solve().map_err(Ok)?;
            if let Some(why) = c.missing_dim_bound(&sol) {
                return Err(Ok(why));
            }
            let sch = c.generalise(&Ty::F(pts, Box::new(tb)), &sol);
            w.fns.insert(name.clone(), sch.clone());
            Ok(Line::Fn(name.clone(), sch))
        }
        S::UnitDef { name, ann, e } => {
            let v = match (ann, e) {
                (None, None) => {
                    let d = upper_camel(name);
                    let v = V::base(&d);
                    w.dims.insert(d, v.clone());
                    w.units.insert(name.clone(), v.clone());
                    return Ok(Line::Unit(name.clone(), v));
                }
                (Some(a), None) => {
                    let v = c.dx(a).map_err(un)?;
                    if v.is_zero() {
                        return Err(Err("dimensionless base unit".into()));
                    }
                    v
                }
                (a, Some(e)) => {
                    let t = c.infer(e).map_err(un)?;
                    if let Some(a) = a {
                        let va = c.dx(a).map_err(un)?;
                        c.equate(&t, &Ty::D(va), "annotation of a unit definition").map_err(un)?;
                    }
                    let sol = c.solve().map_err(Ok)?;
                    let sch = c.generalise(&t, &sol);
                    match (sch.nq, sch.ty) {
                        (0, Ty::D(v)) => v,
                        _ => return Err(Err("generic or non-quantity unit definition".into())),
                    }
                }
            };
            w.units.insert(name.clone(), v.clone());
            Ok(Line::Unit(name.clone(), v))
        }
        S::DimDef { name, def } => {
            let v = match def {
                Some(d) => c.dx(d).map_err(un)?,
                None => V::base(name),
            };
            w.dims.insert(name.clone(), v);
            Ok(Line::Dim(name.clone()))
        }
        S::Print(e) => {
            c.infer(e).map_err(un)?;
            c.solve().map_err(Ok)?;
            Ok(Line::Proc)
        }
        S::AssertEq(a, b) => {
            let ta = c.infer(a).map_err(un)?;
            let tb = c.infer(b).map_err(un)?;
            c.equate(&ta, &tb, "arguments of assert_eq").map_err(un)?;
            c.solve().map_err(Ok)?;
            Ok(Line::Proc)
        }
        S::Expr(e) => {
            let t = c.infer(e).map_err(un)?;
            let sol = c.solve().map_err(Ok)?;
            Ok(Line::Expr(c.generalise(&t, &sol)))
        }
    }
}

pub fn analyse(w0: &World, p: &Prog) -> (Verdict, World) {
    let mut w = w0.clone();
    let mut lines = Vec::new();
    for (i, s) in p.iter().enumerate() {
        match analyse_stmt(&mut w, s) {
            Ok(l) => lines.push(l),
            Err(Ok(why)) => return (Verdict::Inconsistent { stmt: i, why }, w),
            Err(Err(why)) => return (Verdict::Unsupported(format!("statement {i}: {why}")), w),
        }
    }
    (Verdict::Ok(lines), w)
}

// ------------------------------------------------------------------ canonical form of a type family

/// Canonical text of the set of instances of a scheme, independent of how the quantified variables were
/// chosen: the shape, the reduced row echelon basis of the span of the variables' coefficient rows over
/// the quantity leaves, and the rigid parts reduced modulo that span.  Two schemes have the same
/// instances iff the texts are equal (for schemes whose variables all carry a `Dim` bound); the number of
/// occurring variables without a `Dim` bound is part of the text.
pub fn canon_family(s: &Scheme) -> String {
    let mut ls = Vec::new();
    s.ty.leaves(&mut ls);
    let p = ls.len();
    // rows = variables
    let mut rows: Vec<Vec<Q>> = (0..s.nq)
        .map(|i| ls.iter().map(|v| v.get(&Atom::Q(i))).collect())
        .collect();
    let occurs: Vec<bool> = rows.iter().map(|r| r.iter().any(|q| !q.is_zero())).collect();
    let unbounded = (0..s.nq).filter(|i| occurs[*i] && !s.dim[*i]).count();
    // RREF
    let mut pivcols: Vec<usize> = Vec::new();
    let mut r0 = 0;
    for col in 0..p {
        let Some(pr) = (r0..rows.len()).find(|&i| !rows[i][col].is_zero()) else { continue };
        rows.swap(r0, pr);
        let inv = Q::one().div(rows[r0][col]);
        for x in rows[r0].iter_mut() {
            *x = x.mul(inv);
        }
        let prow = rows[r0].clone();
        for i in 0..rows.len() {
            if i != r0 && !rows[i][col].is_zero() {
                let f = rows[i][col];
                for j in 0..p {
                    rows[i][j] = rows[i][j].sub(prow[j].mul(f));
                }
            }
        }
        pivcols.push(col);
        r0 += 1;
    }
    let basis: Vec<(usize, Vec<Q>)> = pivcols.iter().enumerate().map(|(i, c)| (*c, rows[i].clone())).collect();
    // rigid parts per atom, reduced
    let mut atoms: BTreeSet<Atom> = BTreeSet::new();
    for v in &ls {
        for a in v.0.keys() {
            if !matches!(a, Atom::Q(_)) {
                atoms.insert(a.clone());
            }
        }
    }
    let mut rigid = Vec::new();
    for a in atoms {
        let mut r: Vec<Q> = ls.iter().map(|v| v.get(&a)).collect();
        for (col, prow) in &basis {
            let f = r[*col];
            if !f.is_zero() {
                for j in 0..p {
                    r[j] = r[j].sub(prow[j].mul(f));
                }
            }
        }
        if r.iter().any(|q| !q.is_zero()) {
            let n = match &a {
                Atom::Base(n) => n.clone(),
                Atom::TPar(n) => format!("'{n}"),
                Atom::Unk(i) => format!("?{i}"),
                Atom::Q(i) => format!("q{i}"),
            };
            rigid.push(format!("{}:[{}]", n, r.iter().map(|q| q.to_string()).collect::<Vec<_>>().join(",")));
        }
    }
    format!(
        "{} span{{{}}} rigid{{{}}} vars(unbounded={})",
        s.ty.shape(),
        basis
            .iter()
            .map(|(_, r)| format!("[{}]", r.iter().map(|q| q.to_string()).collect::<Vec<_>>().join(",")))
            .collect::<Vec<_>>()
            .join(""),
        rigid.join(" "),
        unbounded
    )
}

// ------------------------------------------------------------------ numbat's scheme text → Scheme

fn parse_factor(tok: &str, v: &mut V) -> Option<()> {
    let (f, e) = tok.rsplit_once('^')?;
    let e = Q::parse(e)?;
    let a = if let Some(n) = f.strip_prefix("b:") {
        Atom::Base(n.to_string())
    } else if let Some(i) = f.strip_prefix("q:") {
        Atom::Q(i.parse().ok()?)
    } else if let Some(n) = f.strip_prefix("p:") {
        Atom::TPar(n.to_string())
    } else {
        // a named type variable must not survive generalisation
        return None;
    };
    *v = v.add(&V::atom(a).scale(e));
    Some(())
}

fn ty_from_sx(s: &Sx) -> Option<Ty> {
    match s {
        Sx::A(a) => match a.as_str() {
            "B" => Some(Ty::B),
            "S" => Some(Ty::S),
            a => {
                let i = a.strip_prefix("q:")?;
                Some(Ty::D(V::atom(Atom::Q(i.parse().ok()?))))
            }
        },
        Sx::L(v) => match v.first()?.atom()? {
            "d" => {
                let mut r = V::zero();
                for t in &v[1..] {
                    parse_factor(t.atom()?, &mut r)?;
                }
                Some(Ty::D(r))
            }
            "l" => Some(Ty::L(Box::new(ty_from_sx(v.get(1)?)?))),
            "fn" => {
                let arrow = v.iter().position(|x| x.atom() == Some("->"))?;
                let ps: Option<Vec<Ty>> = v[1..arrow].iter().map(ty_from_sx).collect();
                Some(Ty::F(ps?, Box::new(ty_from_sx(v.get(arrow + 1)?)?)))
            }
            _ => None,
        },
    }
}

/// `(mono type)` / `(forall N (bounds) type)` as printed by the hook
pub fn scheme_from_text(text: &str) -> Option<Scheme> {
    let sx = read_sx(text)?;
    let v = sx.first()?.list()?;
    match v.first()?.atom()? {
        "mono" => Some(Scheme::mono(ty_from_sx(v.get(1)?)?)),
        "forall" => {
            let nq: usize = v.get(1)?.atom()?.parse().ok()?;
            let mut dim = vec![false; nq];
            for b in v.get(2)?.list()? {
                if let Some(i) = b.atom().and_then(|a| a.strip_prefix("q:")) {
                    let i: usize = i.parse().ok()?;
                    if i < nq {
                        dim[i] = true;
                    }
                }
            }
            Some(Scheme { nq, dim, ty: ty_from_sx(v.get(3)?)? })
        }
        _ => None,
    }
}
