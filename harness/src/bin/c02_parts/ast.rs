//! the harness's own program representation: numbat source text is *printed* from it, the independent
//! dimensional analysis (oracle.rs) is computed on it, and it round-trips through one S-expression line
//! (the replay format)
#![allow(dead_code)]
use super::q::*;

/// dimension expression of an annotation
#[derive(Clone, Debug, PartialEq)]
pub enum DX {
    One,
    Name(String),
    Mul(Box<DX>, Box<DX>),
    Div(Box<DX>, Box<DX>),
    Pow(Box<DX>, Q),
}

#[derive(Clone, Debug, PartialEq)]
pub enum Ann {
    D(DX),
    List(Box<Ann>),
    Bool,
}

#[derive(Clone, Copy, Debug, PartialEq, Eq)]
pub enum Op {
    Add,
    Sub,
    Mul,
    Div,
    Conv,
}

#[derive(Clone, Copy, Debug, PartialEq, Eq)]
pub enum Cmp {
    Lt,
    Le,
    Gt,
    Ge,
    Eq,
    Ne,
}

#[derive(Clone, Debug, PartialEq)]
pub enum E {
    /// non-zero scalar literal (text as written)
    Num(String),
    /// the literal `0` (polymorphic in the checker)
    Zero,
    /// unit identifier as written (may carry a prefix, e.g. `km`)
    Unit(String),
    Var(String),
    Neg(Box<E>),
    Bin(Op, Box<E>, Box<E>),
    /// power with a constant rational exponent; `dec` = write it as a decimal literal (only for k/2^n)
    Pow(Box<E>, Q, bool),
    /// `<number> ^ (<scalar expression>)`
    PowE(String, Box<E>),
    Cmp(Cmp, Box<E>, Box<E>),
    If(Box<E>, Box<E>, Box<E>),
    Call(String, Vec<E>),
    List(Vec<E>),
    Str(String),
}

#[derive(Clone, Debug, PartialEq)]
pub enum S {
    Let { name: String, ann: Option<Ann>, e: E },
    Fn { name: String, tpars: Vec<String>, params: Vec<(String, Option<Ann>)>, ret: Option<Ann>, body: E },
    /// `unit n = e` | `unit n: D = e` | `unit n: D` | `unit n`
    UnitDef { name: String, ann: Option<DX>, e: Option<E> },
    /// `dimension N = dx` | `dimension N`
    DimDef { name: String, def: Option<DX> },
    Print(E),
    AssertEq(E, E),
    Expr(E),
}

pub type Prog = Vec<S>;

/// convention of the generator: a type parameter whose name starts with `U` is declared without a `Dim` bound
pub fn is_unbounded_tpar(n: &str) -> bool {
    n.starts_with('U')
}

// ------------------------------------------------------------------ numbat source text

fn q_src(q: Q) -> String {
    if q.d == 1 {
        if q.n < 0 { format!("({})", q.n) } else { format!("{}", q.n) }
    } else {
        format!("({}/{})", q.n, q.d)
    }
}

fn dec_src(q: Q) -> String {
    // exact decimal of k/2^n
    let v = q.n as f64 / q.d as f64;
    if v < 0.0 { format!("({})", v) } else { format!("{}", v) }
}

impl DX {
    pub fn src(&self) -> String {
        match self {
            DX::One => "1".into(),
            DX::Name(n) => n.clone(),
            DX::Mul(a, b) => format!("({} * {})", a.src(), b.src()),
            DX::Div(a, b) => format!("({} / {})", a.src(), b.src()),
            DX::Pow(a, q) => format!("{}^{}", a.src_atom(), q_src(*q)),
        }
    }
    fn src_atom(&self) -> String {
        match self {
            DX::Name(n) => n.clone(),
            DX::Mul(..) | DX::Div(..) => self.src(),
            _ => format!("({})", self.src()),
        }
    }
}

impl Ann {
    pub fn src(&self) -> String {
        match self {
            Ann::D(d) => d.src(),
            Ann::List(a) => format!("List<{}>", a.src()),
            Ann::Bool => "Bool".into(),
        }
    }
}

impl Op {
    pub fn src(&self) -> &'static str {
        match self {
            Op::Add => "+",
            Op::Sub => "-",
            Op::Mul => "*",
            Op::Div => "/",
            Op::Conv => "->",
        }
    }
    pub fn tag(&self) -> &'static str {
        match self {
            Op::Add => "add",
            Op::Sub => "sub",
            Op::Mul => "mul",
            Op::Div => "div",
            Op::Conv => "conv",
        }
    }
}

impl Cmp {
    pub fn src(&self) -> &'static str {
        match self {
            Cmp::Lt => "<",
            Cmp::Le => "<=",
            Cmp::Gt => ">",
            Cmp::Ge => ">=",
            Cmp::Eq => "==",
            Cmp::Ne => "!=",
        }
    }
    pub fn tag(&self) -> &'static str {
        match self {
            Cmp::Lt => "lt",
            Cmp::Le => "le",
            Cmp::Gt => "gt",
            Cmp::Ge => "ge",
            Cmp::Eq => "eq",
            Cmp::Ne => "ne",
        }
    }
}

impl E {
    /// fully parenthesised numbat source
    pub fn src(&self) -> String {
        match self {
            E::Num(s) => s.clone(),
            E::Zero => "0".into(),
            E::Unit(u) => u.clone(),
            E::Var(v) => v.clone(),
            E::Neg(a) => format!("(-{})", a.src()),
            E::Bin(op, a, b) => format!("({} {} {})", a.src(), op.src(), b.src()),
            E::Pow(a, q, dec) => {
                let e = if *dec { dec_src(*q) } else { q_src(*q) };
                format!("({}^{})", a.src_atom(), e)
            }
            E::PowE(n, e) => format!("({}^({}))", n, e.src()),
            E::Cmp(c, a, b) => format!("({} {} {})", a.src(), c.src(), b.src()),
            E::If(c, a, b) => format!("(if {} then {} else {})", c.src(), a.src(), b.src()),
            E::Call(f, args) => format!(
                "{}({})",
                f,
                args.iter().map(|a| a.src()).collect::<Vec<_>>().join(", ")
            ),
            E::List(xs) => format!("[{}]", xs.iter().map(|a| a.src()).collect::<Vec<_>>().join(", ")),
            E::Str(s) => format!("\"{}\"", s),
        }
    }
    fn src_atom(&self) -> String {
        match self {
            E::Unit(_) | E::Var(_) | E::Call(..) => self.src(),
            E::Num(s) if !s.starts_with('-') => s.clone(),
            E::Bin(..) | E::Neg(_) | E::Pow(..) | E::PowE(..) | E::If(..) | E::Cmp(..) => self.src(),
            _ => format!("({})", self.src()),
        }
    }
    pub fn size(&self) -> usize {
        1 + match self {
            E::Neg(a) | E::Pow(a, _, _) | E::PowE(_, a) => a.size(),
            E::Bin(_, a, b) | E::Cmp(_, a, b) => a.size() + b.size(),
            E::If(c, a, b) => c.size() + a.size() + b.size(),
            E::Call(_, xs) | E::List(xs) => xs.iter().map(|x| x.size()).sum(),
            _ => 0,
        }
    }
    pub fn children_mut(&mut self) -> Vec<&mut E> {
        match self {
            E::Neg(a) | E::Pow(a, _, _) | E::PowE(_, a) => vec![a],
            E::Bin(_, a, b) | E::Cmp(_, a, b) => vec![a, b],
            E::If(c, a, b) => vec![c, a, b],
            E::Call(_, xs) | E::List(xs) => xs.iter_mut().collect(),
            _ => vec![],
        }
    }
    pub fn children(&self) -> Vec<&E> {
        match self {
            E::Neg(a) | E::Pow(a, _, _) | E::PowE(_, a) => vec![a],
            E::Bin(_, a, b) | E::Cmp(_, a, b) => vec![a, b],
            E::If(c, a, b) => vec![c, a, b],
            E::Call(_, xs) | E::List(xs) => xs.iter().collect(),
            _ => vec![],
        }
    }
    /// pre-order visit with mutable access; `f` returns true to stop
    pub fn visit_mut(&mut self, f: &mut dyn FnMut(&mut E) -> bool) -> bool {
        if f(self) {
            return true;
        }
        for c in self.children_mut() {
            if c.visit_mut(f) {
                return true;
            }
        }
        false
    }
    pub fn visit(&self, f: &mut dyn FnMut(&E)) {
        f(self);
        for c in self.children() {
            c.visit(f);
        }
    }
}

impl S {
    pub fn src(&self) -> String {
        match self {
            S::Let { name, ann, e } => match ann {
                Some(a) => format!("let {}: {} = {}", name, a.src(), e.src()),
                None => format!("let {} = {}", name, e.src()),
            },
            S::Fn { name, tpars, params, ret, body } => {
                let tp = if tpars.is_empty() {
                    String::new()
                } else {
                    format!(
                        "<{}>",
                        tpars.iter().map(|t| if is_unbounded_tpar(t) { t.clone() } else { format!("{t}: Dim") }).collect::<Vec<_>>().join(", ")
                    )
                };
                let ps = params
                    .iter()
                    .map(|(n, a)| match a {
                        Some(a) => format!("{}: {}", n, a.src()),
                        None => n.clone(),
                    })
                    .collect::<Vec<_>>()
                    .join(", ");
                let r = match ret {
                    Some(a) => format!(" -> {}", a.src()),
                    None => String::new(),
                };
                format!("fn {}{}({}){} = {}", name, tp, ps, r, body.src())
            }
            S::UnitDef { name, ann, e } => {
                let a = ann.as_ref().map(|a| format!(": {}", a.src())).unwrap_or_default();
                let e = e.as_ref().map(|e| format!(" = {}", e.src())).unwrap_or_default();
                format!("unit {}{}{}", name, a, e)
            }
            S::DimDef { name, def } => match def {
                Some(d) => format!("dimension {} = {}", name, d.src()),
                None => format!("dimension {}", name),
            },
            S::Print(e) => format!("print({})", e.src()),
            S::AssertEq(a, b) => format!("assert_eq({}, {})", a.src(), b.src()),
            S::Expr(e) => e.src(),
        }
    }
    pub fn exprs_mut(&mut self) -> Vec<&mut E> {
        match self {
            S::Let { e, .. } | S::Print(e) | S::Expr(e) => vec![e],
            S::Fn { body, .. } => vec![body],
            S::UnitDef { e, .. } => e.iter_mut().collect(),
            S::AssertEq(a, b) => vec![a, b],
            S::DimDef { .. } => vec![],
        }
    }
    pub fn exprs(&self) -> Vec<&E> {
        match self {
            S::Let { e, .. } | S::Print(e) | S::Expr(e) => vec![e],
            S::Fn { body, .. } => vec![body],
            S::UnitDef { e, .. } => e.iter().collect(),
            S::AssertEq(a, b) => vec![a, b],
            S::DimDef { .. } => vec![],
        }
    }
    /// the name this statement defines (value or type namespace)
    pub fn defines(&self) -> Option<(&'static str, &str)> {
        match self {
            S::Let { name, .. } => Some(("let", name)),
            S::Fn { name, .. } => Some(("fn", name)),
            S::UnitDef { name, .. } => Some(("unit", name)),
            S::DimDef { name, .. } => Some(("dimension", name)),
            _ => None,
        }
    }
}

pub fn prog_src(p: &Prog) -> String {
    p.iter().map(|s| s.src()).collect::<Vec<_>>().join("\n")
}

// ------------------------------------------------------------------ S-expression form (replay lines)

impl DX {
    pub fn sx(&self) -> Sx {
        match self {
            DX::One => Sx::a("1"),
            DX::Name(n) => Sx::a(n.clone()),
            DX::Mul(a, b) => Sx::l("*", vec![a.sx(), b.sx()]),
            DX::Div(a, b) => Sx::l("/", vec![a.sx(), b.sx()]),
            DX::Pow(a, q) => Sx::l("^", vec![a.sx(), Sx::a(q.wire())]),
        }
    }
    pub fn from_sx(s: &Sx) -> Option<DX> {
        match s {
            Sx::A(a) if a == "1" => Some(DX::One),
            Sx::A(a) => Some(DX::Name(a.clone())),
            Sx::L(v) => {
                let h = v.first()?.atom()?;
                match (h, v.len()) {
                    ("*", 3) => Some(DX::Mul(Box::new(DX::from_sx(&v[1])?), Box::new(DX::from_sx(&v[2])?))),
                    ("/", 3) => Some(DX::Div(Box::new(DX::from_sx(&v[1])?), Box::new(DX::from_sx(&v[2])?))),
                    ("^", 3) => Some(DX::Pow(Box::new(DX::from_sx(&v[1])?), Q::parse(v[2].atom()?)?)),
                    _ => None,
                }
            }
        }
    }
}

impl Ann {
    pub fn sx(&self) -> Sx {
        match self {
            Ann::D(d) => Sx::l("dim", vec![d.sx()]),
            Ann::List(a) => Sx::l("list", vec![a.sx()]),
            Ann::Bool => Sx::a("bool"),
        }
    }
    pub fn from_sx(s: &Sx) -> Option<Ann> {
        if s.atom() == Some("bool") {
            return Some(Ann::Bool);
        }
        let v = s.list()?;
        match (v.first()?.atom()?, v.len()) {
            ("dim", 2) => Some(Ann::D(DX::from_sx(&v[1])?)),
            ("list", 2) => Some(Ann::List(Box::new(Ann::from_sx(&v[1])?))),
            _ => None,
        }
    }
}

fn opt_sx<T>(o: &Option<T>, f: impl Fn(&T) -> Sx) -> Sx {
    match o {
        Some(x) => f(x),
        None => Sx::a("_"),
    }
}

fn sx_opt<T>(s: &Sx, f: impl Fn(&Sx) -> Option<T>) -> Option<Option<T>> {
    if s.atom() == Some("_") { Some(None) } else { Some(Some(f(s)?)) }
}

impl E {
    pub fn sx(&self) -> Sx {
        match self {
            E::Num(s) => Sx::l("n", vec![Sx::a(s.clone())]),
            E::Zero => Sx::a("zero"),
            E::Unit(u) => Sx::l("u", vec![Sx::a(u.clone())]),
            E::Var(v) => Sx::l("v", vec![Sx::a(v.clone())]),
            E::Neg(a) => Sx::l("neg", vec![a.sx()]),
            E::Bin(op, a, b) => Sx::l(op.tag(), vec![a.sx(), b.sx()]),
            E::Pow(a, q, dec) => Sx::l(if *dec { "powd" } else { "pow" }, vec![a.sx(), Sx::a(q.wire())]),
            E::PowE(n, e) => Sx::l("powe", vec![Sx::a(n.clone()), e.sx()]),
            E::Cmp(c, a, b) => Sx::l(c.tag(), vec![a.sx(), b.sx()]),
            E::If(c, a, b) => Sx::l("if", vec![c.sx(), a.sx(), b.sx()]),
            E::Call(f, xs) => {
                let mut v = vec![Sx::a(f.clone())];
                v.extend(xs.iter().map(|x| x.sx()));
                Sx::l("call", v)
            }
            E::List(xs) => Sx::l("lst", xs.iter().map(|x| x.sx()).collect()),
            E::Str(s) => Sx::l("str", vec![Sx::a(s.clone())]),
        }
    }
    pub fn from_sx(s: &Sx) -> Option<E> {
        if s.atom() == Some("zero") {
            return Some(E::Zero);
        }
        let v = s.list()?;
        let h = v.first()?.atom()?;
        let e = |i: usize| -> Option<Box<E>> { Some(Box::new(E::from_sx(v.get(i)?)?)) };
        let op = match h {
            "add" => Some(Op::Add),
            "sub" => Some(Op::Sub),
            "mul" => Some(Op::Mul),
            "div" => Some(Op::Div),
            "conv" => Some(Op::Conv),
            _ => None,
        };
        if let Some(op) = op {
            return Some(E::Bin(op, e(1)?, e(2)?));
        }
        let cmp = match h {
            "lt" => Some(Cmp::Lt),
            "le" => Some(Cmp::Le),
            "gt" => Some(Cmp::Gt),
            "ge" => Some(Cmp::Ge),
            "eq" => Some(Cmp::Eq),
            "ne" => Some(Cmp::Ne),
            _ => None,
        };
        if let Some(c) = cmp {
            return Some(E::Cmp(c, e(1)?, e(2)?));
        }
        match h {
            "n" => Some(E::Num(v.get(1)?.atom()?.to_string())),
            "u" => Some(E::Unit(v.get(1)?.atom()?.to_string())),
            "v" => Some(E::Var(v.get(1)?.atom()?.to_string())),
            "neg" => Some(E::Neg(e(1)?)),
            "pow" => Some(E::Pow(e(1)?, Q::parse(v.get(2)?.atom()?)?, false)),
            "powd" => Some(E::Pow(e(1)?, Q::parse(v.get(2)?.atom()?)?, true)),
            "powe" => Some(E::PowE(v.get(1)?.atom()?.to_string(), e(2)?)),
            "if" => Some(E::If(e(1)?, e(2)?, e(3)?)),
            "call" => {
                let f = v.get(1)?.atom()?.to_string();
                let xs: Option<Vec<E>> = v[2..].iter().map(E::from_sx).collect();
                Some(E::Call(f, xs?))
            }
            "lst" => {
                let xs: Option<Vec<E>> = v[1..].iter().map(E::from_sx).collect();
                Some(E::List(xs?))
            }
            "str" => Some(E::Str(v.get(1).and_then(|x| x.atom()).unwrap_or("").to_string())),
            _ => None,
        }
    }
}

impl S {
    pub fn sx(&self) -> Sx {
        match self {
            S::Let { name, ann, e } => Sx::l("let", vec![Sx::a(name.clone()), opt_sx(ann, |a| a.sx()), e.sx()]),
            S::Fn { name, tpars, params, ret, body } => Sx::l(
                "fn",
                vec![
                    Sx::a(name.clone()),
                    Sx::L(tpars.iter().map(|t| Sx::a(t.clone())).collect()),
                    Sx::L(params
                        .iter()
                        .map(|(n, a)| Sx::L(vec![Sx::a(n.clone()), opt_sx(a, |a| a.sx())]))
                        .collect()),
                    opt_sx(ret, |a| a.sx()),
                    body.sx(),
                ],
            ),
            S::UnitDef { name, ann, e } => {
                Sx::l("unit", vec![Sx::a(name.clone()), opt_sx(ann, |a| a.sx()), opt_sx(e, |e| e.sx())])
            }
            S::DimDef { name, def } => Sx::l("dimension", vec![Sx::a(name.clone()), opt_sx(def, |d| d.sx())]),
            S::Print(e) => Sx::l("print", vec![e.sx()]),
            S::AssertEq(a, b) => Sx::l("asserteq", vec![a.sx(), b.sx()]),
            S::Expr(e) => Sx::l("expr", vec![e.sx()]),
        }
    }
    pub fn from_sx(s: &Sx) -> Option<S> {
        let v = s.list()?;
        match (v.first()?.atom()?, v.len()) {
            ("let", 4) => Some(S::Let {
                name: v[1].atom()?.to_string(),
                ann: sx_opt(&v[2], Ann::from_sx)?,
                e: E::from_sx(&v[3])?,
            }),
            ("fn", 6) => {
                let tpars = v[2].list()?.iter().map(|t| t.atom().map(|s| s.to_string())).collect::<Option<Vec<_>>>()?;
                let mut params = Vec::new();
                for p in v[3].list()? {
                    let p = p.list()?;
                    params.push((p.first()?.atom()?.to_string(), sx_opt(p.get(1)?, Ann::from_sx)?));
                }
                Some(S::Fn {
                    name: v[1].atom()?.to_string(),
                    tpars,
                    params,
                    ret: sx_opt(&v[4], Ann::from_sx)?,
                    body: E::from_sx(&v[5])?,
                })
            }
            ("unit", 4) => Some(S::UnitDef {
                name: v[1].atom()?.to_string(),
                ann: sx_opt(&v[2], DX::from_sx)?,
                e: sx_opt(&v[3], E::from_sx)?,
            }),
            ("dimension", 3) => Some(S::DimDef { name: v[1].atom()?.to_string(), def: sx_opt(&v[2], DX::from_sx)? }),
            ("print", 2) => Some(S::Print(E::from_sx(&v[1])?)),
            ("asserteq", 3) => Some(S::AssertEq(E::from_sx(&v[1])?, E::from_sx(&v[2])?)),
            ("expr", 2) => Some(S::Expr(E::from_sx(&v[1])?)),
            _ => None,
        }
    }
}

pub fn prog_sx(p: &Prog) -> String {
    p.iter().map(|s| s.sx().text()).collect::<Vec<_>>().join(" ")
}

pub fn prog_from_line(line: &str) -> Option<Prog> {
    read_sx(line)?.iter().map(S::from_sx).collect()
}
