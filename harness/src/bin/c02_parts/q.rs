//! exact rationals, exponent vectors over atoms, and a tiny S-expression reader (shared by c02 and c16)
#![allow(dead_code)]
use std::collections::BTreeMap;
use std::fmt;

fn gcd(a: i128, b: i128) -> i128 {
    let (mut a, mut b) = (a.abs(), b.abs());
    while b != 0 {
        let t = a % b;
        a = b;
        b = t;
    }
    a
}

/// exact rational, always normalised (den > 0, lowest terms)
#[derive(Clone, Copy, PartialEq, Eq, PartialOrd, Ord, Hash, Debug)]
pub struct Q {
    pub n: i128,
    pub d: i128,
}

impl Q {
    pub fn new(n: i128, d: i128) -> Q {
        assert!(d != 0);
        let g = gcd(n, d).max(1);
        let s = if d < 0 { -1 } else { 1 };
        Q { n: s * n / g, d: s * d / g }
    }
    pub fn int(n: i128) -> Q {
        Q { n, d: 1 }
    }
    pub fn zero() -> Q {
        Q::int(0)
    }
    pub fn one() -> Q {
        Q::int(1)
    }
    pub fn is_zero(&self) -> bool {
        self.n == 0
    }
    pub fn add(self, o: Q) -> Q {
        Q::new(self.n * o.d + o.n * self.d, self.d * o.d)
    }
    pub fn sub(self, o: Q) -> Q {
        self.add(o.neg())
    }
    pub fn mul(self, o: Q) -> Q {
        Q::new(self.n * o.n, self.d * o.d)
    }
    pub fn div(self, o: Q) -> Q {
        assert!(o.n != 0);
        Q::new(self.n * o.d, self.d * o.n)
    }
    pub fn neg(self) -> Q {
        Q { n: -self.n, d: self.d }
    }
    /// `n/d` always with denominator (the wire form of the hooks)
    pub fn wire(&self) -> String {
        format!("{}/{}", self.n, self.d)
    }
    pub fn parse(s: &str) -> Option<Q> {
        match s.split_once('/') {
            Some((n, d)) => {
                let d: i128 = d.parse().ok()?;
                if d == 0 {
                    return None;
                }
                Some(Q::new(n.parse().ok()?, d))
            }
            None => Some(Q::int(s.parse().ok()?)),
        }
    }
}

impl fmt::Display for Q {
    fn fmt(&self, f: &mut fmt::Formatter<'_>) -> fmt::Result {
        if self.d == 1 {
            write!(f, "{}", self.n)
        } else {
            write!(f, "{}/{}", self.n, self.d)
        }
    }
}

/// what an exponent vector is indexed by
#[derive(Clone, PartialEq, Eq, PartialOrd, Ord, Hash, Debug)]
pub enum Atom {
    /// base dimension of the session (`Length`, …)
    Base(String),
    /// type parameter of the function being analysed (rigid inside its body)
    TPar(String),
    /// unknown of the analysis (dimension of an unannotated parameter, a literal zero, an instantiated
    /// quantified variable)
    Unk(usize),
    /// quantified variable of a finished scheme
    Q(usize),
}

/// exponent vector (finitely supported, zero entries never stored)
#[derive(Clone, PartialEq, Eq, PartialOrd, Ord, Hash, Debug, Default)]
pub struct V(pub BTreeMap<Atom, Q>);

impl V {
    pub fn zero() -> V {
        V(BTreeMap::new())
    }
    pub fn atom(a: Atom) -> V {
        let mut m = BTreeMap::new();
        m.insert(a, Q::one());
        V(m)
    }
    pub fn base(n: &str) -> V {
        V::atom(Atom::Base(n.to_string()))
    }
    pub fn of(parts: &[(&str, i128)]) -> V {
        let mut v = V::zero();
        for (n, e) in parts {
            v = v.add(&V::base(n).scale(Q::int(*e)));
        }
        v
    }
    pub fn is_zero(&self) -> bool {
        self.0.is_empty()
    }
    pub fn get(&self, a: &Atom) -> Q {
        self.0.get(a).copied().unwrap_or(Q::zero())
    }
    pub fn add(&self, o: &V) -> V {
        let mut m = self.0.clone();
        for (a, e) in &o.0 {
            let n = m.get(a).copied().unwrap_or(Q::zero()).add(*e);
            if n.is_zero() {
                m.remove(a);
            } else {
                m.insert(a.clone(), n);
            }
        }
        V(m)
    }
    pub fn scale(&self, k: Q) -> V {
        if k.is_zero() {
            return V::zero();
        }
        V(self.0.iter().map(|(a, e)| (a.clone(), e.mul(k))).collect())
    }
    pub fn sub(&self, o: &V) -> V {
        self.add(&o.scale(Q::int(-1)))
    }
    pub fn unknowns(&self) -> Vec<usize> {
        self.0
            .keys()
            .filter_map(|a| if let Atom::Unk(i) = a { Some(*i) } else { None })
            .collect()
    }
    pub fn has_unknowns(&self) -> bool {
        self.0.keys().any(|a| matches!(a, Atom::Unk(_)))
    }
    pub fn only_base(&self) -> bool {
        self.0.keys().all(|a| matches!(a, Atom::Base(_)))
    }
    /// replaces atoms by vectors (atoms not in the map stay)
    pub fn subst(&self, f: &dyn Fn(&Atom) -> Option<V>) -> V {
        let mut r = V::zero();
        for (a, e) in &self.0 {
            match f(a) {
                Some(v) => r = r.add(&v.scale(*e)),
                None => r = r.add(&V::atom(a.clone()).scale(*e)),
            }
        }
        r
    }
    pub fn show(&self) -> String {
        if self.is_zero() {
            return "1".into();
        }
        self.0
            .iter()
            .map(|(a, e)| {
                let n = match a {
                    Atom::Base(n) => n.clone(),
                    Atom::TPar(n) => format!("'{n}"),
                    Atom::Unk(i) => format!("?{i}"),
                    Atom::Q(i) => format!("q{i}"),
                };
                format!("{n}^{e}")
            })
            .collect::<Vec<_>>()
            .join(" ")
    }
}

// ------------------------------------------------------------------ S-expressions

#[derive(Clone, Debug, PartialEq)]
pub enum Sx {
    A(String),
    L(Vec<Sx>),
}

impl Sx {
    pub fn atom(&self) -> Option<&str> {
        if let Sx::A(s) = self { Some(s) } else { None }
    }
    pub fn list(&self) -> Option<&[Sx]> {
        if let Sx::L(v) = self { Some(v) } else { None }
    }
    pub fn head(&self) -> Option<&str> {
        self.list()?.first()?.atom()
    }
    pub fn text(&self) -> String {
        match self {
            Sx::A(s) => s.clone(),
            Sx::L(v) => format!("({})", v.iter().map(|x| x.text()).collect::<Vec<_>>().join(" ")),
        }
    }
    pub fn a(s: impl Into<String>) -> Sx {
        Sx::A(s.into())
    }
    pub fn l(head: &str, rest: Vec<Sx>) -> Sx {
        let mut v = vec![Sx::a(head)];
        v.extend(rest);
        Sx::L(v)
    }
}

/// reads all S-expressions of a line; atoms are maximal runs without whitespace and parentheses
pub fn read_sx(s: &str) -> Option<Vec<Sx>> {
    let mut stack: Vec<Vec<Sx>> = vec![vec![]];
    let mut cur = String::new();
    let flush = |cur: &mut String, stack: &mut Vec<Vec<Sx>>| {
        if !cur.is_empty() {
            stack.last_mut().unwrap().push(Sx::A(std::mem::take(cur)));
        }
    };
    for c in s.chars() {
        match c {
            '(' => {
                flush(&mut cur, &mut stack);
                stack.push(vec![]);
            }
            ')' => {
                flush(&mut cur, &mut stack);
                let top = stack.pop()?;
                stack.last_mut()?.push(Sx::L(top));
            }
            c if c.is_whitespace() => flush(&mut cur, &mut stack),
            c => cur.push(c),
        }
    }
    flush(&mut cur, &mut stack);
    if stack.len() != 1 {
        return None;
    }
    stack.pop()
}
