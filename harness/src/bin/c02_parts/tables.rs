//! hand-written physics tables of the oracle: dimensions of prelude units, named dimensions, and the
//! signatures of the generic library functions the generators call.  Nothing here is read from numbat's
//! type checker; `self_check` compares the unit table with what numbat's *run-time* unit registry says
//! (base-unit representation of the evaluated unit) so that a typo here cannot go unnoticed.
#![allow(dead_code)]
use super::oracle::*;
use super::q::*;

pub const L: &str = "Length";
pub const M: &str = "Mass";
pub const T: &str = "Time";
pub const I: &str = "Current";
pub const TH: &str = "Temperature";
pub const N: &str = "AmountOfSubstance";
pub const J: &str = "LuminousIntensity";

/// (unit as written, exponents over L M T I Θ N J)
pub const UNITS: &[(&str, [i128; 7])] = &[
    // length
    ("m", [1, 0, 0, 0, 0, 0, 0]),
    ("metre", [1, 0, 0, 0, 0, 0, 0]),
    ("meter", [1, 0, 0, 0, 0, 0, 0]),
    ("cm", [1, 0, 0, 0, 0, 0, 0]),
    ("mm", [1, 0, 0, 0, 0, 0, 0]),
    ("km", [1, 0, 0, 0, 0, 0, 0]),
    ("kilometre", [1, 0, 0, 0, 0, 0, 0]),
    ("inch", [1, 0, 0, 0, 0, 0, 0]),
    ("foot", [1, 0, 0, 0, 0, 0, 0]),
    ("ft", [1, 0, 0, 0, 0, 0, 0]),
    ("yard", [1, 0, 0, 0, 0, 0, 0]),
    ("mile", [1, 0, 0, 0, 0, 0, 0]),
    ("au", [1, 0, 0, 0, 0, 0, 0]),
    ("angstrom", [1, 0, 0, 0, 0, 0, 0]),
    // time
    ("s", [0, 0, 1, 0, 0, 0, 0]),
    ("second", [0, 0, 1, 0, 0, 0, 0]),
    ("ms", [0, 0, 1, 0, 0, 0, 0]),
    ("min", [0, 0, 1, 0, 0, 0, 0]),
    ("minute", [0, 0, 1, 0, 0, 0, 0]),
    ("hour", [0, 0, 1, 0, 0, 0, 0]),
    ("h", [0, 0, 1, 0, 0, 0, 0]),
    ("day", [0, 0, 1, 0, 0, 0, 0]),
    ("week", [0, 0, 1, 0, 0, 0, 0]),
    ("year", [0, 0, 1, 0, 0, 0, 0]),
    // mass
    ("kg", [0, 1, 0, 0, 0, 0, 0]),
    ("g", [0, 1, 0, 0, 0, 0, 0]),
    ("gram", [0, 1, 0, 0, 0, 0, 0]),
    ("mg", [0, 1, 0, 0, 0, 0, 0]),
    ("tonne", [0, 1, 0, 0, 0, 0, 0]),
    ("pound", [0, 1, 0, 0, 0, 0, 0]),
    ("lb", [0, 1, 0, 0, 0, 0, 0]),
    ("ounce", [0, 1, 0, 0, 0, 0, 0]),
    // other base quantities
    ("A", [0, 0, 0, 1, 0, 0, 0]),
    ("ampere", [0, 0, 0, 1, 0, 0, 0]),
    ("mA", [0, 0, 0, 1, 0, 0, 0]),
    ("K", [0, 0, 0, 0, 1, 0, 0]),
    ("kelvin", [0, 0, 0, 0, 1, 0, 0]),
    ("mol", [0, 0, 0, 0, 0, 1, 0]),
    ("mole", [0, 0, 0, 0, 0, 1, 0]),
    ("cd", [0, 0, 0, 0, 0, 0, 1]),
    ("candela", [0, 0, 0, 0, 0, 0, 1]),
    // mechanics
    ("N", [1, 1, -2, 0, 0, 0, 0]),
    ("newton", [1, 1, -2, 0, 0, 0, 0]),
    ("kN", [1, 1, -2, 0, 0, 0, 0]),
    ("J", [2, 1, -2, 0, 0, 0, 0]),
    ("joule", [2, 1, -2, 0, 0, 0, 0]),
    ("kJ", [2, 1, -2, 0, 0, 0, 0]),
    ("cal", [2, 1, -2, 0, 0, 0, 0]),
    ("kcal", [2, 1, -2, 0, 0, 0, 0]),
    ("eV", [2, 1, -2, 0, 0, 0, 0]),
    ("kWh", [2, 1, -2, 0, 0, 0, 0]),
    ("BTU", [2, 1, -2, 0, 0, 0, 0]),
    ("W", [2, 1, -3, 0, 0, 0, 0]),
    ("watt", [2, 1, -3, 0, 0, 0, 0]),
    ("kW", [2, 1, -3, 0, 0, 0, 0]),
    ("horsepower", [2, 1, -3, 0, 0, 0, 0]),
    ("Pa", [-1, 1, -2, 0, 0, 0, 0]),
    ("pascal", [-1, 1, -2, 0, 0, 0, 0]),
    ("kPa", [-1, 1, -2, 0, 0, 0, 0]),
    ("bar", [-1, 1, -2, 0, 0, 0, 0]),
    ("atm", [-1, 1, -2, 0, 0, 0, 0]),
    ("psi", [-1, 1, -2, 0, 0, 0, 0]),
    ("Hz", [0, 0, -1, 0, 0, 0, 0]),
    ("hertz", [0, 0, -1, 0, 0, 0, 0]),
    ("kHz", [0, 0, -1, 0, 0, 0, 0]),
    ("rpm", [0, 0, -1, 0, 0, 0, 0]),
    ("Bq", [0, 0, -1, 0, 0, 0, 0]),
    ("L", [3, 0, 0, 0, 0, 0, 0]),
    ("litre", [3, 0, 0, 0, 0, 0, 0]),
    ("liter", [3, 0, 0, 0, 0, 0, 0]),
    ("mL", [3, 0, 0, 0, 0, 0, 0]),
    ("gallon", [3, 0, 0, 0, 0, 0, 0]),
    ("hectare", [2, 0, 0, 0, 0, 0, 0]),
    ("acre", [2, 0, 0, 0, 0, 0, 0]),
    ("kph", [1, 0, -1, 0, 0, 0, 0]),
    ("mph", [1, 0, -1, 0, 0, 0, 0]),
    ("knot", [1, 0, -1, 0, 0, 0, 0]),
    ("gravity", [1, 0, -2, 0, 0, 0, 0]),
    ("Gy", [2, 0, -2, 0, 0, 0, 0]),
    ("Sv", [2, 0, -2, 0, 0, 0, 0]),
    // electromagnetism
    ("C", [0, 0, 1, 1, 0, 0, 0]),
    ("coulomb", [0, 0, 1, 1, 0, 0, 0]),
    ("Ah", [0, 0, 1, 1, 0, 0, 0]),
    ("V", [2, 1, -3, -1, 0, 0, 0]),
    ("volt", [2, 1, -3, -1, 0, 0, 0]),
    ("mV", [2, 1, -3, -1, 0, 0, 0]),
    ("ohm", [2, 1, -3, -2, 0, 0, 0]),
    ("Ω", [2, 1, -3, -2, 0, 0, 0]),
    ("siemens", [-2, -1, 3, 2, 0, 0, 0]),
    ("F", [-2, -1, 4, 2, 0, 0, 0]),
    ("farad", [-2, -1, 4, 2, 0, 0, 0]),
    ("T", [0, 1, -2, -1, 0, 0, 0]),
    ("tesla", [0, 1, -2, -1, 0, 0, 0]),
    ("Wb", [2, 1, -2, -1, 0, 0, 0]),
    ("weber", [2, 1, -2, -1, 0, 0, 0]),
    ("H", [2, 1, -2, -2, 0, 0, 0]),
    ("henry", [2, 1, -2, -2, 0, 0, 0]),
    // chemistry / light
    ("kat", [0, 0, -1, 0, 0, 1, 0]),
    ("molar", [-3, 0, 0, 0, 0, 1, 0]),
    ("lm", [0, 0, 0, 0, 0, 0, 1]),
    ("lx", [-2, 0, 0, 0, 0, 0, 1]),
    // dimensionless
    ("percent", [0, 0, 0, 0, 0, 0, 0]),
    ("rad", [0, 0, 0, 0, 0, 0, 0]),
    ("deg", [0, 0, 0, 0, 0, 0, 0]),
    ("degree", [0, 0, 0, 0, 0, 0, 0]),
    ("dozen", [0, 0, 0, 0, 0, 0, 0]),
    ("ppm", [0, 0, 0, 0, 0, 0, 0]),
];

pub const AXES: [&str; 7] = [L, M, T, I, TH, N, J];

/// numbat's base units (run-time registry names) and the axis each measures
pub const BASE_UNITS: &[(&str, &str)] = &[
    ("metre", L),
    ("gram", M),
    ("second", T),
    ("ampere", I),
    ("kelvin", TH),
    ("mole", N),
    ("candela", J),
];

/// (dimension name, exponents over L M T I Θ N J)
pub const DIMS: &[(&str, [i128; 7])] = &[
    ("Scalar", [0, 0, 0, 0, 0, 0, 0]),
    ("Angle", [0, 0, 0, 0, 0, 0, 0]),
    ("Length", [1, 0, 0, 0, 0, 0, 0]),
    ("Area", [2, 0, 0, 0, 0, 0, 0]),
    ("Volume", [3, 0, 0, 0, 0, 0, 0]),
    ("Wavenumber", [-1, 0, 0, 0, 0, 0, 0]),
    ("Time", [0, 0, 1, 0, 0, 0, 0]),
    ("Frequency", [0, 0, -1, 0, 0, 0, 0]),
    ("Velocity", [1, 0, -1, 0, 0, 0, 0]),
    ("Acceleration", [1, 0, -2, 0, 0, 0, 0]),
    ("Jerk", [1, 0, -3, 0, 0, 0, 0]),
    ("FlowRate", [3, 0, -1, 0, 0, 0, 0]),
    ("Mass", [0, 1, 0, 0, 0, 0, 0]),
    ("Momentum", [1, 1, -1, 0, 0, 0, 0]),
    ("Force", [1, 1, -2, 0, 0, 0, 0]),
    ("Energy", [2, 1, -2, 0, 0, 0, 0]),
    ("Power", [2, 1, -3, 0, 0, 0, 0]),
    ("Pressure", [-1, 1, -2, 0, 0, 0, 0]),
    ("Action", [2, 1, -1, 0, 0, 0, 0]),
    ("MassDensity", [-3, 1, 0, 0, 0, 0, 0]),
    ("EnergyDensity", [-1, 1, -2, 0, 0, 0, 0]),
    ("MassFlow", [0, 1, -1, 0, 0, 0, 0]),
    ("Current", [0, 0, 0, 1, 0, 0, 0]),
    ("ElectricCharge", [0, 0, 1, 1, 0, 0, 0]),
    ("Voltage", [2, 1, -3, -1, 0, 0, 0]),
    ("Capacitance", [-2, -1, 4, 2, 0, 0, 0]),
    ("ElectricResistance", [2, 1, -3, -2, 0, 0, 0]),
    ("ElectricConductance", [-2, -1, 3, 2, 0, 0, 0]),
    ("MagneticFluxDensity", [0, 1, -2, -1, 0, 0, 0]),
    ("MagneticFlux", [2, 1, -2, -1, 0, 0, 0]),
    ("Inductance", [2, 1, -2, -2, 0, 0, 0]),
    ("Temperature", [0, 0, 0, 0, 1, 0, 0]),
    ("Entropy", [2, 1, -2, 0, -1, 0, 0]),
    ("AmountOfSubstance", [0, 0, 0, 0, 0, 1, 0]),
    ("MolarMass", [0, 1, 0, 0, 0, -1, 0]),
    ("Molarity", [-3, 0, 0, 0, 0, 1, 0]),
    ("LuminousIntensity", [0, 0, 0, 0, 0, 0, 1]),
    ("Illuminance", [-2, 0, 0, 0, 0, 0, 1]),
    ("KinematicViscosity", [2, 0, -1, 0, 0, 0, 0]),
    ("DynamicViscosity", [-1, 1, -1, 0, 0, 0, 0]),
];

pub fn vec7(e: &[i128; 7]) -> V {
    let mut v = V::zero();
    for (i, x) in e.iter().enumerate() {
        if *x != 0 {
            v = v.add(&V::base(AXES[i]).scale(Q::int(*x)));
        }
    }
    v
}

fn q(i: usize) -> V {
    V::atom(Atom::Q(i))
}
fn d(v: V) -> Ty {
    Ty::D(v)
}
fn l(v: V) -> Ty {
    Ty::L(Box::new(Ty::D(v)))
}
fn f(ps: Vec<Ty>, r: Ty) -> Ty {
    Ty::F(ps, Box::new(r))
}

/// generic library functions (name, scheme); all quantified variables carry a `Dim` bound unless noted
pub fn library() -> Vec<(&'static str, Scheme)> {
    let s1 = |ty: Ty| Scheme { nq: 1, dim: vec![true], ty };
    vec![
        ("sqrt", s1(f(vec![d(q(0).scale(Q::int(2)))], d(q(0))))),
        ("cbrt", s1(f(vec![d(q(0).scale(Q::int(3)))], d(q(0))))),
        ("sqr", s1(f(vec![d(q(0))], d(q(0).scale(Q::int(2)))))),
        ("abs", s1(f(vec![d(q(0))], d(q(0))))),
        ("round_in", s1(f(vec![d(q(0)), d(q(0))], d(q(0))))),
        ("floor_in", s1(f(vec![d(q(0)), d(q(0))], d(q(0))))),
        ("mod", s1(f(vec![d(q(0)), d(q(0))], d(q(0))))),
        ("hypot2", s1(f(vec![d(q(0)), d(q(0))], d(q(0))))),
        ("hypot3", s1(f(vec![d(q(0)), d(q(0)), d(q(0))], d(q(0))))),
        ("circle_area", s1(f(vec![d(q(0))], d(q(0).scale(Q::int(2)))))),
        ("sphere_volume", s1(f(vec![d(q(0))], d(q(0).scale(Q::int(3)))))),
        ("value_of", s1(f(vec![d(q(0))], Ty::scalar()))),
        ("unit_of", s1(f(vec![d(q(0))], d(q(0))))),
        ("sum", s1(f(vec![l(q(0))], d(q(0))))),
        ("mean", s1(f(vec![l(q(0))], d(q(0))))),
        ("maximum", s1(f(vec![l(q(0))], d(q(0))))),
        ("minimum", s1(f(vec![l(q(0))], d(q(0))))),
        ("variance", s1(f(vec![l(q(0))], d(q(0).scale(Q::int(2)))))),
        ("stdev", s1(f(vec![l(q(0))], d(q(0))))),
        // head/len quantify over arbitrary types (no Dim bound)
        ("head", Scheme { nq: 1, dim: vec![false], ty: f(vec![l(q(0))], d(q(0))) }),
        ("len", Scheme { nq: 1, dim: vec![false], ty: f(vec![l(q(0))], Ty::scalar()) }),
        ("round", Scheme::mono(f(vec![Ty::scalar()], Ty::scalar()))),
        ("floor", Scheme::mono(f(vec![Ty::scalar()], Ty::scalar()))),
        ("exp", Scheme::mono(f(vec![Ty::scalar()], Ty::scalar()))),
        ("sin", Scheme::mono(f(vec![Ty::scalar()], Ty::scalar()))),
    ]
}

pub fn prelude_world() -> World {
    let mut w = World::default();
    for (n, e) in UNITS {
        w.units.insert(n.to_string(), vec7(e));
    }
    for (n, e) in DIMS {
        w.dims.insert(n.to_string(), vec7(e));
    }
    for (n, s) in library() {
        w.fns.insert(n.to_string(), s);
    }
    w
}
