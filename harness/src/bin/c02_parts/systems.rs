//! random constraint systems for the real `ConstraintSet::solve` (text form of numbat/src/verif/c02.rs)
#![allow(dead_code)]
use super::q::*;
use nvh::Rng;

const BASES: [&str; 3] = ["b:Length", "b:Mass", "b:Time"];
const TPARS: [&str; 2] = ["p:D", "p:E"];

fn var(i: usize) -> String {
    // T10, T11 sort before T2 as strings: the ordering quirk is part of the canonical form
    let names = ["T0", "T1", "T2", "T3", "T10", "T11", "T4", "T5"];
    format!("v:{}", names[i % names.len()])
}

fn coeff(rng: &mut Rng) -> Q {
    let cs = [(1, 1), (1, 1), (-1, 1), (2, 1), (-2, 1), (3, 1), (1, 2), (-1, 2), (1, 3), (2, 3), (3, 2), (-3, 1)];
    let (n, d) = *rng.pick(&cs);
    Q::new(n, d)
}

/// a linear form: factor text → exponent
type Form = Vec<(String, Q)>;

fn add_to(f: &mut Form, k: &str, e: Q) {
    if let Some(x) = f.iter_mut().find(|(n, _)| n == k) {
        x.1 = x.1.add(e);
    } else {
        f.push((k.to_string(), e));
    }
}

fn form_text(f: &Form) -> String {
    f.iter().map(|(n, e)| format!("{}^{}", n, e.wire())).collect::<Vec<_>>().join(" ")
}

fn dtype_text(f: &Form) -> String {
    if f.is_empty() { "(d)".into() } else { format!("(d {})", form_text(f)) }
}

fn rigid(rng: &mut Rng) -> Form {
    let mut f = Form::new();
    let n = rng.below(3);
    for _ in 0..n {
        let k = if rng.chance(1, 4) { *rng.pick(&TPARS) } else { *rng.pick(&BASES) };
        add_to(&mut f, k, coeff(rng));
    }
    f
}

/// one equation Σ c_i v_i + r = 0 written in one of the syntactic shapes the elaborator produces
fn equation_text(rng: &mut Rng, f: &Form) -> String {
    let mut f = f.clone();
    rng.shuffle(&mut f);
    // single variable with exponent 1 on one side
    if let Some(pos) = f.iter().position(|(n, e)| n.starts_with("v:") && *e == Q::one()) {
        if rng.chance(1, 3) {
            let (v, _) = f.remove(pos);
            let rest: Form = f.iter().map(|(n, e)| (n.clone(), e.neg())).collect();
            return if rng.chance(1, 2) {
                format!("(eq {} {})", v, dtype_text(&rest))
            } else {
                format!("(eq {} {})", dtype_text(&rest), v)
            };
        }
    }
    match rng.below(3) {
        0 => format!("(es {})", form_text(&f)),
        _ => {
            let cut = rng.below(f.len() + 1);
            let lhs: Form = f[..cut].to_vec();
            let rhs: Form = f[cut..].iter().map(|(n, e)| (n.clone(), e.neg())).collect();
            format!("(eq {} {})", dtype_text(&lhs), dtype_text(&rhs))
        }
    }
}

fn rand_type(rng: &mut Rng, nv: usize, depth: usize) -> String {
    match rng.below(if depth == 0 { 6 } else { 9 }) {
        0 | 1 => var(rng.below(nv)),
        2 => "B".into(),
        3 => "S".into(),
        4 => dtype_text(&rigid(rng)),
        5 => {
            let mut f = rigid(rng);
            add_to(&mut f, &var(rng.below(nv)), coeff(rng));
            f.retain(|(_, e)| !e.is_zero());
            dtype_text(&f)
        }
        6 => format!("(l {})", rand_type(rng, nv, depth - 1)),
        7 => {
            let n = rng.below(3);
            let ps: Vec<String> = (0..n).map(|_| rand_type(rng, nv, depth - 1)).collect();
            format!("(fn {} -> {})", ps.join(" "), rand_type(rng, nv, depth - 1)).replace("(fn  ->", "(fn ->")
        }
        _ => format!(
            "(st P () (x {}) (y {}))",
            rand_type(rng, nv, depth - 1),
            rand_type(rng, nv, depth - 1)
        ),
    }
}

/// second type built to unify with the first in most cases: same skeleton, some leaves replaced by variables
fn similar_type(rng: &mut Rng, nv: usize, t: &str) -> String {
    let Some(sx) = read_sx(t) else { return t.to_string() };
    fn go(rng: &mut Rng, nv: usize, s: &Sx, top: bool) -> Sx {
        if !top && rng.chance(1, 4) {
            return Sx::a(var(rng.below(nv)));
        }
        match s {
            Sx::A(_) => s.clone(),
            Sx::L(v) => match v.first().and_then(|h| h.atom()) {
                Some("d") => s.clone(),
                Some("st") => {
                    let mut w = v.clone();
                    for f in w.iter_mut().skip(3) {
                        if let Sx::L(fv) = f {
                            if fv.len() == 2 {
                                fv[1] = go(rng, nv, &fv[1].clone(), false);
                            }
                        }
                    }
                    Sx::L(w)
                }
                _ => Sx::L(
                    v.iter()
                        .enumerate()
                        .map(|(i, x)| if i == 0 || x.atom() == Some("->") { x.clone() } else { go(rng, nv, x, false) })
                        .collect(),
                ),
            },
        }
    }
    go(rng, nv, &sx[0], true).text()
}

pub struct System {
    pub text: String,
    pub shape: &'static str,
    pub size: usize,
}

pub fn gen_system(rng: &mut Rng) -> System {
    let nv = 1 + rng.below(8);
    let m = 1 + rng.below(8);
    let mut cs: Vec<String> = Vec::new();
    let shape_k = rng.below(100);
    let shape: &'static str = match shape_k {
        0..=39 => "linear_planted",
        40..=54 => "linear_random",
        55..=69 => "structural",
        70..=77 => "occurs",
        78..=84 => "clash",
        85..=90 => "subst_error",
        _ => "has_field",
    };
    // planted values of the variables
    let planted: Vec<Form> = (0..nv).map(|_| rigid(rng)).collect();
    let linear = |rng: &mut Rng, planted_ok: bool| -> String {
        let k = 1 + rng.below(4.min(nv));
        let mut f = Form::new();
        let mut r = Form::new();
        for _ in 0..k {
            let i = rng.below(nv);
            let c = coeff(rng);
            add_to(&mut f, &var(i), c);
            for (n, e) in &planted[i] {
                add_to(&mut r, n, e.mul(c).neg());
            }
        }
        if !planted_ok {
            r = rigid(rng);
        }
        for (n, e) in r {
            add_to(&mut f, &n, e);
        }
        f.retain(|(_, e)| !e.is_zero());
        equation_text(rng, &f)
    };
    match shape {
        "linear_planted" => {
            for _ in 0..m {
                cs.push(linear(rng, true));
            }
        }
        "linear_random" => {
            for _ in 0..m {
                let ok = rng.chance(2, 3);
                cs.push(linear(rng, ok));
            }
        }
        "structural" => {
            for _ in 0..m.min(4) {
                let t = rand_type(rng, nv, 2);
                let u = similar_type(rng, nv, &t);
                cs.push(if rng.chance(1, 2) { format!("(eq {t} {u})") } else { format!("(eq {u} {t})") });
            }
            if rng.chance(1, 2) {
                cs.push(linear(rng, true));
            }
        }
        "occurs" => {
            let v = var(rng.below(nv));
            let w = var(rng.below(nv));
            let c = coeff(rng).wire();
            let forms = [
                format!("(eq {v} (l {v}))"),
                format!("(eq (fn {v} -> B) {v})"),
                format!("(eq {v} (d {v}^{c}))"),
                format!("(eq (d {v}^1/1 {w}^{c}) {v})"),
                format!("(eq {v} (l (d {v}^1/1 b:Time^1/1)))"),
                format!("(eq (d {v}^1/1) (fn {v} -> {w}))"),
                format!("(eq {v} {v})"),
                format!("(eq (d {v}^1/1) {v})"),
            ];
            cs.push(rng.pick(&forms).clone());
            for _ in 0..rng.below(3) {
                cs.push(linear(rng, true));
            }
        }
        "clash" => {
            let forms = [
                "(eq B S)".to_string(),
                "(eq (l B) (d))".to_string(),
                format!("(eq (fn {} -> B) (fn B B -> B))", var(0)),
                format!("(eq (l {}) (fn -> B))", var(0)),
                "(eq (d b:Length^1/1) (d b:Time^1/1))".to_string(),
                "(isd B)".to_string(),
                format!("(eq {} B) (isd {})", var(0), var(0)),
                "(es b:Length^1/1 p:D^-1/1)".to_string(),
                "(eq (st P () (x B)) (st R () (x B)))".to_string(),
                "(eq T S)".to_string(),
            ];
            for _ in 0..rng.below(2) {
                cs.push(linear(rng, true));
            }
            cs.push(rng.pick(&forms).clone());
            for _ in 0..rng.below(2) {
                cs.push(linear(rng, true));
            }
        }
        "subst_error" => {
            let v = var(rng.below(nv));
            let c = *rng.pick(&["2/1", "1/2", "-1/1"]);
            let bad = *rng.pick(&["B", "S", "(l B)", "(fn -> B)", "p:D"]);
            let mut parts = vec![format!("(eq {v} {bad})"), format!("(es {v}^{c} b:Length^1/1 {}^1/1)", var(rng.below(nv) + 1))];
            if rng.chance(1, 2) {
                parts.reverse();
            }
            cs.extend(parts);
        }
        _ => {
            let st = format!("(st P () (x {}) (y {}))", rand_type(rng, nv, 1), rand_type(rng, nv, 1));
            let f = *rng.pick(&["x", "y", "z"]);
            let v = var(rng.below(nv));
            let w = var(rng.below(nv));
            match rng.below(3) {
                0 => cs.push(format!("(hf {st} {f} {v})")),
                1 => {
                    cs.push(format!("(hf {w} {f} {v})"));
                    cs.push(format!("(eq {w} {st})"));
                }
                _ => {
                    cs.push(format!("(eq {w} {st})"));
                    cs.push(format!("(hf {w} {f} {v})"));
                    cs.push(linear(rng, true));
                }
            }
        }
    }
    // dtype constraints on some variables / types
    for i in 0..nv {
        if rng.chance(1, 3) {
            let at = rng.below(cs.len() + 1);
            cs.insert(at, format!("(isd {})", var(i)));
        }
    }
    if rng.chance(1, 6) {
        cs.push("(isd p:D)".into());
    }
    if rng.chance(1, 6) {
        let mut f = rigid(rng);
        add_to(&mut f, &var(rng.below(nv)), coeff(rng));
        f.retain(|(_, e)| !e.is_zero());
        cs.push(format!("(isd {})", dtype_text(&f)));
    }
    if rng.chance(1, 5) {
        // closed dimension types, with and without type parameters (`fn f<D>(x: D) = -x`: the bound is checked by
        // the solver, not dropped as trivial)
        let forms = ["(isd (d p:D^1/1))", "(isd (d p:D^2/1 b:Length^-1/1))", "(isd (d p:A^1/2 p:D^1/1))", "(isd (d b:Length^1/1))", "(isd (d))"];
        let at = rng.below(cs.len() + 1);
        cs.insert(at, rng.pick(&forms).to_string());
    }
    System { text: cs.join(" "), shape, size: cs.len() }
}

/// raw factor lists for the `DType` algebra stream
pub fn gen_dtype_op(rng: &mut Rng) -> String {
    let raw = |rng: &mut Rng| -> String {
        let n = rng.below(6);
        let atoms = ["v:T0", "v:T1", "v:T10", "v:T2", "q:0", "q:1", "q:10", "b:Length", "b:Mass", "b:Time", "p:D", "p:A", "b:A"];
        (0..n)
            .map(|_| format!("{}^{}", rng.pick(&atoms), coeff(rng).wire()))
            .collect::<Vec<_>>()
            .join(" ")
    };
    match rng.below(4) {
        0 => format!("canon {}", raw(rng)),
        1 => format!("mul {} | {}", raw(rng), raw(rng)),
        2 => format!("div {} | {}", raw(rng), raw(rng)),
        _ => format!("pow {} {}", coeff(rng).wire(), raw(rng)),
    }
}
