//! type-directed generator of mostly well-dimensioned programs, and the mis-dimensioning mutators
#![allow(dead_code)]
use super::ast::*;
use super::oracle::*;
use super::q::*;
use super::tables::*;
use nvh::Rng;

pub const POW_EXPS: &[(i128, i128)] = &[(2, 1), (3, 1), (-1, 1), (-2, 1), (1, 2), (1, 3), (3, 2), (2, 3), (-1, 2)];

pub struct Gen<'a> {
    pub rng: &'a mut Rng,
    pub w: World,
    /// names of functions defined by the program so far
    pub user_fns: Vec<String>,
    /// dimension names defined by the program so far
    pub user_dims: Vec<String>,
    counter: usize,
    /// parameters in scope with the dimension the generator intends them to have (type parameters and
    /// unannotated parameters are symbolic axes `Atom::TPar`)
    locals: Vec<(String, Ty)>,
    pub allow_zero: bool,
    /// no list expressions, no `n^(expr)`, no calls of user functions (the body fragment of C16)
    pub plain: bool,
    /// the intended parameter types of the function `gen_fn_plain` produced last
    pub last_intents: Vec<(String, Ty)>,
}

fn letters(mut n: usize) -> String {
    let mut s = String::new();
    loop {
        s.push((b'a' + (n % 26) as u8) as char);
        n /= 26;
        if n == 0 {
            break;
        }
    }
    s
}

pub fn pool() -> Vec<V> {
    let names = [
        "Scalar", "Length", "Time", "Mass", "Velocity", "Area", "Force", "Energy", "Frequency", "Current",
        "Power", "Pressure", "Volume", "Acceleration", "Temperature", "ElectricCharge", "Voltage", "Momentum",
    ];
    names
        .iter()
        .map(|n| vec7(&DIMS.iter().find(|(m, _)| m == n).unwrap().1))
        .collect()
}

impl<'a> Gen<'a> {
    pub fn new(rng: &'a mut Rng, w: World) -> Gen<'a> {
        Gen { rng, w, user_fns: vec![], user_dims: vec![], counter: 0, locals: vec![], allow_zero: true, plain: false, last_intents: vec![] }
    }
    pub fn name(&mut self, prefix: &str) -> String {
        let n = format!("{}{}", prefix, letters(self.counter));
        self.counter += 1;
        n
    }
    fn num(&mut self) -> String {
        let xs = ["2", "3", "5", "1.5", "0.25", "7", "10", "12", "1"];
        self.rng.pick(&xs).to_string()
    }
    pub fn rand_dim(&mut self) -> V {
        let p = pool();
        let a = self.rng.pick(&p).clone();
        match self.rng.below(10) {
            0 => a.scale(Q::int(-1)),
            1 => a.add(self.rng.pick(&p)),
            2 => a.sub(self.rng.pick(&p)),
            // rational exponents (annotations such as `Length^(1/2)`, `Time^(-3/2)`)
            3 => {
                let (n, d) = *self.rng.pick(&[(1i128, 2i128), (1, 2), (3, 2), (1, 3), (-1, 2), (2, 3), (5, 2)]);
                a.scale(Q::new(n, d))
            }
            _ => a,
        }
    }

    /// a unit expression (no number) of base-only dimension `v`
    pub fn unit_expr(&mut self, v: &V) -> E {
        let named: Vec<&String> = self.w.units.iter().filter(|(_, d)| *d == v).map(|(n, _)| n).collect();
        if !named.is_empty() && (v.is_zero() || self.rng.chance(3, 4)) {
            return E::Unit((*self.rng.pick(&named)).clone());
        }
        if v.is_zero() {
            return E::Unit("percent".into());
        }
        // product of powers of one unit per axis
        let mut num: Option<E> = None;
        let mut den: Option<E> = None;
        for (a, e) in &v.0 {
            let axis = V::atom(a.clone());
            let cands: Vec<&String> = self.w.units.iter().filter(|(_, d)| **d == axis).map(|(n, _)| n).collect();
            if cands.is_empty() {
                // an axis without a unit (cannot happen for the tables in use)
                continue;
            }
            let u = E::Unit((*self.rng.pick(&cands)).clone());
            let (abs, neg) = if e.n < 0 { (e.neg(), true) } else { (*e, false) };
            let f = if abs == Q::one() { u } else { E::Pow(Box::new(u), abs, false) };
            let slot = if neg { &mut den } else { &mut num };
            *slot = Some(match slot.take() {
                Some(x) => E::Bin(Op::Mul, Box::new(x), Box::new(f)),
                None => f,
            });
        }
        match (num, den) {
            (Some(n), Some(d)) => E::Bin(Op::Div, Box::new(n), Box::new(d)),
            (Some(n), None) => n,
            (None, Some(d)) => E::Pow(Box::new(d), Q::int(-1), false),
            (None, None) => E::Unit("percent".into()),
        }
    }

    /// a leaf-like expression of dimension `v` (which may mention symbolic axes of parameters)
    pub fn leaf(&mut self, v: &V) -> E {
        // symbolic part through the parameters
        let mut rest = v.clone();
        let mut factors: Vec<E> = Vec::new();
        let sym: Vec<(Atom, Q)> = v.0.iter().filter(|(a, _)| matches!(a, Atom::TPar(_))).map(|(a, e)| (a.clone(), *e)).collect();
        for (a, e) in sym {
            // a parameter whose intended dimension involves this axis
            // (a list-typed parameter contributes through `head`/`sum`/`maximum`/`mean` of it)
            let cands: Vec<(String, V, bool)> = self
                .locals
                .iter()
                .filter_map(|(n, t)| match t {
                    Ty::D(pv) if !pv.get(&a).is_zero() => Some((n.clone(), pv.clone(), false)),
                    Ty::L(el) => match &**el {
                        Ty::D(pv) if !pv.get(&a).is_zero() => Some((n.clone(), pv.clone(), true)),
                        _ => None,
                    },
                    _ => None,
                })
                .collect();
            if cands.is_empty() {
                continue;
            }
            if rest.get(&a).is_zero() {
                continue;
            }
            let (n, pv, is_list) = self.rng.pick(&cands).clone();
            let k = rest.get(&a).div(pv.get(&a));
            let _ = e;
            rest = rest.sub(&pv.scale(k));
            let p = if is_list {
                let f = *self.rng.pick(&["head", "sum", "maximum", "mean", "head"]);
                E::Call(f.into(), vec![E::Var(n)])
            } else {
                E::Var(n)
            };
            factors.push(if k == Q::one() { p } else { E::Pow(Box::new(p), k, false) });
        }
        // whatever symbolic axes are still left (parameters with mixed intents): use primaries
        let left: Vec<(Atom, Q)> = rest.0.iter().filter(|(a, _)| matches!(a, Atom::TPar(_))).map(|(a, e)| (a.clone(), *e)).collect();
        for (a, e) in left {
            let prim = self.locals.iter().find(|(_, t)| matches!(t, Ty::D(pv) if *pv == V::atom(a.clone())));
            if let Some((n, _)) = prim {
                let p = E::Var(n.clone());
                factors.push(if e == Q::one() { p } else { E::Pow(Box::new(p), e, false) });
                rest = rest.sub(&V::atom(a.clone()).scale(e));
            }
        }
        // base part
        let base: E = {
            let vars: Vec<String> = self
                .w
                .vars
                .iter()
                .filter(|(_, s)| s.nq == 0 && s.ty == Ty::D(rest.clone()))
                .map(|(n, _)| n.clone())
                .chain(self.locals.iter().filter(|(_, t)| *t == Ty::D(rest.clone())).map(|(n, _)| n.clone()))
                .collect();
            if !vars.is_empty() && self.rng.chance(2, 5) {
                E::Var(self.rng.pick(&vars).clone())
            } else if rest.is_zero() && (factors.is_empty() || self.rng.chance(1, 2)) && self.rng.chance(4, 5) {
                E::Num(self.num())
            } else {
                let n = E::Num(self.num());
                let u = self.unit_expr(&rest);
                E::Bin(Op::Mul, Box::new(n), Box::new(u))
            }
        };
        let mut e = base;
        for f in factors {
            e = E::Bin(Op::Mul, Box::new(e), Box::new(f));
        }
        e
    }

    fn scale_ok(&self, v: &V, k: Q) -> bool {
        // keep exponents small and denominators tame
        v.scale(k).0.values().all(|q| q.d <= 6 && q.n.abs() <= 12)
    }

    pub fn expr(&mut self, target: &Ty, depth: usize) -> E {
        match target {
            Ty::D(v) => self.dexpr(&v.clone(), depth),
            Ty::B => {
                let d = self.rand_dim();
                let ops = [Cmp::Lt, Cmp::Le, Cmp::Gt, Cmp::Ge, Cmp::Eq, Cmp::Ne];
                let c = *self.rng.pick(&ops);
                let dd = depth.saturating_sub(1);
                E::Cmp(c, Box::new(self.dexpr(&d, dd)), Box::new(self.dexpr(&d, dd)))
            }
            Ty::L(t) => {
                let n = 1 + self.rng.below(3);
                let t = (**t).clone();
                E::List((0..n).map(|_| self.expr(&t, depth.saturating_sub(1))).collect())
            }
            Ty::S => E::Str("text".into()),
            Ty::F(..) => E::Str("unsupported".into()),
        }
    }

    fn call_user(&mut self, v: &V, depth: usize) -> Option<E> {
        if self.user_fns.is_empty() {
            return None;
        }
        let f = self.rng.pick(&self.user_fns).clone();
        let s = self.w.fns.get(&f)?.clone();
        let Ty::F(ps, r) = &s.ty else { return None };
        let Ty::D(rv) = &**r else { return None };
        // choose an instantiation with result `v`
        let mut inst: Vec<Option<V>> = vec![None; s.nq];
        let pivot = (0..s.nq).find(|i| !rv.get(&Atom::Q(*i)).is_zero());
        for i in 0..s.nq {
            if Some(i) != pivot {
                inst[i] = Some(if s.dim[i] || true { self.rand_dim() } else { V::zero() });
            }
        }
        let apply = |x: &V, inst: &Vec<Option<V>>| -> V {
            x.subst(&|a: &Atom| if let Atom::Q(i) = a { inst[*i].clone() } else { None })
        };
        match pivot {
            Some(pi) => {
                let c = rv.get(&Atom::Q(pi));
                let mut partial = inst.clone();
                partial[pi] = Some(V::zero());
                let without = apply(rv, &partial);
                let val = v.sub(&without).scale(Q::one().div(c));
                if !self.scale_ok(&val, Q::one()) {
                    return None;
                }
                inst[pi] = Some(val);
            }
            None => {
                if rv != v {
                    return None;
                }
            }
        }
        let mut args = Vec::new();
        for p in ps {
            let pt = p.map_v(&|x: &V| apply(x, &inst));
            args.push(self.expr(&pt, depth.saturating_sub(1)));
        }
        Some(E::Call(f, args))
    }

    pub fn dexpr(&mut self, v: &V, depth: usize) -> E {
        if depth == 0 {
            return self.leaf(v);
        }
        let d = depth - 1;
        let r = self.rng.below(100);
        match r {
            0..=15 => {
                let op = if self.rng.chance(1, 2) { Op::Add } else { Op::Sub };
                E::Bin(op, Box::new(self.dexpr(v, d)), Box::new(self.dexpr(v, d)))
            }
            16..=27 => {
                let x = self.rand_dim_local();
                E::Bin(Op::Mul, Box::new(self.dexpr(&x, d)), Box::new(self.dexpr(&v.sub(&x), d)))
            }
            28..=37 => {
                let x = self.rand_dim_local();
                E::Bin(Op::Div, Box::new(self.dexpr(&v.add(&x), d)), Box::new(self.dexpr(&x, d)))
            }
            38..=47 => {
                let (n, dd) = *self.rng.pick(POW_EXPS);
                let q = Q::new(n, dd);
                let inv = Q::one().div(q);
                if self.scale_ok(v, inv) {
                    let dec = q.d == 2 && self.rng.chance(1, 3);
                    E::Pow(Box::new(self.dexpr(&v.scale(inv), d)), q, dec)
                } else {
                    self.leaf(v)
                }
            }
            48..=50 => E::Neg(Box::new(self.dexpr(v, d))),
            51..=56 => {
                if v.only_base() {
                    let u = self.unit_expr(v);
                    E::Bin(Op::Conv, Box::new(self.dexpr(v, d)), Box::new(u))
                } else {
                    self.leaf(v)
                }
            }
            57..=64 => {
                let c = self.expr(&Ty::B, d);
                E::If(Box::new(c), Box::new(self.dexpr(v, d)), Box::new(self.dexpr(v, d)))
            }
            65..=78 => self.call_lib(v, d),
            79..=88 if !self.plain => match self.call_user(v, d) {
                Some(e) => e,
                None => self.call_lib(v, d),
            },
            89..=90 if !self.plain => {
                if v.is_zero() {
                    let n = self.num();
                    E::PowE(n, Box::new(self.dexpr(&V::zero(), d)))
                } else {
                    self.leaf(v)
                }
            }
            91..=93 => {
                if self.allow_zero {
                    E::Bin(Op::Add, Box::new(self.dexpr(v, d)), Box::new(E::Zero))
                } else {
                    self.leaf(v)
                }
            }
            94..=95 => {
                // a plain number over something: the reciprocal (`1 / period`)
                let n = self.num();
                E::Bin(Op::Div, Box::new(E::Num(n)), Box::new(self.dexpr(&v.scale(Q::int(-1)), d)))
            }
            96..=97 => {
                // anything to the power zero is dimensionless
                if v.is_zero() {
                    let x = self.rand_dim_local();
                    E::Pow(Box::new(self.dexpr(&x, d)), Q::int(0), false)
                } else {
                    let n = self.num();
                    E::Bin(Op::Mul, Box::new(E::Num(n)), Box::new(self.dexpr(v, d)))
                }
            }
            _ => self.leaf(v),
        }
    }

    fn rand_dim_local(&mut self) -> V {
        // sometimes a parameter's intended dimension, so that parameters mix into products
        let ds: Vec<V> = self.locals.iter().filter_map(|(_, t)| if let Ty::D(v) = t { Some(v.clone()) } else { None }).collect();
        if !ds.is_empty() && self.rng.chance(1, 2) {
            self.rng.pick(&ds).clone()
        } else {
            self.rand_dim()
        }
    }

    fn call_lib(&mut self, v: &V, d: usize) -> E {
        let list = |g: &mut Gen, v: &V, d: usize| -> E {
            let n = 1 + g.rng.below(3);
            E::List((0..n).map(|_| g.dexpr(v, d)).collect())
        };
        let mut k = self.rng.below(14);
        if self.plain && matches!(k, 7 | 8 | 9 | 11) {
            k = self.rng.below(7);
        }
        match k {
            0 if self.scale_ok(v, Q::int(2)) => E::Call("sqrt".into(), vec![self.dexpr(&v.scale(Q::int(2)), d)]),
            1 if self.scale_ok(v, Q::new(1, 2)) => E::Call("sqr".into(), vec![self.dexpr(&v.scale(Q::new(1, 2)), d)]),
            2 if self.scale_ok(v, Q::int(3)) => E::Call("cbrt".into(), vec![self.dexpr(&v.scale(Q::int(3)), d)]),
            3 => E::Call("abs".into(), vec![self.dexpr(v, d)]),
            4 => E::Call("hypot2".into(), vec![self.dexpr(v, d), self.dexpr(v, d)]),
            5 => {
                let f = if self.rng.chance(1, 2) { "round_in" } else { "mod" };
                E::Call(f.into(), vec![self.dexpr(v, d), self.dexpr(v, d)])
            }
            6 => E::Call("unit_of".into(), vec![self.dexpr(v, d)]),
            7 => E::Call("sum".into(), vec![list(self, v, d)]),
            8 => {
                let f = *self.rng.pick(&["mean", "maximum", "minimum", "stdev"]);
                E::Call(f.into(), vec![list(self, v, d)])
            }
            9 => E::Call("head".into(), vec![list(self, v, d)]),
            10 if v.is_zero() => {
                let x = self.rand_dim_local();
                E::Call("value_of".into(), vec![self.dexpr(&x, d)])
            }
            11 if v.is_zero() => {
                let x = self.rand_dim_local();
                E::Call("len".into(), vec![list(self, &x, d)])
            }
            12 if v.is_zero() => {
                let f = *self.rng.pick(&["round", "floor", "exp", "sin"]);
                E::Call(f.into(), vec![self.dexpr(v, d)])
            }
            13 if self.scale_ok(v, Q::new(1, 2)) => {
                E::Call("circle_area".into(), vec![self.dexpr(&v.scale(Q::new(1, 2)), d)])
            }
            _ => E::Call("abs".into(), vec![self.dexpr(v, d)]),
        }
    }

    /// an annotation denoting `v` (base axes, named dimensions of the session, type parameters)
    pub fn dx_for(&mut self, v: &V) -> DX {
        let named: Vec<String> = self.w.dims.iter().filter(|(_, d)| *d == v).map(|(n, _)| n.clone()).collect();
        if !named.is_empty() && self.rng.chance(3, 4) {
            return DX::Name(self.rng.pick(&named).clone());
        }
        // sometimes split off a named factor: v = Named * rest
        if self.rng.chance(1, 4) && !v.is_zero() {
            let ns: Vec<(String, V)> = self.w.dims.iter().filter(|(_, d)| !d.is_zero()).map(|(n, d)| (n.clone(), d.clone())).collect();
            let (n, d) = self.rng.pick(&ns).clone();
            let rest = v.sub(&d);
            if rest.0.len() <= 3 {
                let r = self.dx_axes(&rest);
                return DX::Mul(Box::new(DX::Name(n)), Box::new(r));
            }
        }
        self.dx_axes(v)
    }

    fn dx_axes(&mut self, v: &V) -> DX {
        let mut num: Option<DX> = None;
        let mut den: Option<DX> = None;
        for (a, e) in &v.0 {
            let n = match a {
                Atom::Base(n) | Atom::TPar(n) => DX::Name(n.clone()),
                _ => DX::One,
            };
            let (abs, neg) = if e.n < 0 { (e.neg(), true) } else { (*e, false) };
            let f = if abs == Q::one() { n } else { DX::Pow(Box::new(n), abs) };
            let slot = if neg { &mut den } else { &mut num };
            *slot = Some(match slot.take() {
                Some(x) => DX::Mul(Box::new(x), Box::new(f)),
                None => f,
            });
        }
        match (num, den) {
            (Some(n), Some(d)) => DX::Div(Box::new(n), Box::new(d)),
            (Some(n), None) => n,
            (None, Some(d)) => DX::Div(Box::new(DX::One), Box::new(d)),
            (None, None) => DX::Name("Scalar".into()),
        }
    }

    fn gen_fn(&mut self, depth: usize) -> S {
        let name = self.name("zqf");
        let kind = self.rng.below(10);
        let np = 1 + self.rng.below(3);
        let pnames = ["zqx", "zqy", "zqz"];
        let mut tpars: Vec<String> = Vec::new();
        let mut params: Vec<(String, Option<Ann>)> = Vec::new();
        let mut intents: Vec<(String, Ty)> = Vec::new();
        // symbolic axes: type parameters for the annotated generic kind, hidden axes for unannotated
        let mut axes: Vec<V> = Vec::new();
        for i in 0..np {
            let pn = pnames[i].to_string();
            // 0-2 concrete annotated, 3-4 generic annotated, 5-8 unannotated, 9 mixed
            let mode = match kind {
                0..=2 => 0,
                3..=4 => 1,
                5..=8 => 2,
                _ => self.rng.below(3),
            };
            match mode {
                0 => {
                    let v = self.rand_dim();
                    if self.rng.chance(1, 8) {
                        let t = Ty::L(Box::new(Ty::D(v.clone())));
                        params.push((pn.clone(), Some(Ann::List(Box::new(Ann::D(self.dx_for(&v)))))));
                        intents.push((pn, t));
                    } else {
                        params.push((pn.clone(), Some(Ann::D(self.dx_for(&v)))));
                        intents.push((pn, Ty::D(v)));
                    }
                }
                1 => {
                    // first generic parameter introduces an axis; later ones reuse or derive
                    let v = if axes.is_empty() || self.rng.chance(1, 3) {
                        let t = format!("D{}", (b'A' + tpars.len() as u8) as char);
                        tpars.push(t.clone());
                        let a = V::atom(Atom::TPar(t));
                        axes.push(a.clone());
                        a
                    } else {
                        let a = self.rng.pick(&axes).clone();
                        match self.rng.below(4) {
                            0 => a.scale(Q::int(2)),
                            1 => a.add(&self.rand_dim()),
                            2 => a.scale(Q::int(-1)),
                            _ => a,
                        }
                    };
                    params.push((pn.clone(), Some(Ann::D(self.dx_axes(&v)))));
                    intents.push((pn, Ty::D(v)));
                }
                _ => {
                    let v = if axes.is_empty() || self.rng.chance(1, 2) {
                        let a = V::atom(Atom::TPar(format!("~{}", axes.len())));
                        axes.push(a.clone());
                        a
                    } else {
                        let a = self.rng.pick(&axes).clone();
                        match self.rng.below(5) {
                            0 => a.scale(Q::int(2)),
                            1 => a.add(&self.rand_dim()),
                            2 => self.rand_dim(),
                            _ => a,
                        }
                    };
                    if self.rng.chance(1, 10) {
                        params.push((pn.clone(), None));
                        intents.push((pn, Ty::L(Box::new(Ty::D(v)))));
                    } else {
                        params.push((pn.clone(), None));
                        intents.push((pn, Ty::D(v)));
                    }
                }
            }
        }
        // result: a combination of parameter dimensions and a random dimension
        let mut rv = if self.rng.chance(1, 3) { self.rand_dim() } else { V::zero() };
        for (_, t) in &intents {
            if let Ty::D(v) = t {
                match self.rng.below(5) {
                    0 => rv = rv.add(v),
                    1 => rv = rv.sub(v),
                    2 => rv = rv.add(&v.scale(Q::int(2))),
                    _ => {}
                }
            }
        }
        if rv.0.values().any(|q| q.n.abs() > 6) {
            rv = self.rand_dim();
        }
        self.locals = intents;
        let body = self.dexpr(&rv, depth);
        // use every parameter at least once so that its dimension is determined by the body
        let mut body = body;
        let locals = self.locals.clone();
        for (pn, t) in &locals {
            let mut used = false;
            body.visit(&mut |e| {
                if matches!(e, E::Var(n) if n == pn) {
                    used = true;
                }
            });
            if !used {
                match t {
                    Ty::D(v) => {
                        // body * (p / p-like)
                        let other = self.leaf(&v.clone());
                        let ratio = E::Bin(Op::Div, Box::new(E::Var(pn.clone())), Box::new(other));
                        body = E::Bin(Op::Mul, Box::new(body), Box::new(ratio));
                    }
                    Ty::L(t) => {
                        if let Ty::D(v) = &**t {
                            let other = self.leaf(&v.clone());
                            let ratio = E::Bin(Op::Div, Box::new(E::Call("sum".into(), vec![E::Var(pn.clone())])), Box::new(other));
                            body = E::Bin(Op::Mul, Box::new(body), Box::new(ratio));
                        }
                    }
                    _ => {}
                }
            }
        }
        let has_hidden = rv.0.keys().any(|a| matches!(a, Atom::TPar(n) if n.starts_with('~')));
        let ret = if !has_hidden && self.rng.chance(1, 2) { Some(Ann::D(self.dx_for(&rv))) } else { None };
        self.locals = vec![];
        S::Fn { name, tpars, params, ret, body }
    }

    /// an unannotated function of 1-3 parameters whose body mixes products, quotients, rational powers,
    /// sums, conditionals and calls of generic library functions (C16)
    pub fn gen_fn_plain(&mut self, depth: usize) -> S {
        self.plain = true;
        let name = self.name("zqf");
        let np = 1 + self.rng.below(3);
        let pnames = ["zqx", "zqy", "zqz"];
        let mut params = Vec::new();
        let mut intents: Vec<(String, Ty)> = Vec::new();
        let mut axes: Vec<V> = Vec::new();
        for i in 0..np {
            let pn = pnames[i].to_string();
            let v = if axes.is_empty() || self.rng.chance(1, 2) {
                let a = V::atom(Atom::TPar(format!("~{}", axes.len())));
                axes.push(a.clone());
                a
            } else {
                let a = self.rng.pick(&axes).clone();
                match self.rng.below(6) {
                    0 => a.scale(Q::int(2)),
                    1 => a.add(&self.rand_dim()),
                    2 => self.rand_dim(),
                    3 => a.scale(Q::new(1, 2)),
                    _ => a,
                }
            };
            params.push((pn.clone(), None));
            // every fifth parameter is a list of quantities of that dimension
            let is_list = self.rng.chance(1, 5);
            intents.push((pn, if is_list { Ty::L(Box::new(Ty::D(v))) } else { Ty::D(v) }));
        }
        let mut rv = if self.rng.chance(1, 3) { self.rand_dim() } else { V::zero() };
        for (_, t) in &intents {
            let t = if let Ty::L(el) = t { &**el } else { t };
            if let Ty::D(v) = t {
                match self.rng.below(6) {
                    0 => rv = rv.add(v),
                    1 => rv = rv.sub(v),
                    2 => rv = rv.add(&v.scale(Q::int(2))),
                    3 => rv = rv.add(&v.scale(Q::new(1, 2))),
                    4 => rv = rv.add(&v.scale(Q::new(1, 3))),
                    _ => {}
                }
            }
        }
        if rv.0.values().any(|q| q.n.abs() > 6 || q.d > 6) {
            rv = self.rand_dim();
        }
        self.last_intents = intents.clone();
        self.locals = intents;
        let mut body = self.dexpr(&rv, depth);
        // half of the bodies get a second summand / a comparison of the same dimension, so that inference has to
        // identify the dimensions of different parameters
        match self.rng.below(4) {
            0 => {
                let other = self.dexpr(&rv, depth.min(1));
                let op = if self.rng.chance(1, 2) { Op::Add } else { Op::Sub };
                body = E::Bin(op, Box::new(body), Box::new(other));
            }
            1 => {
                let d = self.rand_dim_local();
                let c = E::Cmp(Cmp::Lt, Box::new(self.dexpr(&d, 1)), Box::new(self.dexpr(&d, 0)));
                let other = self.dexpr(&rv, depth.min(1));
                body = E::If(Box::new(c), Box::new(body), Box::new(other));
            }
            _ => {}
        }
        // every tenth body gets a polymorphic zero as a *factor* (its dimension is then a quantified variable that
        // occurs in the return type only)
        if self.rng.chance(1, 10) {
            body = match self.rng.below(3) {
                0 => E::Bin(Op::Mul, Box::new(E::Zero), Box::new(body)),
                1 => E::Bin(Op::Div, Box::new(E::Zero), Box::new(body)),
                _ => E::Bin(Op::Mul, Box::new(body), Box::new(E::Zero)),
            };
        }
        // every tenth function compares two parameters with == / != and does nothing else with them (their common
        // type is then a quantified variable without a Dim bound)
        if np >= 2 && self.rng.chance(1, 10) {
            let (x, y) = (E::Var(pnames[0].to_string()), E::Var(pnames[1].to_string()));
            let c = E::Cmp(if self.rng.chance(1, 2) { Cmp::Eq } else { Cmp::Ne }, Box::new(x.clone()), Box::new(y.clone()));
            self.last_intents = vec![];
            self.locals = vec![];
            let body = if np == 2 || self.rng.chance(1, 2) {
                E::If(Box::new(c), Box::new(x), Box::new(y))
            } else {
                let z = E::Var(pnames[2].to_string());
                let k = self.num();
                E::If(Box::new(c), Box::new(E::Bin(Op::Mul, Box::new(E::Num(k)), Box::new(z.clone()))), Box::new(z))
            };
            return S::Fn { name, tpars: vec![], params, ret: None, body };
        }
        let locals = self.locals.clone();
        for (pn, t) in &locals {
            let mut used = false;
            body.visit(&mut |e| {
                if matches!(e, E::Var(n) if n == pn) {
                    used = true;
                }
            });
            if !used {
                if let Ty::D(v) = t {
                    let other = self.leaf(&v.clone());
                    let ratio = E::Bin(Op::Div, Box::new(E::Var(pn.clone())), Box::new(other));
                    body = E::Bin(Op::Mul, Box::new(body), Box::new(ratio));
                }
                if let Ty::L(el) = t {
                    if let Ty::D(v) = &**el {
                        let other = self.leaf(&v.clone());
                        let ratio = E::Bin(Op::Div, Box::new(E::Call("sum".into(), vec![E::Var(pn.clone())])), Box::new(other));
                        body = E::Bin(Op::Mul, Box::new(body), Box::new(ratio));
                    }
                }
            }
        }
        self.locals = vec![];
        self.plain = false;
        S::Fn { name, tpars: vec![], params, ret: None, body }
    }

    pub fn gen_stmt(&mut self, depth: usize) -> S {
        let r = self.rng.below(100);
        match r {
            0..=34 => {
                let v = self.rand_dim();
                let name = self.name("zqv");
                let e = self.dexpr(&v, depth);
                let ann = if self.rng.chance(2, 5) { Some(Ann::D(self.dx_for(&v))) } else { None };
                S::Let { name, ann, e }
            }
            35..=40 => {
                let v = self.rand_dim();
                let name = self.name("zqv");
                let t = Ty::L(Box::new(Ty::D(v.clone())));
                let e = self.expr(&t, depth);
                let ann = if self.rng.chance(1, 3) { Some(Ann::List(Box::new(Ann::D(self.dx_for(&v))))) } else { None };
                S::Let { name, ann, e }
            }
            41..=66 => self.gen_fn(depth),
            67..=72 => {
                let v = self.rand_dim();
                let name = self.name("zqu");
                if v.is_zero() || self.rng.chance(1, 12) {
                    return S::UnitDef { name, ann: None, e: None };
                }
                if self.rng.chance(1, 12) {
                    return S::UnitDef { name, ann: Some(self.dx_for(&v)), e: None };
                }
                let old = self.allow_zero;
                self.allow_zero = false;
                let e = self.dexpr(&v, depth.min(2));
                self.allow_zero = old;
                let ann = if self.rng.chance(1, 2) { Some(self.dx_for(&v)) } else { None };
                S::UnitDef { name, ann, e: Some(e) }
            }
            73..=76 => {
                let name = upper_camel(&self.name("zqd"));
                if self.rng.chance(1, 5) {
                    S::DimDef { name, def: None }
                } else {
                    let v = self.rand_dim();
                    S::DimDef { name, def: Some(self.dx_for(&v)) }
                }
            }
            77..=86 => {
                if self.rng.chance(1, 3) {
                    S::Print(E::Str(format!("marker_{}", self.counter)))
                } else {
                    let v = self.rand_dim();
                    S::Print(self.dexpr(&v, depth))
                }
            }
            87..=91 => {
                let v = self.rand_dim();
                S::AssertEq(self.dexpr(&v, depth), self.dexpr(&v, depth))
            }
            _ => {
                let v = self.rand_dim();
                S::Expr(self.dexpr(&v, depth))
            }
        }
    }

    /// a program of `n` statements, each accepted by the oracle when it was generated
    pub fn program(&mut self, n: usize, depth: usize, rejected: &mut usize) -> Prog {
        let mut p = Vec::new();
        let mut tries = 0;
        while p.len() < n && tries < 4 * n {
            tries += 1;
            let s = self.gen_stmt(depth);
            match analyse_stmt(&mut self.w, &s) {
                Ok(_) => {
                    if let S::Fn { name, .. } = &s {
                        self.user_fns.push(name.clone());
                    }
                    if let S::DimDef { name, .. } = &s {
                        self.user_dims.push(name.clone());
                    }
                    p.push(s);
                }
                Err(_) => *rejected += 1,
            }
        }
        p
    }
}

// ------------------------------------------------------------------ mutators

#[derive(Clone, Copy, Debug, PartialEq, Eq)]
pub enum Mutation {
    SwapUnit,
    WrongAnnotation,
    WrongArgument,
    WrongBranch,
    WrongOperand,
    WrongElement,
    DropDimBound,
}

impl Mutation {
    pub fn tag(&self) -> &'static str {
        match self {
            Mutation::SwapUnit => "swap_unit",
            Mutation::WrongAnnotation => "wrong_annotation",
            Mutation::WrongArgument => "wrong_argument",
            Mutation::WrongBranch => "wrong_branch",
            Mutation::WrongOperand => "wrong_operand",
            Mutation::WrongElement => "wrong_element",
            Mutation::DropDimBound => "drop_dim_bound",
        }
    }
    pub const ALL: [Mutation; 7] = [
        Mutation::SwapUnit,
        Mutation::WrongAnnotation,
        Mutation::WrongArgument,
        Mutation::WrongBranch,
        Mutation::WrongOperand,
        Mutation::WrongElement,
        Mutation::DropDimBound,
    ];
}

fn other_unit(rng: &mut Rng, not: &str) -> String {
    let me = UNITS.iter().find(|(n, _)| *n == not).map(|(_, e)| *e);
    loop {
        let (n, e) = rng.pick(UNITS);
        if Some(*e) != me {
            return n.to_string();
        }
    }
}

fn foreign_leaf(rng: &mut Rng) -> E {
    let (n, _) = rng.pick(UNITS);
    let k = *rng.pick(&["2", "3", "4.5"]);
    E::Bin(Op::Mul, Box::new(E::Num(k.into())), Box::new(E::Unit(n.to_string())))
}

fn other_dim_name(rng: &mut Rng) -> DX {
    let (n, _) = rng.pick(&DIMS[2..]);
    DX::Name(n.to_string())
}

/// applies the mutation at a random applicable place; `None` if the program has no such place
pub fn mutate(rng: &mut Rng, p: &Prog, m: Mutation) -> Option<Prog> {
    let mut q = p.clone();
    // count candidate sites, pick one, apply
    let pred = |e: &E| -> bool {
        match m {
            Mutation::SwapUnit => matches!(e, E::Unit(_)),
            Mutation::WrongArgument => matches!(e, E::Call(_, xs) if !xs.is_empty()),
            Mutation::WrongBranch => matches!(e, E::If(..)),
            Mutation::WrongOperand => matches!(e, E::Bin(Op::Add | Op::Sub | Op::Conv, _, _) | E::Cmp(..)),
            Mutation::WrongElement => matches!(e, E::List(xs) if xs.len() >= 2),
            Mutation::WrongAnnotation | Mutation::DropDimBound => false,
        }
    };
    if m == Mutation::DropDimBound {
        // an annotated generic function loses the `Dim` bound of one type parameter (the parameter is renamed
        // D… -> U…; see ast::is_unbounded_tpar). Only parameters that occur bare in the annotations qualify.
        fn bare_only(a: &Ann, t: &str) -> bool {
            match a {
                Ann::D(DX::Name(_)) => true,
                Ann::D(d) => !dx_mentions(d, t),
                Ann::List(x) => bare_only(x, t),
                Ann::Bool => true,
            }
        }
        fn dx_mentions(d: &DX, t: &str) -> bool {
            match d {
                DX::One => false,
                DX::Name(n) => n == t,
                DX::Mul(a, b) | DX::Div(a, b) => dx_mentions(a, t) || dx_mentions(b, t),
                DX::Pow(a, _) => dx_mentions(a, t),
            }
        }
        fn rename_dx(d: &mut DX, from: &str, to: &str) {
            match d {
                DX::One => {}
                DX::Name(n) => {
                    if n == from {
                        *n = to.to_string();
                    }
                }
                DX::Mul(a, b) | DX::Div(a, b) => {
                    rename_dx(a, from, to);
                    rename_dx(b, from, to);
                }
                DX::Pow(a, _) => rename_dx(a, from, to),
            }
        }
        fn rename_ann(a: &mut Ann, from: &str, to: &str) {
            match a {
                Ann::D(d) => rename_dx(d, from, to),
                Ann::List(x) => rename_ann(x, from, to),
                Ann::Bool => {}
            }
        }
        let mut sites: Vec<(usize, String)> = Vec::new();
        for (i, s) in q.iter().enumerate() {
            if let S::Fn { tpars, params, ret, .. } = s {
                for t in tpars {
                    if is_unbounded_tpar(t) {
                        continue;
                    }
                    let anns: Vec<&Ann> = params.iter().filter_map(|(_, a)| a.as_ref()).chain(ret.iter()).collect();
                    if anns.iter().all(|a| bare_only(a, t)) {
                        sites.push((i, t.clone()));
                    }
                }
            }
        }
        if sites.is_empty() {
            return None;
        }
        let (i, t) = rng.pick(&sites).clone();
        let to = format!("U{}", &t[1..]);
        if let S::Fn { tpars, params, ret, .. } = &mut q[i] {
            for x in tpars.iter_mut() {
                if *x == t {
                    *x = to.clone();
                }
            }
            for (_, a) in params.iter_mut() {
                if let Some(a) = a {
                    rename_ann(a, &t, &to);
                }
            }
            if let Some(a) = ret {
                rename_ann(a, &t, &to);
            }
        }
        return Some(q);
    }
    if m == Mutation::WrongAnnotation {
        let mut sites: Vec<(usize, usize)> = Vec::new(); // (stmt, which)
        for (i, s) in q.iter().enumerate() {
            match s {
                S::Let { ann: Some(Ann::D(_)), .. } => sites.push((i, 0)),
                S::Let { ann: Some(Ann::List(_)), .. } => sites.push((i, 0)),
                S::Fn { params, ret, .. } => {
                    for (j, (_, a)) in params.iter().enumerate() {
                        if a.is_some() {
                            sites.push((i, 1 + j));
                        }
                    }
                    if ret.is_some() {
                        sites.push((i, 100));
                    }
                }
                S::UnitDef { ann: Some(_), e: Some(_), .. } => sites.push((i, 0)),
                _ => {}
            }
        }
        if sites.is_empty() {
            return None;
        }
        let (i, k) = *rng.pick(&sites);
        let wrong = |rng: &mut Rng, a: &Ann| -> Ann {
            match a {
                Ann::List(_) => Ann::List(Box::new(Ann::D(other_dim_name(rng)))),
                Ann::D(d) => {
                    if rng.chance(1, 3) {
                        Ann::D(DX::Mul(Box::new(d.clone()), Box::new(other_dim_name(rng))))
                    } else if rng.chance(1, 2) {
                        let (n, dd) = *rng.pick(&[(2i128, 1i128), (3, 2), (1, 2), (-1, 1), (4, 3), (-1, 2)]);
                        Ann::D(DX::Pow(Box::new(d.clone()), Q::new(n, dd)))
                    } else {
                        Ann::D(other_dim_name(rng))
                    }
                }
                Ann::Bool => Ann::Bool,
            }
        };
        match &mut q[i] {
            S::Let { ann, .. } => *ann = Some(wrong(rng, ann.as_ref().unwrap())),
            S::Fn { params, ret, .. } => {
                if k == 100 {
                    *ret = Some(wrong(rng, ret.as_ref().unwrap()));
                } else {
                    let a = params[k - 1].1.clone().unwrap();
                    params[k - 1].1 = Some(wrong(rng, &a));
                }
            }
            S::UnitDef { ann, .. } => {
                let Ann::D(d) = wrong(rng, &Ann::D(ann.clone().unwrap())) else { return None };
                *ann = Some(d);
            }
            _ => {}
        }
        return Some(q);
    }
    let mut total = 0usize;
    for s in q.iter() {
        for e in s.exprs() {
            e.visit(&mut |x| {
                if pred(x) {
                    total += 1;
                }
            });
        }
    }
    if total == 0 {
        if m == Mutation::WrongBranch {
            // wrap the expression of a definition into a conditional with a foreign else-branch
            let idx: Vec<usize> = q.iter().enumerate().filter(|(_, s)| matches!(s, S::Let { .. } | S::Fn { .. } | S::Expr(_))).map(|(i, _)| i).collect();
            if idx.is_empty() {
                return None;
            }
            let i = *rng.pick(&idx);
            let fl = foreign_leaf(rng);
            for e in q[i].exprs_mut() {
                let old = std::mem::replace(e, E::Zero);
                let c = E::Cmp(Cmp::Lt, Box::new(E::Num("1".into())), Box::new(E::Num("2".into())));
                *e = E::If(Box::new(c), Box::new(old), Box::new(fl.clone()));
            }
            return Some(q);
        }
        return None;
    }
    let target = rng.below(total);
    let mut seen = 0usize;
    let mut r2 = rng.fork(7);
    for s in q.iter_mut() {
        for e in s.exprs_mut() {
            let done = e.visit_mut(&mut |x| {
                if !pred(x) {
                    return false;
                }
                if seen != target {
                    seen += 1;
                    return false;
                }
                match x {
                    E::Unit(u) => *u = other_unit(&mut r2, u),
                    E::Call(_, xs) => {
                        let k = r2.below(xs.len());
                        xs[k] = match &xs[k] {
                            E::List(_) => E::List(vec![foreign_leaf(&mut r2)]),
                            _ => foreign_leaf(&mut r2),
                        };
                    }
                    E::If(_, _, b) => **b = foreign_leaf(&mut r2),
                    E::Bin(_, _, b) | E::Cmp(_, _, b) => **b = foreign_leaf(&mut r2),
                    E::List(xs) => {
                        let k = 1 + r2.below(xs.len() - 1);
                        xs[k] = foreign_leaf(&mut r2);
                    }
                    _ => {}
                }
                true
            });
            if done {
                return Some(q);
            }
        }
    }
    Some(q)
}
