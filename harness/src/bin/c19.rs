//! C19 — date and time arithmetic is consistent.
//!
//! One case = (instant t in nanoseconds, zone z, second zone z2, full-precision format index f, duration
//! expression D).  Everything is evaluated by the real interpreter from source text:
//!     T := datetime("<RFC 3339 text of t with 9 fractional digits>Z") -> tz("z")
//!     T            D            T + D        T - D        (T + D) - T      (T + D) - D
//!     (T - D) + D  T -> tz("z2")             (T -> tz("z2")) - T
//!     datetime(format_datetime(F, T))
//! and the results are read through the guarded hooks `verif::c19::{datetime_parts, quantity_bits}`
//! (nanoseconds since the epoch + zone name; f64 bit patterns).
//!
//! Replay / corpus line:   case <t_ns> <z> <z2> <f> <D expression>
//!
//! Model requests (answered by `drv_c19` from `Model/Time.lean`, Float instance):
//!     add <t_ns> <z> <d_bits>      -> ok <ns> <z> | err dur | err dt          (Op::AddToDateTime)
//!     sub <t_ns> <z> <d_bits>      -> same                                    (Op::SubFromDateTime)
//!     diff <a_ns> <b_ns>           -> ok <bits of seconds>                    (Op::DiffDateTime)
//!     adddiff <t_ns> <z> <d_bits>  -> ok <bits> | err ..                      ((T + D) - T)
//!     addsub <t_ns> <z> <d_bits>   -> ok <ns> <z> | err ..                    ((T + D) - D)
//!     subadd <t_ns> <z> <d_bits>   -> ok <ns> <z> | err ..                    ((T - D) + D)
//!     tz <t_ns> <z> <z2>           -> ok <ns> <z2>                            (TzConversion)
//! where d_bits is the f64 the VM reads as seconds (`to_base_unit_representation` of D, via hook).
//!
//! Oracle on the implementation (independent of the Lean model; integer arithmetic on i128):
//!   O1 add-offset     ns(T+D) - ns(T) is d rounded to nanoseconds:  |off - d*1e9| <= 0.5 + 1e-6
//!   O2 diff-value     the value of (T+D)-T in seconds is off/1e9 within 2 ulp
//!   O3 add-sub        ns((T+D)-D) == ns(T), ns((T-D)+D) == ns(T), zone unchanged
//!   O4 tz             ns(T -> tz(z2)) == ns(T), zone == z2, (T -> tz(z2)) - T == 0
//!   O5 range          |trunc d| > 631107417600 s, non-finite d, or t + off outside jiff's Timestamp range
//!                     => error (never a date); otherwise no error
//!   O6 parse-format   datetime(format_datetime(F, T)) is the same instant for every full-precision F
//!                     (formats below; RFC 9557 form only for years 0..=9999 because `%Y` does not print
//!                     the six-digit signed years ISO 8601 requires)

use numbat::module_importer::BuiltinModuleImporter;
use numbat::resolver::CodeSource;
use numbat::value::Value;
use numbat::verif::c19 as hook;
use numbat::{Context, InterpreterResult, InterpreterSettings, NumbatError, RuntimeErrorKind};
use nvh::*;

const SPAN_SEC_MAX: i128 = 631_107_417_600;
const NS: i128 = 1_000_000_000;

/// full-precision formats: (strftime format, only for years 0..=9999, needs UTC zone)
const FORMATS: &[(&str, bool, bool)] = &[
    ("%Y-%m-%d %H:%M:%S%.f %z", false, false),
    ("%Y/%m/%d %H:%M:%S%.f %z", false, false),
    ("%Y-%m-%d %H:%M:%S%.9f %z", false, false),
    ("%Y-%m-%dT%H:%M:%S%.fZ", false, true),
    ("%Y-%m-%dT%H:%M:%S%.9f%:z[%Q]", true, false),
    ("%Y-%m-%dT%H:%M:%S%.f%:z", true, false),
    // the 12-hour formats as the book documents them (book/src/basics/date-and-time.md)
    ("%Y-%m-%d %I:%M:%S%.f %p %z", false, false),
    ("%Y/%m/%d %I:%M:%S%.f %p %z", false, false),
    // (the undocumented `%p%.f` order that datetime.rs used to implement was repaired by a fix: commit)
];

#[derive(Clone, Debug)]
struct Case {
    t: i128,
    z: String,
    z2: String,
    f: usize,
    d: String,
}

impl Case {
    fn text(&self) -> String {
        format!("case {} {} {} {} {}", self.t, self.z, self.z2, self.f, self.d)
    }
    fn parse(line: &str) -> Option<Case> {
        let mut it = line.trim().splitn(6, ' ');
        if it.next()? != "case" {
            return None;
        }
        Some(Case {
            t: it.next()?.parse().ok()?,
            z: it.next()?.to_string(),
            z2: it.next()?.to_string(),
            f: it.next()?.parse().ok()?,
            d: it.next()?.to_string(),
        })
    }
}

// ---------------------------------------------------------------- civil time (proleptic Gregorian)

fn civil_from_days(z: i64) -> (i64, u32, u32) {
    // Howard Hinnant's algorithm
    let z = z + 719468;
    let era = if z >= 0 { z } else { z - 146096 } / 146097;
    let doe = (z - era * 146097) as u64;
    let yoe = (doe - doe / 1460 + doe / 36524 - doe / 146096) / 365;
    let y = yoe as i64 + era * 400;
    let doy = doe - (365 * yoe + yoe / 4 - yoe / 100);
    let mp = (5 * doy + 2) / 153;
    let d = (doy - (153 * mp + 2) / 5 + 1) as u32;
    let m = if mp < 10 { mp + 3 } else { mp - 9 } as u32;
    (if m <= 2 { y + 1 } else { y }, m, d)
}

/// RFC 3339 text (UTC) of an instant, 9 fractional digits, 4-digit year with sign for negative years
fn rfc3339(t: i128) -> (String, i64) {
    let secs = t.div_euclid(NS) as i64;
    let sub = t.rem_euclid(NS) as i64;
    let days = secs.div_euclid(86400);
    let sod = secs.rem_euclid(86400);
    let (y, m, d) = civil_from_days(days);
    let ys = if y < 0 { format!("-{:04}", -y) } else { format!("{:04}", y) };
    (
        format!("{}-{:02}-{:02}T{:02}:{:02}:{:02}.{:09}Z", ys, m, d, sod / 3600, (sod / 60) % 60, sod % 60, sub),
        y,
    )
}

// ---------------------------------------------------------------- evaluation

#[derive(Clone, Debug, PartialEq)]
enum R {
    Dt(i128, String),
    Q(u64, u64), // base-representation bits, plain value bits
    S(String),
    Err(String),
    Other,
}

impl R {
    fn wire(&self) -> String {
        match self {
            R::Dt(ns, z) => format!("ok {} {}", ns, z),
            R::Q(b, _) => format!("ok {:016x}", b),
            R::S(s) => format!("ok {:?}", s),
            R::Err(e) => format!("err {}", e),
            R::Other => "other".into(),
        }
    }
    fn is_err(&self) -> bool {
        matches!(self, R::Err(_))
    }
}

struct Impl {
    base: Context,
    ctx: Context,
}

impl Impl {
    fn new() -> Impl {
        let mut ctx = Context::new(BuiltinModuleImporter::default());
        ctx.load_currency_module_on_demand(false);
        let _ = ctx.interpret("use prelude", CodeSource::Internal).expect("prelude");
        Impl { base: ctx.clone(), ctx }
    }
    /// a fresh session (every compiled statement grows the VM's tables, so one context per case)
    fn reset(&mut self) {
        self.ctx = self.base.clone();
    }
    fn eval(&mut self, code: &str) -> R {
        let ctx = &mut self.ctx;
        let r = catch(std::panic::AssertUnwindSafe(|| {
            let mut settings = InterpreterSettings {
                print_fn: Box::new(|_| {}),
            };
            match ctx.interpret_with_settings(&mut settings, code, CodeSource::Internal) {
                Ok((_s, InterpreterResult::Value(v))) => {
                    if let Some((ns, z)) = hook::datetime_parts(&v) {
                        R::Dt(ns, z)
                    } else if let Some((b, p)) = hook::quantity_bits(&v) {
                        R::Q(b, p)
                    } else if let Value::String(s) = &v {
                        R::S(s.to_string())
                    } else {
                        R::Other
                    }
                }
                Ok((_s, InterpreterResult::Continue)) => R::Other,
                Err(e) => R::Err(match &*e {
                    NumbatError::RuntimeError(re) => match &re.kind {
                        RuntimeErrorKind::DurationOutOfRange => "dur".into(),
                        RuntimeErrorKind::DateTimeOutOfRange => "dt".into(),
                        RuntimeErrorKind::UnknownTimezone(_) => "unknown-tz".into(),
                        RuntimeErrorKind::DateParsingError(m) => format!("parse:{}", m.chars().take(80).collect::<String>()),
                        RuntimeErrorKind::DateFormattingError(_) => "format".into(),
                        other => format!("runtime:{}", other.to_string().chars().take(60).collect::<String>()),
                    },
                    NumbatError::TypeCheckError(t) => format!("typecheck:{}", t.to_string().chars().take(60).collect::<String>()),
                    other => format!("other:{}", other.to_string().chars().take(60).collect::<String>()),
                }),
            }
        }));
        match r {
            Ok(x) => x,
            Err(p) => R::Err(format!("panic:{}", p)),
        }
    }
}

// ---------------------------------------------------------------- environment discovered by rule

fn discover_zones(imp: &mut Impl) -> Vec<String> {
    fn walk(dir: &std::path::Path, prefix: &str, out: &mut Vec<String>, depth: usize) {
        let mut es: Vec<_> = std::fs::read_dir(dir).map(|r| r.flatten().collect()).unwrap_or_default();
        es.sort_by_key(|e: &std::fs::DirEntry| e.path());
        for e in es {
            let name = e.file_name().to_string_lossy().to_string();
            if name.starts_with('.') || name.contains('.') || name == "posix" || name == "right" || name == "posixrules" {
                continue;
            }
            let p = e.path();
            if p.is_dir() {
                if depth < 3 {
                    walk(&p, &format!("{}{}/", prefix, name), out, depth + 1);
                }
            } else if name.chars().next().map(|c| c.is_ascii_uppercase()).unwrap_or(false) {
                out.push(format!("{}{}", prefix, name));
            }
        }
    }
    let mut cand = Vec::new();
    walk(std::path::Path::new("/usr/share/zoneinfo"), "", &mut cand, 0);
    if cand.is_empty() {
        cand = ["UTC", "Europe/Berlin", "America/New_York", "Asia/Kolkata", "Australia/Lord_Howe", "Pacific/Apia"]
            .iter()
            .map(|s| s.to_string())
            .collect();
    }
    let mut ok = Vec::new();
    for z in cand {
        if z.contains(' ') {
            continue;
        }
        // usable iff the conversion works and reports exactly this name
        if let R::Dt(0, name) = imp.eval(&format!("datetime(\"1970-01-01T00:00:00Z\") -> tz(\"{}\")", z)) {
            if name == z {
                ok.push(z);
            }
        }
    }
    ok
}

/// every unit name of the prelude that converts to seconds, with its size in seconds
fn discover_time_units(imp: &mut Impl) -> Vec<(String, f64)> {
    let names: Vec<String> = imp.ctx.unit_names().iter().flatten().map(|s| s.to_string()).collect();
    let mut out = Vec::new();
    let mut cands = names;
    for p in ["ns", "µs", "ms", "ks", "Ms", "nanosecond", "microsecond", "millisecond", "kilosecond", "picosecond", "gigasecond"] {
        cands.push(p.to_string());
    }
    cands.sort();
    cands.dedup();
    for n in cands {
        if !n.chars().all(|c| c.is_alphanumeric() || c == '_') {
            continue;
        }
        if let R::Q(_, p) = imp.eval(&format!("1 {} -> s", n)) {
            let f = f64::from_bits(p);
            if f.is_finite() && f > 0.0 {
                out.push((n, f));
            }
        }
    }
    out
}

// ---------------------------------------------------------------- generation

struct Env {
    zones: Vec<String>,
    units: Vec<(String, f64)>,
    tmin: i128,
    tmax: i128,
}

fn fmt_number(rng: &mut Rng, x: f64) -> String {
    // numbat literal of |x| with a random number of significant digits
    let x = x.abs();
    if x == 0.0 {
        return "0".into();
    }
    if !x.is_finite() {
        return "1e308".into();
    }
    let digits = rng.range(1, 17) as usize;
    let s = format!("{:.*e}", digits - 1, x);
    if rng.chance(1, 2) {
        // plain decimal notation when it is short enough
        if let Ok(v) = s.parse::<f64>() {
            let plain = format!("{}", v);
            if plain.len() <= 24 && !plain.contains('e') {
                return plain;
            }
        }
    }
    s
}

fn gen_duration(rng: &mut Rng, env: &Env, out: &mut Out) -> String {
    let kind = rng.below(100);
    let term = |rng: &mut Rng, target: f64| -> String {
        let (u, f) = rng.pick(&env.units).clone();
        format!("{} {}", fmt_number(rng, target / f), u)
    };
    let sign = if rng.chance(1, 2) { "-" } else { "" };
    if kind < 55 {
        // sub-second parts in a random time unit, magnitude log-uniform 1e-10 s .. 8e11 s
        out.count("dur:scaled-unit");
        let e = -10.0 + rng.unit_f64() * 21.9;
        let target = 10f64.powf(e) * (1.0 + rng.unit_f64());
        format!("({}{})", sign, term(rng, target))
    } else if kind < 65 {
        out.count("dur:integer-seconds");
        let n = rng.range(0, 4_000_000_000);
        let u = *rng.pick(&["s", "second", "seconds", "sec"]);
        format!("({}{} {})", sign, n, u)
    } else if kind < 75 {
        out.count("dur:compound");
        let (ea, eb, ec) = (rng.unit_f64() * 8.0, -6.0 + rng.unit_f64() * 8.0, -9.5 + rng.unit_f64() * 6.0);
        let a = term(rng, 10f64.powf(ea));
        let b = term(rng, 10f64.powf(eb));
        let c = term(rng, 10f64.powf(ec));
        format!("({}({} + {} + {}))", sign, a, b, c)
    } else if kind < 85 {
        out.count("dur:rounding-edge");
        let edges = [
            "0.5 ns", "1.5 ns", "2.5 ns", "0.49999999 ns", "0.4 ns", "0.6 ns", "1e-12 s", "0 s", "0.9999999996 s",
            "0.9999999994 s", "1.9999999999 s", "123456789.9999999995 s", "0.000000001 s", "1 ns", "999999999 ns",
            "1000000000.5 ns", "86400 s", "0.1 s", "0.3 s", "1e-9 ms", "2.5 µs", "7.000000000499 s",
        ];
        format!("({}{})", sign, rng.pick(&edges))
    } else if kind < 93 {
        out.count("dur:huge");
        // around and beyond the limit of jiff spans (631107417600 s) and far beyond
        let base = [6.311074176e11, 6.3110741e11, 6.4e11, 1e12, 1e15, 9.3e18, 1e300][rng.below(7)];
        let target = base * (1.0 + (rng.unit_f64() - 0.5) * 1e-3);
        format!("({}{})", sign, term(rng, target))
    } else if kind < 96 {
        out.count("dur:non-finite");
        (*rng.pick(&["(1e308 s * 10)", "(-(1e308 s * 10))", "(1e308 s * 10 - 1e308 s * 10)", "(1e308 years * 1e10)"])).to_string()
    } else {
        out.count("dur:limit-exact");
        (*rng.pick(&[
            "631107417600 s", "(-631107417600 s)", "631107417601 s", "(-631107417601 s)", "631107417600.999 s", "7304484 days",
            "7304485 days", "20000 years",
        ]))
        .to_string()
    }
}

fn gen_instant(rng: &mut Rng, env: &Env, out: &mut Out) -> i128 {
    let k = rng.below(100);
    let span = (env.tmax - env.tmin) as u128;
    let mut t = if k < 40 {
        out.count("instant:uniform-full-range");
        env.tmin + ((rng.next_u64() as u128 * (1u128 << 64) + rng.next_u64() as u128) % span) as i128
    } else if k < 70 {
        out.count("instant:1900-2100");
        (rng.range(-2_208_988_800, 4_102_444_800) as i128) * NS + rng.range(0, 999_999_999) as i128
    } else if k < 80 {
        out.count("instant:near-min");
        env.tmin + rng.range(0, 2_000_000) as i128 * NS / if rng.chance(1, 2) { 1 } else { 1000 }
    } else if k < 90 {
        out.count("instant:near-max");
        env.tmax - rng.range(0, 2_000_000) as i128 * NS / if rng.chance(1, 2) { 1 } else { 1000 }
    } else {
        out.count("instant:near-epoch");
        rng.range(-5_000_000_000, 5_000_000_000) as i128
    };
    if rng.chance(3, 10) {
        out.count("instant:whole-second");
        t = t.div_euclid(NS) * NS;
    }
    t.clamp(env.tmin, env.tmax)
}

fn gen_case(rng: &mut Rng, env: &Env, out: &mut Out) -> Case {
    let t = gen_instant(rng, env, out);
    let z = if rng.chance(1, 5) { "UTC".to_string() } else { rng.pick(&env.zones).clone() };
    let z2 = rng.pick(&env.zones).clone();
    let f = rng.below(FORMATS.len());
    let d = gen_duration(rng, env, out);
    Case { t, z, z2, f, d }
}

// ---------------------------------------------------------------- one case

struct CaseResult {
    fails: Vec<(String, String)>, // (key, what)
    lines: Vec<(String, String)>, // (request, impl answer)
    nontrivial: bool,
    buckets: Vec<String>,
}

fn run_case(imp: &mut Impl, env: &Env, c: &Case) -> CaseResult {
    let mut fails: Vec<(String, String)> = Vec::new();
    let mut lines = Vec::new();
    let mut buckets = Vec::new();
    imp.reset();
    let (text, year) = rfc3339(c.t);
    let tt = format!("(datetime(\"{}\") -> tz(\"{}\"))", text, c.z);
    let d = &c.d;

    // T itself: the parser must produce exactly the instant written (RFC 3339 input, nanosecond digits)
    let rt = imp.eval(&tt);
    match &rt {
        R::Dt(ns, z) if *ns == c.t && *z == c.z => {}
        other => {
            fails.push(("C19:construct".into(), format!("{} evaluated to {} instead of instant {} in {}", tt, other.wire(), c.t, c.z)));
            return CaseResult { fails, lines, nontrivial: false, buckets };
        }
    }
    // D in seconds as the VM reads it
    let rd = imp.eval(d);
    let dbits = match &rd {
        R::Q(b, _) => *b,
        other => {
            buckets.push("duration:not-evaluable".into());
            let _ = other;
            return CaseResult { fails, lines, nontrivial: false, buckets };
        }
    };
    let dsec = f64::from_bits(dbits);

    let r_add = imp.eval(&format!("{} + {}", tt, d));
    let r_sub = imp.eval(&format!("{} - {}", tt, d));
    let r_adddiff = imp.eval(&format!("({} + {}) - {}", tt, d, tt));
    let r_addsub = imp.eval(&format!("({} + {}) - {}", tt, d, d));
    let r_subadd = imp.eval(&format!("({} - {}) + {}", tt, d, d));
    let r_tz = imp.eval(&format!("{} -> tz(\"{}\")", tt, c.z2));
    let r_tzdiff = imp.eval(&format!("({} -> tz(\"{}\")) - {}", tt, c.z2, tt));

    let db = format!("{:016x}", dbits);
    lines.push((format!("add {} {} {}", c.t, c.z, db), r_add.wire()));
    lines.push((format!("sub {} {} {}", c.t, c.z, db), r_sub.wire()));
    lines.push((format!("adddiff {} {} {}", c.t, c.z, db), r_adddiff.wire()));
    lines.push((format!("addsub {} {} {}", c.t, c.z, db), r_addsub.wire()));
    lines.push((format!("subadd {} {} {}", c.t, c.z, db), r_subadd.wire()));
    lines.push((format!("tz {} {} {}", c.t, c.z, c.z2), r_tz.wire()));
    lines.push((format!("diff {} {}", c.t, c.t), r_tzdiff.wire()));

    // the model covers the VM operations, not the type checker: a statement the checker rejected has no model line
    lines.retain(|(_, a)| !a.starts_with("err typecheck"));

    // ---- expected offset, by integer arithmetic (independent of the model)
    let finite = dsec.is_finite();
    let whole = if finite { dsec.trunc() } else { 0.0 };
    let dur_ok = finite && whole.abs() <= SPAN_SEC_MAX as f64;
    // exact: d*1e9 = whole*1e9 + frac*1e9; |frac*1e9| < 1e9 carries an error below 1.2e-7
    let frac_ns = if finite { (dsec - whole) * 1e9 } else { 0.0 };
    let whole_i: i128 = if dur_ok { whole as i128 } else { 0 };
    let near = |off: i128| -> bool {
        let rest = (off - whole_i * NS) as f64 - frac_ns;
        rest.abs() <= 0.5 + 1e-6
    };
    // is some nanosecond rounding of d in range?  candidates: round-half-away and its neighbours
    let cand0 = whole_i * NS + frac_ns.round() as i128;
    let in_range = |t: i128| t >= env.tmin && t <= env.tmax;

    for (name, r, sgn) in [("add", &r_add, 1i128), ("sub", &r_sub, -1i128)] {
        match r {
            R::Dt(ns, z) => {
                let off = (*ns - c.t) * sgn;
                if !dur_ok {
                    fails.push((format!("C19:range:{}-accepted-out-of-range-duration", name), format!("T {} D gave a date although d = {:e} s is outside the supported duration range", if sgn > 0 { "+" } else { "-" }, dsec)));
                } else if !near(off) {
                    fails.push((format!("C19:{}-offset", name), format!("ns(T {} D) - ns(T) = {} but d = {:e} s (d*1e9 = {} + {})", if sgn > 0 { "+" } else { "-" }, off * sgn, dsec, whole_i * NS, frac_ns)));
                }
                if !in_range(*ns) {
                    fails.push((format!("C19:range:{}-result-outside-range", name), format!("result instant {} outside the supported range", ns)));
                }
                if *z != c.z {
                    fails.push((format!("C19:{}-zone", name), format!("zone changed from {} to {}", c.z, z)));
                }
                buckets.push(format!("{}:ok", name));
            }
            R::Err(e) if e == "dur" || e == "dt" => {
                // an error is right iff the duration is out of range or every rounding of the result is out of range
                let exp = c.t + sgn * cand0;
                let must_ok = dur_ok && in_range(exp - 1) && in_range(exp + 1);
                if must_ok {
                    fails.push((format!("C19:range:{}-spurious-error", name), format!("error `{}` although t and t{}d ({} ns) are in range and d = {:e} s is a supported duration", e, if sgn > 0 { "+" } else { "-" }, exp, dsec)));
                }
                buckets.push(format!("{}:err-{}", name, e));
            }
            R::Err(e) if e.starts_with("typecheck:") && !finite => {
                // `t + inf s`: also a dimension-polymorphic literal; an error is what the property asks for here
                buckets.push(format!("{}:err-typecheck-nonfinite", name));
            }
            R::Err(e) if e.starts_with("typecheck:") && dsec == 0.0 => {
                // `t + 0 s`: the literal 0 is dimension-polymorphic and the DateTime rule of the type checker
                // looks at the not yet solved type of the right-hand side
                fails.push(("C19:zero-duration-typecheck".into(), format!("T {} D with D = {} (a zero duration) is rejected by the type checker: {}", if sgn > 0 { "+" } else { "-" }, d, e)));
                buckets.push(format!("{}:err-typecheck-zero", name));
            }
            other => {
                fails.push((format!("C19:{}-unexpected", name), format!("unexpected result {}", other.wire())));
            }
        }
    }
    // O2: value of (T+D)-T
    if let (R::Dt(ns_add, _), R::Q(b, _)) = (&r_add, &r_adddiff) {
        let off = *ns_add - c.t;
        let v = f64::from_bits(*b);
        let want = off as f64 / 1e9;
        let tol = want.abs() * 2f64.powi(-51) + 1e-300;
        if !((v - want).abs() <= tol) {
            fails.push(("C19:diff-value".into(), format!("(T+D)-T = {:e} s but the instants differ by {} ns", v, off)));
        }
        // and it equals d up to nanosecond rounding of d
        if !((v - dsec).abs() <= 0.5e-9 * (1.0 + 1e-6) + dsec.abs() * 2f64.powi(-50)) {
            fails.push(("C19:diff-vs-d".into(), format!("(T+D)-T = {:e} s but d = {:e} s", v, dsec)));
        }
    } else if r_add.is_err() != r_adddiff.is_err() {
        fails.push(("C19:diff-error-mismatch".into(), format!("T+D gives {} but (T+D)-T gives {}", r_add.wire(), r_adddiff.wire())));
    }
    // O3
    for (name, r, first) in [("add-sub", &r_addsub, &r_add), ("sub-add", &r_subadd, &r_sub)] {
        match (first, r) {
            (R::Dt(..), R::Dt(ns, z)) => {
                if *ns != c.t || *z != c.z {
                    fails.push((format!("C19:{}", name), format!("{} returned instant {} in {} instead of {} in {}", name, ns, z, c.t, c.z)));
                }
            }
            (R::Dt(..), other) => {
                fails.push((format!("C19:{}", name), format!("first step succeeded but the way back gave {}", other.wire())));
            }
            (R::Err(_), R::Err(_)) => {}
            (a, b) => {
                fails.push((format!("C19:{}", name), format!("first step {} but round trip {}", a.wire(), b.wire())));
            }
        }
    }
    // O4
    match &r_tz {
        R::Dt(ns, z) if *ns == c.t && *z == c.z2 => {}
        other => fails.push(("C19:tz".into(), format!("T -> tz({}) gave {} for instant {}", c.z2, other.wire(), c.t))),
    }
    match &r_tzdiff {
        R::Q(b, _) if f64::from_bits(*b) == 0.0 => {}
        other => fails.push(("C19:tz-diff".into(), format!("(T -> tz({})) - T gave {}", c.z2, other.wire()))),
    }
    // O6
    let (fmt, only_4digit_year, needs_utc) = FORMATS[c.f % FORMATS.len()];
    if !(only_4digit_year && !(0..=9999).contains(&year)) {
        let tz_for_fmt = if needs_utc { "UTC".to_string() } else { c.z.clone() };
        let shown = imp.eval(&format!("format_datetime(\"{}\", datetime(\"{}\") -> tz(\"{}\"))", fmt, text, tz_for_fmt));
        match &shown {
            R::S(s) => {
                let back = imp.eval(&format!("datetime(\"{}\")", s));
                match &back {
                    R::Dt(ns, _) if *ns == c.t => buckets.push(format!("format:{}:ok", c.f)),
                    other => {
                        fails.push((format!("C19:parse-roundtrip:{}", fmt), format!("instant {} displayed with \"{}\" as \"{}\" parses to {}", c.t, fmt, s, other.wire())));
                        buckets.push(format!("format:{}:fail", c.f));
                    }
                }
            }
            other => fails.push((format!("C19:format:{}", fmt), format!("format_datetime gave {}", other.wire()))),
        }
    } else {
        buckets.push(format!("format:{}:skipped-year", c.f));
    }

    let nontrivial = finite && dsec != 0.0;
    CaseResult { fails, lines, nontrivial, buckets }
}

fn shrink(imp: &mut Impl, env: &Env, c: &Case, key: &str) -> Case {
    let mut cur = c.clone();
    let still = |imp: &mut Impl, x: &Case| run_case(imp, env, x).fails.iter().any(|(k, _)| k == key);
    let mut tries: Vec<Case> = Vec::new();
    tries.push(Case { z: "UTC".into(), ..cur.clone() });
    tries.push(Case { z2: "UTC".into(), ..cur.clone() });
    tries.push(Case { t: cur.t.div_euclid(NS) * NS, ..cur.clone() });
    tries.push(Case { t: 0, ..cur.clone() });
    tries.push(Case { d: "(1 s)".into(), ..cur.clone() });
    tries.push(Case { d: "(0.5 s)".into(), ..cur.clone() });
    for t in tries {
        let cand = Case {
            t: if t.t != c.t { t.t } else { cur.t },
            z: if t.z != c.z { t.z } else { cur.z.clone() },
            z2: if t.z2 != c.z2 { t.z2 } else { cur.z2.clone() },
            f: cur.f,
            d: if t.d != c.d { t.d } else { cur.d.clone() },
        };
        if still(imp, &cand) {
            cur = cand;
        }
    }
    cur
}

fn main() {
    let args = Args::parse();
    let mut out = Out::new(&args);
    let mut imp = Impl::new();
    let (tmin, tmax) = hook::timestamp_range_ns();
    let zones = discover_zones(&mut imp);
    let units = discover_time_units(&mut imp);
    let env = Env { zones, units, tmin, tmax };
    assert!(!env.zones.is_empty() && !env.units.is_empty());
    out.extra.insert("zones_available".into(), env.zones.len().to_string());
    out.extra.insert("time_units".into(), env.units.iter().map(|(n, _)| n.clone()).collect::<Vec<_>>().join(" "));
    out.extra.insert("instant_range_ns".into(), format!("{}..={}", tmin, tmax));
    out.rule = "case = (instant ns, zone, second zone, full-precision format, duration expression); instants: 40% uniform over \
                jiff's whole Timestamp range, 30% 1900–2100, 20% within 2e6 s of either end, 10% near the epoch, 30% of all \
                snapped to whole seconds; zones: every IANA name under /usr/share/zoneinfo that tz() accepts; durations: value \
                with 1–17 significant digits times any prelude unit convertible to seconds (both signs, 1e-10 s … 1e12 s), \
                integer seconds, sums of three units, nanosecond rounding edges, values around jiff's span limit, inf/NaN. \
                distinct = distinct case text; non-trivial = duration finite and non-zero."
        .into();

    let mut cases: Vec<(Case, bool)> = Vec::new();
    if let Some(dir) = args.extra.get("corpus") {
        let mut files: Vec<_> = std::fs::read_dir(dir).map(|r| r.flatten().map(|e| e.path()).collect()).unwrap_or_default();
        files.sort();
        for f in files {
            for l in read_lines(&f) {
                if let Some(c) = Case::parse(&l) {
                    cases.push((c, true));
                }
            }
        }
    }
    if let Some(r) = &args.replay {
        for l in read_lines(r) {
            if let Some(c) = Case::parse(&l) {
                cases.push((c, true));
            }
        }
    } else {
        let n = args.count(3000, 100_000);
        let mut rng = Rng::new(args.seed);
        for _ in 0..n {
            let c = gen_case(&mut rng, &env, &mut out);
            cases.push((c, false));
        }
    }

    let mut reported: std::collections::BTreeSet<String> = std::collections::BTreeSet::new();
    for (c, _fixed) in &cases {
        let res = run_case(&mut imp, &env, c);
        out.case(&c.text(), res.nontrivial);
        for b in &res.buckets {
            out.count(b);
        }
        for (rq, ans) in &res.lines {
            out.line(rq, ans);
        }
        for (key, what) in &res.fails {
            out.count(&format!("fail:{}", key));
            if reported.insert(key.clone()) {
                let small = shrink(&mut imp, &env, c, key);
                let what2 = run_case(&mut imp, &env, &small)
                    .fails
                    .iter()
                    .find(|(k, _)| k == key)
                    .map(|(_, w)| w.clone())
                    .unwrap_or_else(|| what.clone());
                out.oracle_fail(key, &small.text(), &what2);
            }
        }
    }
    out.finish();
}
