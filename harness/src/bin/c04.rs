//! C04 — conversion yields exactly the requested unit and the same quantity.
//!
//! Requests `convert <bits> <unit> 3ff0000000000000 <target unit>`; the real `Quantity::convert_to`
//! (through `Context::verif_quantity_op`) must agree bit-for-bit with the Lean model at Float.
//! Oracle on the implementation (independent of the model): the result carries exactly the requested
//! unit; its magnitude equals value * F(source)/F(target) with F computed from the direct unit definitions;
//! converting back restores the magnitude; converting through an intermediate unit agrees with direct.

use numbat::verif::c03::{show_unit, FactorDesc, QDesc};
use nvh::qty::*;
use nvh::*;

const ONE: u64 = 0x3ff0000000000000;

struct Case {
    src: QDesc,
    tgt: Vec<FactorDesc>,
    via: Option<Vec<FactorDesc>>,
}

fn case_text(c: &Case) -> String {
    format!(
        "conv {} {} {}",
        q_text(&c.src),
        show_unit(&c.tgt),
        c.via.as_ref().map(|v| show_unit(v)).unwrap_or_else(|| "-".into())
    )
}

fn parse_factor(s: &str) -> Option<FactorDesc> {
    let p: Vec<&str> = s.split(':').collect();
    if p.len() != 3 {
        return None;
    }
    let (n, d) = p[2].split_once('/')?;
    Some(FactorDesc {
        unit: p[0].to_string(),
        binary: p[1].starts_with('b'),
        prefix_exp: p[1][1..].parse().ok()?,
        num: n.parse().ok()?,
        den: d.parse().ok()?,
    })
}

fn parse_unit(s: &str) -> Option<Vec<FactorDesc>> {
    let inner = s.strip_prefix('[')?.strip_suffix(']')?;
    if inner.is_empty() {
        return Some(vec![]);
    }
    inner.split(',').map(parse_factor).collect()
}

fn parse_case(line: &str) -> Option<Case> {
    let w: Vec<&str> = line.split(' ').collect();
    if w.len() != 5 || w[0] != "conv" {
        return None;
    }
    Some(Case {
        src: q(u64::from_str_radix(w[1], 16).ok()?, parse_unit(w[2])?),
        tgt: parse_unit(w[3])?,
        via: if w[4] == "-" { None } else { Some(parse_unit(w[4])?) },
    })
}

fn convert(ctx: &numbat::Context, out: &mut Out, a: &QDesc, tgt: &[FactorDesc]) -> String {
    let b = q(ONE, tgt.to_vec());
    let ans = match catch(std::panic::AssertUnwindSafe(|| ctx.verif_quantity_op("convert", a, Some(&b)))) {
        Ok(s) => canon_nan(&s),
        Err(p) => format!("panic {}", p),
    };
    out.line(&format!("convert {} {}", q_text(a), q_text(&b)), &ans);
    ans
}

fn normal(x: f64) -> bool {
    x.is_finite() && (x == 0.0 || x.abs() > 1e-290 && x.abs() < 1e290)
}

fn run_case(ctx: &numbat::Context, units: &Units, out: &mut Out, c: &Case) {
    let text = case_text(c);
    let v = f64::from_bits(c.src.bits);
    let same_dim = units.oracle_dimension(&c.src.factors) == units.oracle_dimension(&c.tgt);
    out.count(if same_dim { "same_dimension" } else { "different_dimension" });
    let ans = convert(ctx, out, &c.src, &c.tgt);
    let nontrivial = show_unit(&c.src.factors) != show_unit(&c.tgt) && v != 0.0;
    out.case(&text, nontrivial);
    let fail = |what: String, out: &mut Out| {
        out.oracle_fail(&format!("convert:{}", text), &text, &what);
    };
    if ans.starts_with("panic") {
        fail(ans.clone(), out);
        return;
    }
    match parse_answer(&ans) {
        None => {
            out.count("result_error");
            // an error is allowed only for a different dimension and a non-zero value
            if same_dim || v == 0.0 {
                fail(format!("conversion between units of the same dimension (or of zero) failed: {}", ans), out);
            }
        }
        Some((r, ru)) => {
            out.count("result_ok");
            if !same_dim && v != 0.0 && !v.is_nan() {
                fail(format!("conversion between different dimensions succeeded: {}", ans), out);
                return;
            }
            // (1) exactly the requested unit
            if ru != show_unit(&c.tgt) {
                fail(format!("result unit {} is not the requested unit {}", ru, show_unit(&c.tgt)), out);
            }
            if !same_dim {
                return;
            }
            // (2) same physical quantity: r = v * F(src)/F(tgt)
            let fs = units.oracle_factor(&c.src.factors);
            let ft = units.oracle_factor(&c.tgt);
            let expect = v * (fs / ft);
            if normal(v) && normal(fs) && normal(ft) && normal(expect) && normal(fs / ft) {
                let nf = (c.src.factors.len() + c.tgt.len()) as f64;
                let tol = (64.0 + 32.0 * nf) * f64::EPSILON * expect.abs();
                if (r - expect).abs() > tol {
                    fail(format!("magnitude {:e} differs from value*F(src)/F(tgt) = {:e} (rel {:e})", r, expect, ((r - expect) / expect).abs()), out);
                }
                out.count("oracle_magnitude_checked");
                // (3) round trip
                let back = convert(ctx, out, &q(r.to_bits(), c.tgt.clone()), &c.src.factors);
                if let Some((b, _)) = parse_answer(&back) {
                    if normal(r) && (b - v).abs() > tol / expect.abs() * v.abs() * 2.0 {
                        fail(format!("round trip gives {:e}, original {:e}", b, v), out);
                    }
                    out.count("oracle_roundtrip_checked");
                } else if v != 0.0 {
                    fail(format!("converting back failed: {}", back), out);
                }
                // (4) through an intermediate unit
                if let Some(via) = &c.via {
                    let fv = units.oracle_factor(via);
                    let a1 = convert(ctx, out, &c.src, via);
                    if let Some((m, _)) = parse_answer(&a1) {
                        let a2 = convert(ctx, out, &q(m.to_bits(), via.clone()), &c.tgt);
                        if let Some((r2, _)) = parse_answer(&a2) {
                            if normal(fv) && normal(m) && (r2 - r).abs() > 2.0 * tol + 64.0 * f64::EPSILON * r.abs() {
                                fail(format!("via {} gives {:e}, direct {:e}", show_unit(via), r2, r), out);
                            }
                            out.count("oracle_via_checked");
                        }
                    }
                }
            } else {
                out.count("oracle_magnitude_skipped_extreme");
            }
        }
    }
}

/// `a -> U` through the interpreter: the displayed unit must be U as numbat represents the unit expression U
fn check_compound_display(ctx: &numbat::Context, out: &mut Out, code: &str) {
    let Some((_, tsrc)) = code.rsplit_once(" -> ") else { return };
    let mut cx = ctx.clone();
    let want = match catch(std::panic::AssertUnwindSafe(|| cx.interpret(&format!("let zqt = {}", tsrc), numbat::resolver::CodeSource::Internal).is_ok())) {
        Ok(true) => cx.verif_raw_global_quantity("zqt"),
        _ => None,
    };
    let Some(want) = want else { out.count("compound_display_no_target"); return };
    let mut cx = ctx.clone();
    let res = catch(std::panic::AssertUnwindSafe(|| match cx.interpret(code, numbat::resolver::CodeSource::Internal) {
        Ok((_, numbat::InterpreterResult::Value(v))) => (numbat::verif::c03::describe_value(&v), format!("{}", v.pretty_print())),
        _ => (None, String::new()),
    }));
    let Ok((Some(dv), text)) = res else { out.count("compound_display_no_value"); return };
    out.case(&format!("display {}", code), true);
    if show_unit(&dv.factors) != show_unit(&want.factors) {
        out.oracle_fail(&format!("convert-display:{}", code), &format!("disp {}", code), &format!("`{}` is displayed as `{}`, in unit {} instead of the requested {}", code, text, show_unit(&dv.factors), show_unit(&want.factors)));
    }
}

/// a compound unit of the given "shape": for every (dimension, exponent) pick a random unit of that dimension
fn compound(units: &Units, rng: &mut Rng, shape: &[(String, i128, i128)]) -> Vec<FactorDesc> {
    let mut v = Vec::new();
    for (dim, n, d) in shape {
        let rows = &units.by_dim[dim];
        let i = *rng.pick(rows);
        let ps = units.prefixes(i);
        let p = if rng.chance(1, 2) { (false, 0) } else { *rng.pick(&ps) };
        v.push(units.factor(i, p, *n, *d));
    }
    if rng.chance(1, 3) {
        rng.shuffle(&mut v);
    }
    v
}

fn main() {
    let args = Args::parse();
    let mut out = Out::new(&args);
    out.rule = "ordered pairs of same-dimension prelude units with random accepted prefixes and class-stratified magnitudes (incl. 0, negatives, 2^k, 40.5), an intermediate unit of the same dimension; compound units (2-4 factors, exponents in {-3..3, 1/2}) whose source and target pick independent units per dimension so that common factors sometimes cancel; a stream of different-dimension pairs (must be rejected unless the value is 0). thorough: every ordered pair of same-dimension units. distinct = case text; non-trivial = source and target units differ and value != 0".into();
    let ctx = prelude_ctx();
    let units = Units::load(&ctx);
    units.emit(&mut out);
    out.count_n("units_in_table", units.rows.len() as u64);
    out.count_n("dimensions", units.by_dim.len() as u64);

    let run_file = |p: &std::path::Path, out: &mut Out| {
        for l in read_lines(p) {
            if let Some(code) = l.strip_prefix("disp ") {
                check_compound_display(&ctx, out, code);
            } else if let Some(c) = parse_case(&l) {
                run_case(&ctx, &units, out, &c);
            }
        }
    };
    if let Some(p) = &args.replay {
        run_file(p, &mut out);
        out.finish();
        return;
    }
    if let Some(dir) = args.extra.get("corpus") {
        let mut files: Vec<_> = std::fs::read_dir(dir).map(|d| d.filter_map(|e| e.ok()).map(|e| e.path()).collect()).unwrap_or_default();
        files.sort();
        for f in files {
            run_file(&f, &mut out);
        }
    }

    let mut rng = Rng::new(args.seed);
    let dims: Vec<&String> = units.by_dim.keys().collect();
    let multi: Vec<&String> = dims.iter().copied().filter(|d| units.by_dim[*d].len() >= 2).collect();

    // A. simple pairs
    let n_pairs = args.count(2500, 20000);
    for _ in 0..n_pairs {
        let d = *rng.pick(&multi);
        let rows = &units.by_dim[d];
        let src = units.random_simple(&mut rng, rows);
        let tgt = units.random_simple(&mut rng, rows);
        let via = if rng.chance(1, 2) { Some(units.random_simple(&mut rng, rows)) } else { None };
        let c = Case { src: q(random_magnitude(&mut rng).to_bits(), src), tgt, via };
        run_case(&ctx, &units, &mut out, &c);
    }
    // B. compound units
    let n_comp = args.count(1200, 20000);
    let exps: &[(i128, i128)] = &[(1, 1), (1, 1), (-1, 1), (2, 1), (-2, 1), (3, 1), (-3, 1), (1, 2), (-1, 2), (3, 2), (-3, 2), (4, 3), (5, 2), (2, 3), (1, 3), (5, 3), (7, 4)];
    for _ in 0..n_comp {
        let k = 2 + rng.below(3);
        let mut shape = Vec::new();
        for _ in 0..k {
            let d = (*rng.pick(&dims)).clone();
            let e = *rng.pick(exps);
            shape.push((d, e.0, e.1));
        }
        let src = compound(&units, &mut rng, &shape);
        let mut tgt = compound(&units, &mut rng, &shape);
        if rng.chance(1, 3) {
            // share some factors literally, so that the common-factor cancellation path is taken
            for i in 0..tgt.len().min(src.len()) {
                if rng.chance(1, 2) {
                    if let Some(f) = src.iter().find(|f| units.dim_of[units.index[&f.unit]] == units.dim_of[units.index[&tgt[i].unit]] && f.num == tgt[i].num && f.den == tgt[i].den) {
                        tgt[i] = f.clone();
                    }
                }
            }
        }
        let via = if rng.chance(1, 3) { Some(compound(&units, &mut rng, &shape)) } else { None };
        let c = Case { src: q(random_magnitude(&mut rng).to_bits(), src), tgt, via };
        out.count("compound_cases");
        run_case(&ctx, &units, &mut out, &c);
    }
    // C. different dimensions
    for _ in 0..args.count(200, 2000) {
        let d1 = *rng.pick(&dims);
        let d2 = *rng.pick(&dims);
        let src = units.random_simple(&mut rng, &units.by_dim[d1]);
        let tgt = units.random_simple(&mut rng, &units.by_dim[d2]);
        let c = Case { src: q(random_magnitude(&mut rng).to_bits(), src), tgt, via: None };
        run_case(&ctx, &units, &mut out, &c);
    }
    // E. display stream through the interpreter: `a -> k u` and `(a -> k u) -> w`, with k = 1 or not:
    // displayed in exactly the requested unit, as a multiple of the target iff its magnitude is not 1, and a
    // display target of an earlier conversion never survives
    for _ in 0..args.count(300, 4000) {
        let d = *rng.pick(&multi);
        let rows = &units.by_dim[d];
        let u = |rng: &mut Rng| vec![units.factor(*rng.pick(rows), (false, 0), 1, 1)];
        let (ua, ub, uc) = (u(&mut rng), u(&mut rng), u(&mut rng));
        let va = ((rng.unit_f64() * 200.0 - 100.0) * 16.0).round() / 16.0;
        let kb = *rng.pick(&[1.0f64, 1.0, 45.0, 0.01, 100.0, 2.5]);
        let kc = *rng.pick(&[1.0f64, 1.0, 1.0, 30.0, 0.5]);
        let (a, b, c) = (q(va.to_bits(), ua), q(kb.to_bits(), ub), q(kc.to_bits(), uc));
        let two = rng.chance(1, 2);
        let src = if two { format!("({} -> {}) -> {}", q_src(&a), q_src(&b), q_src(&c)) } else { format!("{} -> {}", q_src(&a), q_src(&b)) };
        let mut cx = ctx.clone();
        let res = catch(std::panic::AssertUnwindSafe(|| match cx.interpret(&src, numbat::resolver::CodeSource::Internal) {
            Ok((_, numbat::InterpreterResult::Value(v))) => (numbat::verif::c03::describe_value(&v), format!("{}", v.pretty_print())),
            _ => (None, String::new()),
        }));
        let Ok((Some(dv), text)) = res else { out.count("display_stream_no_value"); continue };
        let req = if two { format!("vmconv2 {} {} {}", q_text(&a), q_text(&b), q_text(&c)) } else { format!("vmconv {} {}", q_text(&a), q_text(&b)) };
        out.line(&req, &canon_nan(&numbat::verif::c03::show_quantity(&dv)));
        out.case(&format!("display {}", src), true);
        out.count("display_stream_cases");
        let last = if two { &c } else { &b };
        let k = f64::from_bits(last.bits);
        let key = format!("convert-display:{}", src);
        if show_unit(&dv.factors) != show_unit(&last.factors) {
            out.oracle_fail(&key, &format!("conv {} {} -", q_text(&a), show_unit(&last.factors)), &format!("`{}` is displayed in unit {} instead of {}", src, show_unit(&dv.factors), show_unit(&last.factors)));
        }
        match (&dv.target, k != 1.0) {
            (None, false) => {
                if text.contains('×') { out.oracle_fail(&key, &src, &format!("`{}` is displayed as `{}` although the target has magnitude 1", src, text)); }
            }
            (Some(t), true) => {
                if t.bits != last.bits || show_unit(&t.factors) != show_unit(&last.factors) || !text.contains('×') {
                    out.oracle_fail(&key, &src, &format!("`{}` is displayed as `{}`: not a multiple of the requested target", src, text));
                }
            }
            (Some(_), false) => out.oracle_fail(&key, &src, &format!("`{}` is displayed as `{}`: a multiple of a stale target although the requested unit has magnitude 1", src, text)),
            (None, true) => out.oracle_fail(&key, &src, &format!("`{}` is displayed as `{}`: not as a multiple of the target of magnitude {}", src, text, k)),
        }
    }
    // F. display stream for compound targets: `a -> U` with U a product / quotient of 2-3 units (no prefixes); half of
    // the cases use coherent units only (factor exactly 1: `J/N`, `m*m`, `W/V`), whose base representation is a single
    // base unit — the case in which the automatic simplification would have something to rewrite. The displayed unit
    // must be U as numbat itself represents the unit expression U (raw value of `let t = U`).
    let coherent: Vec<usize> = (0..units.rows.len()).filter(|&i| units.oracle_factor(&[units.factor(i, (false, 0), 1, 1)]) == 1.0).collect();
    for _ in 0..args.count(300, 4000) {
        let only_coherent = rng.chance(1, 2);
        let k = 2 + rng.below(2);
        let pick = |rng: &mut Rng, rows: &Vec<usize>| -> Option<usize> {
            let c: Vec<usize> = if only_coherent { rows.iter().copied().filter(|i| coherent.contains(i)).collect() } else { rows.clone() };
            if c.is_empty() { None } else { Some(*rng.pick(&c)) }
        };
        let mut tgt: Vec<FactorDesc> = Vec::new();
        let mut src: Vec<FactorDesc> = Vec::new();
        let mut ok = true;
        for j in 0..k {
            if !ok { break; }
            let d = if j == 1 && rng.chance(1, 4) { units.dim_of[units.index[&tgt[0].unit]].clone() } else { (*rng.pick(&dims)).clone() };
            let e = *rng.pick(&[(1i128, 1i128), (1, 1), (-1, 1), (2, 1), (-1, 1)]);
            match (pick(&mut rng, &units.by_dim[&d]), pick(&mut rng, &units.by_dim[&d])) {
                (Some(i), Some(i2)) => {
                    tgt.push(units.factor(i, (false, 0), e.0, e.1));
                    src.push(units.factor(i2, (false, 0), e.0, e.1));
                }
                _ => ok = false,
            }
        }
        if !ok { continue; }
        if units.oracle_dimension(&tgt).is_empty() { continue; }
        let va = ((rng.unit_f64() * 200.0 - 100.0) * 16.0).round() / 16.0;
        if va == 0.0 { continue; }
        let a = q(va.to_bits(), src);
        let t = q(1.0f64.to_bits(), tgt);
        let code = format!("{} -> {}", q_src(&a), q_src(&t));
        out.count("compound_display_cases");
        if only_coherent { out.count("compound_display_cases_coherent"); }
        check_compound_display(&ctx, &mut out, &code);
    }
    // D. thorough: every ordered pair of same-dimension units
    if args.tier == "thorough" {
        let mut n = 0u64;
        for (_, rows) in units.by_dim.iter() {
            for &i in rows {
                for &j in rows {
                    if i == j {
                        continue;
                    }
                    for m in [1.0f64, 40.5, -3.0e-7] {
                        let c = Case {
                            src: q(m.to_bits(), vec![units.factor(i, (false, 0), 1, 1)]),
                            tgt: vec![units.factor(j, (false, 0), 1, 1)],
                            via: None,
                        };
                        run_case(&ctx, &units, &mut out, &c);
                        n += 1;
                    }
                }
            }
        }
        out.count_n("exhaustive_ordered_pairs_x3", n);
        out.extra.insert("exhaustive".into(), "every ordered pair of same-dimension prelude units (no prefix) x 3 magnitudes".into());
    }
    out.finish();
}
