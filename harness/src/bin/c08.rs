//! C08 — no input crashes or hangs the interpreter.
//!
//! Search on the implementation: every input is interpreted (fresh prelude session, or an existing session that
//! accumulates state) on a worker thread with a large stack, under `catch_unwind` and a wall-clock watchdog; for
//! every reported error the diagnostics are rendered with codespan exactly as the front ends do.  A panic is
//! identified by its call site (`panic:<file>:<line>`), a hang by `hang:<input class>`.
//!
//! Model stream (`fact` requests): the factorial loop of `math.rs` with the `as u16` cast of the operator
//! count, executed by the Lean model (`Model/Crash.lean`) and compared with the real interpreter.

use numbat::diagnostic::{ErrorDiagnostic, ResolverDiagnostic};
use numbat::module_importer::BuiltinModuleImporter;
use numbat::resolver::CodeSource;
use numbat::verif::c20::codespan_reporting::term::{self, termcolor::NoColor, Config};
use numbat::{Context, NumbatError};
use nvh::*;
use std::sync::mpsc::{channel, Receiver, Sender};
use std::time::{Duration, Instant};

#[derive(Debug, Clone)]
struct Res {
    kind: String, // ok | resolver | nameres | typecheck | runtime:<Kind> | panic:<site> | render-panic:<site>
    detail: String,
    ms: u128,
}

fn site(p: &str) -> String {
    // "path:line :: msg" -> "numbat/src/x.rs:123"
    let loc = p.split(" :: ").next().unwrap_or("?");
    let loc = loc.rsplit_once("/repo/").map(|x| x.1).unwrap_or(loc);
    // external crates: keep crate-relative path without the registry prefix
    let loc = loc.rsplit_once("/registry/src/").map(|x| x.1.split_once('/').map(|y| y.1).unwrap_or(x.1)).unwrap_or(loc);
    loc.to_string()
}

fn interpret_one(ctx: &mut Context, input: &str) -> Res {
    let t0 = Instant::now();
    let mut settings = numbat::InterpreterSettings { print_fn: Box::new(|_| {}) };
    let r = catch(std::panic::AssertUnwindSafe(|| ctx.interpret_with_settings(&mut settings, input, CodeSource::Text).map(|_| ())));
    let (kind, detail) = match r {
        Err(p) => (format!("panic:{}", site(&p)), p),
        Ok(Ok(())) => ("ok".to_string(), String::new()),
        Ok(Err(e)) => {
            let kind = match &*e {
                NumbatError::ResolverError(_) => "resolver".to_string(),
                NumbatError::NameResolutionError(_) => "nameres".to_string(),
                NumbatError::TypeCheckError(_) => "typecheck".to_string(),
                NumbatError::RuntimeError(r) => format!("runtime:{}", format!("{:?}", r.kind).split(|c: char| !c.is_alphanumeric()).next().unwrap_or("?")),
            };
            // rendering the diagnostic must succeed too
            let rr = catch(std::panic::AssertUnwindSafe(|| {
                let diags = match &*e {
                    NumbatError::ResolverError(e) => e.diagnostics(),
                    NumbatError::NameResolutionError(e) => e.diagnostics(),
                    NumbatError::TypeCheckError(e) => e.diagnostics(),
                    NumbatError::RuntimeError(e) => ResolverDiagnostic { resolver: ctx.resolver(), error: e }.diagnostics(),
                };
                let mut w = NoColor::new(Vec::<u8>::new());
                let config = Config::default();
                for d in &diags {
                    term::emit(&mut w, &config, &ctx.resolver().files, d).map_err(|e| format!("{:?}", e))?;
                }
                Ok::<usize, String>(w.into_inner().len())
            }));
            match rr {
                Err(p) => (format!("render-panic:{}", site(&p)), p),
                Ok(Err(e)) => ("render-error".to_string(), e),
                Ok(Ok(_)) => (kind, String::new()),
            }
        }
    };
    Res { kind, detail, ms: t0.elapsed().as_millis() }
}

enum Job {
    /// interpret in a fresh clone of the prelude session
    Fresh(String),
    /// interpret in the worker's persistent session
    Session(String),
    ResetSession,
}

fn worker(rx: Receiver<Job>, tx: Sender<Res>) {
    let mut base = Context::new(BuiltinModuleImporter::default());
    let _ = base.interpret("use prelude", CodeSource::Internal);
    let mut session = base.clone();
    while let Ok(job) = rx.recv() {
        match job {
            Job::Fresh(s) => {
                let mut c = base.clone();
                let _ = tx.send(interpret_one(&mut c, &s));
            }
            Job::Session(s) => {
                let r = interpret_one(&mut session, &s);
                if r.kind.contains("panic") {
                    // a panic in the middle of a run leaves the VM of this session in an arbitrary state (the real
                    // process would be gone); continuing with it would report follow-up panics that are not defects
                    session = base.clone();
                }
                let _ = tx.send(r);
            }
            Job::ResetSession => {
                session = base.clone();
                let _ = tx.send(Res { kind: "ok".into(), detail: String::new(), ms: 0 });
            }
        }
    }
}

struct Pool {
    tx: Sender<Job>,
    rx: Receiver<Res>,
    hangs: usize,
}

impl Pool {
    fn spawn() -> (Sender<Job>, Receiver<Res>) {
        let (tx, jrx) = channel::<Job>();
        let (rtx, rx) = channel::<Res>();
        std::thread::Builder::new().stack_size(1 << 30).spawn(move || worker(jrx, rtx)).expect("spawn");
        (tx, rx)
    }
    fn new() -> Pool {
        let (tx, rx) = Pool::spawn();
        Pool { tx, rx, hangs: 0 }
    }
    fn run(&mut self, job: Job, limit: Duration) -> Res {
        let _ = self.tx.send(job);
        match self.rx.recv_timeout(limit) {
            Ok(r) => r,
            Err(_) => {
                // the worker is stuck (or died): abandon it and start a new one
                self.hangs += 1;
                let (tx, rx) = Pool::spawn();
                self.tx = tx;
                self.rx = rx;
                Res { kind: "hang".into(), detail: format!("no result within {:?}", limit), ms: limit.as_millis() }
            }
        }
    }
}

fn short(s: &str) -> String {
    let mut t: String = s.chars().take(120).collect();
    if s.chars().count() > 120 {
        t.push_str(&format!("…[{} chars]", s.chars().count()));
    }
    t.replace('\n', "⏎")
}

/// inputs are written to the replay/corpus files in an escaped one-line form
fn esc(s: &str) -> String {
    let mut o = String::new();
    for c in s.chars() {
        match c {
            '\\' => o.push_str("\\\\"),
            '\n' => o.push_str("\\n"),
            '\r' => o.push_str("\\r"),
            c => o.push(c),
        }
    }
    o
}
fn unesc(s: &str) -> String {
    let mut o = String::new();
    let mut it = s.chars();
    while let Some(c) = it.next() {
        if c == '\\' {
            match it.next() {
                Some('n') => o.push('\n'),
                Some('r') => o.push('\r'),
                Some('\\') => o.push('\\'),
                Some(x) => { o.push('\\'); o.push(x); }
                None => o.push('\\'),
            }
        } else {
            o.push(c);
        }
    }
    o
}

/// `rep <n> <text>` = text repeated n times; `wrap <n> <open> <inner> <close>`; `in <escaped text>`
fn expand(line: &str) -> Option<String> {
    if let Some(rest) = line.strip_prefix("in ") {
        return Some(unesc(rest));
    }
    if let Some(rest) = line.strip_prefix("rep ") {
        let (n, t) = rest.split_once(' ')?;
        let (pre, t) = t.split_once(" | ")?;
        let (body, post) = t.split_once(" | ")?;
        return Some(format!("{}{}{}", unesc(pre), unesc(body).repeat(n.parse().ok()?), unesc(post)));
    }
    if let Some(rest) = line.strip_prefix("wrap ") {
        let w: Vec<&str> = rest.splitn(4, ' ').collect();
        if w.len() == 4 {
            let n: usize = w[0].parse().ok()?;
            return Some(format!("{}{}{}", unesc(w[1]).repeat(n), unesc(w[2]), unesc(w[3]).repeat(n)));
        }
    }
    None
}

/// The key of a panic is its call site.  The VM's generic "Expected <kind> to be on the top of the stack"
/// assertions are shared by unrelated defects, so for them the key also carries the construct of the input that
/// can cause it (a reference to the last result, a unit defined by a non-quantity); anything else is `other`.
fn panic_key(r: &Res, input: &str) -> String {
    // `NaN`, `inf`, or a literal that overflows to infinity (`1e400`)
    let mentions_nonfinite = input.split(|c: char| !(c.is_alphanumeric() || c == '_')).any(|w| {
        w == "NaN" || w == "inf" || w.split_once('e').map(|(m, e)| !m.is_empty() && m.chars().all(|c| c.is_ascii_digit() || c == '_') && e.len() >= 3 && e.chars().all(|c| c.is_ascii_digit())).unwrap_or(false)
    });
    if r.detail.contains("IncompatibleUnits") && mentions_nonfinite {
        // the polymorphic `NaN`/`inf` literals (known finding C01-poly-nonfinite) reaching an `unwrap` of a unit
        // conversion in some FFI function or macro: one defect, many call sites
        return "panic:poly-nonfinite-conversion-unwrap".to_string();
    }
    if r.kind.contains("num-rational-") {
        // panics inside the num-rational crate are keyed by their message: the overflow family is a known finding,
        // anything else (a division by zero in `recip`, say) is not
        let msg = r.detail.rsplit(":: ").next().unwrap_or("").trim();
        return format!("{}num-rational:{}", if r.kind.starts_with("render-") { "render-panic:" } else { "panic:" }, msg);
    }
    if r.kind.contains("library/core/src/ops/arith.rs") {
        // an overflow inside a core operator impl: only generic code (num-rational / num-integer on `Ratio<i128>`)
        // reaches those through the trait; numbat's own arithmetic on primitives reports numbat's source location.
        // The rustc path and line are not stable: the key is the message.
        let msg = r.detail.rsplit(":: ").next().unwrap_or("").trim();
        return format!("{}core-ops-arith:{}", if r.kind.starts_with("render-") { "render-panic:" } else { "panic:" }, msg);
    }
    if r.detail.contains("to be on the top of the stack") {
        let uses_last = input.split(|c: char| !(c.is_alphanumeric() || c == '_')).any(|w| w == "ans" || w == "_");
        let tag = if uses_last { "last-result" } else if input.contains("unit ") && input.contains('=') { "unit-definition" } else { "other" };
        format!("{}:{}", r.kind, tag)
    } else {
        r.kind.clone()
    }
}

fn judge(pool: &mut Pool, out: &mut Out, line: &str, class: &str, session: bool) {
    let Some(input) = expand(line) else { return };
    let limit = Duration::from_secs(if input.len() > 20000 { 30 } else { 10 });
    let r = pool.run(if session { Job::Session(input.clone()) } else { Job::Fresh(input.clone()) }, limit);
    out.case(line, input.len() >= 3);
    out.count(&format!("class_{}", class));
    out.count(&format!("outcome_{}", r.kind.split(':').next().unwrap_or("?")));
    if r.ms > 2000 {
        out.count("slower_than_2s");
    }
    if r.kind.starts_with("panic:") || r.kind.starts_with("render-panic:") || r.kind == "render-error" {
        out.oracle_fail(&panic_key(&r, &input), line, &format!("{} on input `{}`: {}", r.kind, short(&input), short(&r.detail)));
    } else if r.kind == "hang" {
        // key of a hang: the construct that can cause it, else the first words of the input
        let has_wide_spec = {
            let b: Vec<char> = input.chars().collect();
            (0..b.len()).any(|i| b[i] == ':' && (i + 1..b.len()).take_while(|j| b[*j].is_ascii_digit() || b[*j] == '.').count() >= 6)
        };
        let key = if has_wide_spec { "hang:format-spec-width".to_string() }
            else if input.contains("base(") { "hang:base-nonfinite".to_string() }
            else { format!("hang:{}", line.split(' ').take(2).collect::<Vec<_>>().join(" ")) };
        out.oracle_fail(&key, line, &format!("no result within the time limit on input `{}`", short(&input)));
    }
    // model stream: factorial with n operators
    if let Some(rest) = line.strip_prefix("rep ") {
        if let Some((n, t)) = rest.split_once(' ') {
            if let Some((pre, t2)) = t.split_once(" | ") {
                if let (Some(("!", "")), Ok(x), Ok(n)) = (t2.split_once(" | "), pre.parse::<u32>(), n.parse::<u64>()) {
                    // implementation answer: value bits / error kind / panic / hang
                    let ans = if r.kind == "ok" { "ok".to_string() } else { r.kind.split(':').next().unwrap().to_string() };
                    out.line(&format!("fact {} {}", x, n), &ans);
                }
            }
        }
    }
}

/// does the text define a function whose body mentions the function itself?  (unbounded recursion is outside
/// the property; such texts are only run unmodified)
fn is_recursive(text: &str) -> bool {
    let mut rest = text;
    while let Some(pos) = rest.find("fn ") {
        let after = &rest[pos + 3..];
        let name: String = after.chars().take_while(|c| c.is_alphanumeric() || *c == '_').collect();
        if !name.is_empty() {
            // body: up to the next line that starts in column 0
            let mut body_end = after.len();
            let mut off = 0;
            for line in after.split_inclusive('\n') {
                off += line.len();
                if off < after.len() {
                    let next = after[off..].chars().next().unwrap_or(' ');
                    if !next.is_whitespace() {
                        body_end = off;
                        break;
                    }
                }
            }
            let body = &after[name.len().min(body_end)..body_end];
            if body.contains(&format!("{}(", name)) {
                return true;
            }
        }
        rest = after;
    }
    false
}

fn corpus_lines() -> Vec<String> {
    let mut v = Vec::new();
    for dir in ["/repo/examples", "/repo/numbat/modules/core", "/repo/numbat/modules/math", "/repo/numbat/modules/physics", "/repo/numbat/modules/extra", "/repo/examples/parse_error", "/repo/examples/typecheck_error", "/repo/examples/runtime_error", "/repo/examples/name_resolution_error"] {
        let mut files: Vec<_> = std::fs::read_dir(dir).map(|d| d.filter_map(|e| e.ok()).map(|e| e.path()).collect()).unwrap_or_default();
        files.sort();
        for f in files {
            if f.extension().map(|e| e == "nbt").unwrap_or(false) {
                if let Ok(t) = std::fs::read_to_string(&f) {
                    for l in t.lines() {
                        let l = l.trim();
                        // only lines that are complete statements on their own (the real parser accepts them)
                        if l.len() > 2 && !l.starts_with('#') && numbat::verif::c10::parse_sexpr(l).starts_with("ok ") {
                            v.push(l.to_string());
                        }
                    }
                    if t.len() < 6000 {
                        v.push(t);
                    }
                }
            }
        }
    }
    v
}

const ALPHABET: &[&str] = &[
    "(", ")", "[", "]", "{", "}", "+", "-", "*", "/", "^", "!", "<", ">", "=", ",", ".", ":", "|", "&", "?", "@", "#", "\"", "_", " ", "\n", "0", "1", "9", "e", "E", "x", "→", "²", "³", "⁻", "¹", "µ", "°", "×", "÷", "≤", "≥", "≠", "−", "per", "to", "if", "then", "else", "fn", "let", "unit", "dimension", "struct", "where", "and", "use", "true", "false", "NaN", "inf", "1e308", "1e-320", "0x", "0b1", "1_000", "%", "$", "€", "\\", "'", "\t", "\u{0}", "\u{feff}", "\u{200b}", "😀", "₁", "ₓ", "½",
];

/// token-level edit: keeps most inputs inside the grammar's neighbourhood
fn mutate_tokens(rng: &mut Rng, s: &str) -> String {
    let mut toks: Vec<String> = s.split(' ').map(|t| t.to_string()).collect();
    let i = rng.below(toks.len());
    match rng.below(5) {
        0 => { toks.remove(i); }
        1 => { let t = toks[i].clone(); toks.insert(i, t); }
        2 => { let j = rng.below(toks.len()); toks.swap(i, j); }
        3 => { toks[i] = rng.pick(&["0", "1", "x", "m", "(1 m)", "1e308", "2^126", "(-1)", "[]", "\"s\"", "true", "inf", "1e30", "(1/0)", "NaN", "-", "^", "!", "ans", "_"]).to_string(); }
        _ => { toks.insert(i, rng.pick(&["-", "2", "(", ")", "^2", "!", "->", "per", "+", "*", "/", "ans", "to"]).to_string()); }
    }
    toks.join(" ")
}

fn mutate(rng: &mut Rng, s: &str) -> String {
    if rng.chance(1, 2) {
        return mutate_tokens(rng, s);
    }
    let mut chars: Vec<char> = s.chars().collect();
    let k = 1 + rng.below(2);
    for _ in 0..k {
        if chars.is_empty() {
            chars.extend(rng.pick(ALPHABET).chars());
            continue;
        }
        let i = rng.below(chars.len());
        match rng.below(6) {
            0 => { chars.remove(i); }
            1 => { let t: Vec<char> = rng.pick(ALPHABET).chars().collect(); for (j, c) in t.into_iter().enumerate() { chars.insert(i + j, c); } }
            2 => { let c = chars[i]; chars.insert(i, c); }
            3 => { let j = rng.below(chars.len()); chars.swap(i, j); }
            4 => { let j = (i + 1 + rng.below(8)).min(chars.len()); chars.drain(i..j); }
            _ => { let t: Vec<char> = rng.pick(ALPHABET).chars().collect(); chars[i] = t[0]; }
        }
    }
    chars.into_iter().collect()
}

/// replace one numeric literal of a valid statement by an extreme one (stays inside the grammar)
fn literal_subst(rng: &mut Rng, s: &str) -> String {
    let chars: Vec<char> = s.chars().collect();
    let mut runs: Vec<(usize, usize)> = Vec::new();
    let mut i = 0;
    while i < chars.len() {
        if chars[i].is_ascii_digit() && (i == 0 || !(chars[i - 1].is_alphanumeric() || chars[i - 1] == '_')) {
            let mut j = i;
            while j < chars.len() && (chars[j].is_ascii_digit() || chars[j] == '.' || chars[j] == '_') { j += 1; }
            runs.push((i, j));
            i = j;
        } else {
            i += 1;
        }
    }
    if runs.is_empty() {
        return format!("({}) * {}", s, rng.pick(&["1e308", "0", "(1/0)", "NaN"]));
    }
    let (a, b) = *rng.pick(&runs);
    let rep = *rng.pick(&["0", "1e308", "1e-308", "(2^126)", "65536", "(-1)", "(1/0)", "1e30", "0.1", "(1/3)", "9007199254740993", "NaN", "inf", "(-0)", "1e-30", "170141183460469231731687303715884105728", "0.30000000000000004", "(0.1+0.2)", "1e400"]);
    let mut o: String = chars[..a].iter().collect();
    o.push_str(rep);
    o.extend(chars[b..].iter());
    o
}

fn grammar(rng: &mut Rng, depth: usize) -> String {
    let atoms = ["1", "2.5", "0", "1e308", "1e-308", "1e30", "2^126", "(-1)", "0.1", "1/3", "m", "cm", "km", "s", "kg", "m/cm", "pi", "inf", "NaN", "2 m", "3 ft", "1 N", "x", "true", "false", "\"a{1}b\"", "[1, 2]", "[]", "1e400", "0x7fffffffffffffff", "9999999999999999999999", "1e-400", "5 %", "°C", "now()", "90°"];
    if depth == 0 {
        return rng.pick(&atoms).to_string();
    }
    match rng.below(16) {
        0 => format!("({} + {})", grammar(rng, depth - 1), grammar(rng, depth - 1)),
        1 => format!("({} * {})", grammar(rng, depth - 1), grammar(rng, depth - 1)),
        2 => format!("({} / {})", grammar(rng, depth - 1), grammar(rng, depth - 1)),
        3 => format!("({})^({})", grammar(rng, depth - 1), grammar(rng, depth - 1)),
        4 => format!("({})^{}", grammar(rng, depth - 1), rng.pick(&["2", "-3", "1e30", "(1/3)", "0.5", "(2^126)", "1e-30", "1e308", "(-1e30)", "0"])),
        5 => format!("{}{}", grammar(rng, depth - 1), "!".repeat(1 + rng.below(4))),
        6 => format!("(-{})", grammar(rng, depth - 1)),
        7 => format!("({} -> {})", grammar(rng, depth - 1), rng.pick(&["m", "cm", "s", "km/h", "m^2", "1", "%", "(1e30 m)"])),
        8 => format!("(if {} < {} then {} else {})", grammar(rng, depth - 1), grammar(rng, depth - 1), grammar(rng, depth - 1), grammar(rng, depth - 1)),
        9 => format!("{}({})", rng.pick(&["sqrt", "sin", "ln", "abs", "floor", "sqr", "len", "head", "tail", "sum", "str_length", "factorial", "gamma", "unit_of", "value_of", "random", "mod", "round_in"]), grammar(rng, depth - 1)),
        10 => format!("fn f(x) = {}\nf({})", grammar(rng, depth - 1), grammar(rng, depth - 1)),
        11 => format!("let x = {}\n{}", grammar(rng, depth - 1), grammar(rng, depth - 1)),
        12 => format!("unit uq = {}\n{} uq", grammar(rng, depth - 1), grammar(rng, depth - 1)),
        13 => format!("[{}, {}]", grammar(rng, depth - 1), grammar(rng, depth - 1)),
        14 => format!("\"{{{}}}\"", grammar(rng, depth - 1)),
        _ => format!("({}) |> {}", grammar(rng, depth - 1), rng.pick(&["sqr", "sqrt", "abs", "len", "str_length"])),
    }
}

/// parameter types of a printed signature `fn name<…>(a: T, b: U) -> R`
fn param_types(sig: &str) -> Vec<String> {
    let Some(open) = sig.find('(') else { return vec![] };
    let mut depth = 0i32;
    let mut cur = String::new();
    let mut parts: Vec<String> = Vec::new();
    for ch in sig[open..].chars() {
        match ch {
            '(' | '[' | '<' => { depth += 1; if depth > 1 { cur.push(ch); } }
            ')' | ']' | '>' => { depth -= 1; if depth == 0 { break; } cur.push(ch); }
            ',' if depth == 1 => { parts.push(std::mem::take(&mut cur)); }
            _ => cur.push(ch),
        }
    }
    if !cur.trim().is_empty() { parts.push(cur); }
    parts.iter().map(|p| p.split_once(':').map(|(_, t)| t.trim().to_string()).unwrap_or_default()).collect()
}

/// an argument of the given printed type, biased towards the edges of its domain
fn edge_arg(rng: &mut Rng, ty: &str, depth: usize) -> String {
    let strings = ["", "a", "Numbat", "❤", "äb", "5 µm", "a❤b❤c", "{", "}", "\\", "a b  c", "0", "1e5", "-", "2022-07-20 21:52 +0200", "UTC", "Europe/Berlin", "m", "km/h", "%Y-%m-%d", "ｆｕｌｌ", "e\u{301}", "🙂🙂"];
    let numbers = ["0", "1", "-1", "2", "3", "0.5", "-0.5", "1e308", "-1e308", "1e-308", "NaN", "inf", "-inf", "9007199254740993", "3.7", "255", "16", "65536", "1e10", "-3", "(-0)", "4294967296", "1e19", "(1/3)", "100"];
    let t = ty.trim();
    if t == "String" {
        format!("\"{}\"", rng.pick(&strings))
    } else if t == "Bool" {
        rng.pick(&["true", "false"]).to_string()
    } else if let Some(inner) = t.strip_prefix("List<").and_then(|r| r.strip_suffix('>')) {
        let n = *rng.pick(&[0usize, 0, 1, 2, 3, 5]);
        if depth == 0 { return "[]".into(); }
        format!("[{}]", (0..n).map(|_| edge_arg(rng, inner, depth - 1)).collect::<Vec<_>>().join(", "))
    } else if t == "DateTime" {
        rng.pick(&["now()", "datetime(\"2022-07-20 21:52 +0200\")", "datetime(\"1969-12-31 23:59:59.5 UTC\")", "datetime(\"0001-01-01 00:00:00 UTC\")", "datetime(\"9999-12-31 23:59:59 UTC\")", "today()"]).to_string()
    } else if t.starts_with("Fn[") {
        rng.pick(&["sqr", "sqrt", "abs", "sin", "str_length", "is_nan", "head", "id", "floor"]).to_string()
    } else if t == "Scalar" {
        // a scalar parameter may be an iteration count (`catalan(n)`, `range(a, b)`): no huge and no infinite values
        // here — work proportional to an argument, or an unbounded recursion, is outside the property
        rng.pick(&["0", "1", "-1", "2", "3", "0.5", "-0.5", "1e-308", "NaN", "3.7", "255", "16", "1000", "-3", "(-0)", "(1/3)", "100", "-1000.5", "17"]).to_string()
    } else {
        // a dimension or a type parameter
        let n = *rng.pick(&numbers);
        match rng.below(6) {
            0 => n.to_string(),
            1 => format!("{} m", n),
            2 => format!("{} s", n),
            3 => format!("({} km/h)", n),
            4 => format!("\"{}\"", rng.pick(&strings)),
            _ => format!("{} K", n),
        }
    }
}

/// a call of a library function of the prelude session with arguments of the declared types
fn ffi_call(rng: &mut Rng, fns: &[(String, Vec<String>)]) -> String {
    let (name, params) = rng.pick(fns).clone();
    let call = format!("{}({})", name, params.iter().map(|t| edge_arg(rng, t, 2)).collect::<Vec<_>>().join(", "));
    match rng.below(8) {
        0 => format!("print({})", call),
        1 => format!("\"{{{}}}\"", call),
        2 => format!("let r = {}\nr", call),
        _ => call,
    }
}

/// a dimensionful base raised to an exponent the checker has to evaluate at compile time: small integers under
/// + - * / ^ (zero bases, negative and fractional exponents, divisions by zero included)
/// operations whose range checks live in numbat (date-time arithmetic with durations of every magnitude, the
/// three-argument assertion with tolerances of every magnitude — its failure message formats the tolerance), and
/// definitions whose local names shadow units
fn range_edges(rng: &mut Rng) -> String {
    let mags = ["0", "1", "-1", "1e3", "1e9", "6e11", "6.4e11", "7e11", "1e12", "-1e12", "1e15", "1e18", "9e18", "9.3e18", "1e19", "1e30", "-1e30", "1e308", "1e-9", "1e-130", "1e-300", "5e-324", "NaN", "inf", "-inf"];
    let tunits = ["s", "ms", "µs", "ns", "min", "hours", "days", "weeks", "months", "years", "decades", "centuries", "millennia"];
    let dts = ["now()", "date(\"2000-01-01\")", "datetime(\"2022-07-20 21:52 +0200\")", "datetime(\"0001-01-01 00:00:00 UTC\")", "datetime(\"9999-12-31 23:59:59 UTC\")", "today()"];
    match rng.below(9) {
        0 | 1 => format!("{} {} {} {}", rng.pick(&dts), rng.pick(&["+", "-"]), rng.pick(&mags), rng.pick(&tunits)),
        2 => format!("{} - {}", rng.pick(&dts), rng.pick(&dts)),
        3 => format!("{}({}, {} {})", rng.pick(&["calendar_add", "calendar_sub"]), rng.pick(&dts), rng.pick(&mags), rng.pick(&["days", "months", "years", "s", "hours"])),
        4 | 5 => {
            let (a, b, u) = *rng.pick(&[("1", "2", ""), ("1 m", "2 cm", " mm"), ("1 m", "1 m", " m"), ("0", "1e-200", ""), ("1e300", "-1e300", ""), ("3 s", "3.5 s", " ms")]);
            format!("assert_eq({}, {}, {}{})", a, b, rng.pick(&mags), u)
        }
        6 => format!("from_unixtime({} {})", rng.pick(&mags), rng.pick(&["s", "ms", "days", "years"])),
        _ => {
            // a parameter / where-variable / let named like a unit or a prelude identifier, used as a unit nearby
            let n = *rng.pick(&["s", "m", "g", "h", "meter", "second", "pi", "e", "c", "x", "K", "N"]);
            let n2 = *rng.pick(&["s", "m", "g", "h", "kg", "min", "x"]);
            match rng.below(5) {
                0 => format!("fn f(x: Scalar) -> Scalar = a where a = x * {} / {} and {} = 5\nf(1)", n, n, n),
                1 => format!("fn f({}: Time) -> Time = 2 kilo{}\nf(1 s)", n, n),
                2 => format!("fn f(x: Scalar) = {} where {} = x * {} and {} = 2 {}\nf(2)", n, n, n2, n2, n),
                3 => format!("fn f({}) = {} * 2 {} where {} = 3\nf(1)", n, n, n2, n2),
                _ => format!("fn f(t: Time) -> Time = 2 kilo{} where {} = 3 s\nf(1 s)", n, n),
            }
        }
    }
}

// ------------------------------------------------------------------ deeply nested inputs (separate process)
//
// An input nested tens of thousands of levels deep makes the recursive-descent parser (or the passes after it)
// overflow the stack: the process is killed by a signal, which no in-process guard can observe. These few inputs
// are therefore handed to the real `numbat` binary (built from the current tree) in a child process.

const CLI_BIN: &str = "/repo/target/debug/numbat";

fn build_cli() -> Result<(), String> {
    let o = std::process::Command::new("cargo")
        .args(["build", "--offline", "-p", "numbat-cli"])
        .current_dir("/repo")
        .env("CARGO_NET_OFFLINE", "true")
        .env("CARGO_TERM_COLOR", "never")
        .output()
        .map_err(|e| format!("cargo not runnable: {e}"))?;
    if !o.status.success() {
        return Err(format!("cargo build -p numbat-cli failed:\n{}", String::from_utf8_lossy(&o.stderr)));
    }
    Ok(())
}

fn deep_input(shape: &str, n: usize) -> Option<String> {
    Some(match shape {
        "parens" => format!("{}1{}", "(".repeat(n), ")".repeat(n)),
        "if-else" => format!("{}2", "if true then 1 else ".repeat(n)),
        "sum" => format!("if false then {} else 2", vec!["1.5"; n].join("+")),
        "unary-minus" => format!("{}1", "-".repeat(n)),
        "list" => format!("{}1{}", "[".repeat(n), "]".repeat(n)),
        _ => return None,
    })
}

/// `deep <shape> <n>`: the input must end with a result or a reported error (exit status 0 or 1), not with a signal
fn deep_probe(out: &mut Out, shape: &str, n: usize) {
    let Some(text) = deep_input(shape, n) else { return };
    let dir = std::env::temp_dir().join(format!("C08_deep_{}", std::process::id()));
    let _ = std::fs::create_dir_all(&dir);
    let file = dir.join("deep.nbt");
    if std::fs::write(&file, &text).is_err() { return; }
    let line = format!("deep {} {}", shape, n);
    // the main thread's stack is what the shell's limit says: fix it at the usual 8 MiB so that the depths mean the same
    // everywhere (if the hard limit is lower, the probe is skipped)
    let mut child = match std::process::Command::new("sh")
        .arg("-c")
        .arg(format!("ulimit -s 8192 2>/dev/null; [ \"$(ulimit -s)\" = 8192 ] || exit 97; exec {} --no-config --no-init --no-prelude --color never \"$0\"", CLI_BIN))
        .arg(&file)
        .env("HOME", &dir)
        .env("XDG_CONFIG_HOME", dir.join("cfg"))
        .stdin(std::process::Stdio::null())
        .stdout(std::process::Stdio::null())
        .stderr(std::process::Stdio::null())
        .spawn()
    {
        Ok(c) => c,
        Err(e) => { out.oracle_fail(&format!("deep-nesting:spawn:{}", shape), &line, &format!("could not run {}: {}", CLI_BIN, e)); return; }
    };
    let t0 = Instant::now();
    let status = loop {
        match child.try_wait() {
            Ok(Some(s)) => break Some(s),
            Ok(None) if t0.elapsed() > Duration::from_secs(60) => { let _ = child.kill(); let _ = child.wait(); break None; }
            Ok(None) => std::thread::sleep(Duration::from_millis(20)),
            Err(_) => break None,
        }
    };
    out.case(&line, true);
    out.count("class_deep_nesting");
    match status {
        None => out.oracle_fail(&format!("hang:deep-nesting:{}:{}", shape, n), &line, &format!("no result within 60 s for {} nested {} levels deep", shape, n)),
        Some(s) => match s.code() {
            Some(0) | Some(1) => out.count("deep_nesting_reported"),
            // the environment does not allow an 8 MiB stack: the depths would mean something else — no verdict
            Some(97) => out.count("deep_nesting_skipped_no_8MiB_stack"),
            Some(c) => out.oracle_fail(&format!("abort:deep-nesting:{}:{}", shape, n), &line, &format!("`{}` nested {} levels deep: the process exits with status {} (neither a result nor a reported error)", shape, n, c)),
            None => out.oracle_fail(&format!("abort:deep-nesting:{}:{}", shape, n), &line, &format!("`{}` nested {} levels deep ({} bytes): the process is killed by a signal (stack overflow) instead of reporting an error", shape, n, text.len())),
        },
    }
    let _ = std::fs::remove_dir_all(&dir);
}

fn const_exponent(rng: &mut Rng) -> String {
    fn ex(rng: &mut Rng, depth: usize) -> String {
        let ints = ["0", "1", "2", "3", "-1", "-2", "-3", "(1 - 1)", "(-0)", "0.5", "(1/2)", "10", "127", "(2^62)"];
        if depth == 0 { return rng.pick(&ints).to_string(); }
        match rng.below(8) {
            // the singular points of exponent arithmetic: a zero base under a negative (or zero) exponent, a zero divisor
            7 => {
                let z = *rng.pick(&["0", "(1 - 1)", "(-0)", "(0 * 3)", "0.0"]);
                let n = *rng.pick(&["-1", "(-1)", "-2", "(1 - 2)", "(-3)", "0", "(-1/2)"]);
                if rng.chance(1, 4) { format!("({} / {})", ex(rng, depth - 1), z) } else { format!("({}^{})", z, n) }
            }
            0 => format!("({} + {})", ex(rng, depth - 1), ex(rng, depth - 1)),
            1 => format!("({} - {})", ex(rng, depth - 1), ex(rng, depth - 1)),
            2 => format!("({} * {})", ex(rng, depth - 1), ex(rng, depth - 1)),
            3 => format!("({} / {})", ex(rng, depth - 1), ex(rng, depth - 1)),
            4 | 5 => format!("({}^{})", ex(rng, depth - 1), ex(rng, depth - 1)),
            _ => format!("(-{})", ex(rng, depth - 1)),
        }
    }
    let d = 1 + rng.below(3);
    let e = ex(rng, d);
    match rng.below(6) {
        0 => format!("m^{}", e),
        1 => format!("(3 kg)^{}", e),
        2 => format!("fn f(x: Length) = x^{}\nf(2 m)", e),
        3 => format!("let a: Length^{} = 1 m", e),
        4 => format!("unit uq = s^{}\n2 uq", e),
        _ => format!("(2 m/s)^{} + 1", e),
    }
}

fn soup(rng: &mut Rng) -> String {
    let n = 1 + rng.below(60);
    let mut s = String::new();
    for _ in 0..n {
        let c = match rng.below(8) {
            0 => rng.range(0x20, 0x7e) as u32,
            1 => rng.range(0x80, 0x7ff) as u32,
            2 => rng.range(0x2000, 0x2bff) as u32,
            3 => rng.range(0x1f300, 0x1f6ff) as u32,
            4 => rng.range(0, 0x1f) as u32,
            5 => rng.range(0x370, 0x3ff) as u32,
            6 => rng.range(0x2070, 0x209f) as u32,
            _ => rng.range(0x30, 0x39) as u32,
        };
        if let Some(ch) = char::from_u32(c) {
            s.push(ch);
        }
    }
    s
}

fn main() {
    let args = Args::parse();
    let mut out = Out::new(&args);
    out.rule = "inputs: (1) every example / standard-library line and small file, (2) 1-4 random edits (delete, insert token from an operator/keyword/unicode alphabet, duplicate, swap, cut, replace) of those, (3) grammar-generated programs with extreme literals and exponents, factorial runs, conversions, conditionals, calls, definitions, interpolation, (4) extreme shapes: repeated operators / nesting up to depth 500 / long literals and identifiers / huge lists, (5) random UTF-8 from eight code-point ranges, (6) calls of every function of the prelude session (parameter types read from its printed signature) with arguments from the edges of each type (empty / multi-byte / long strings, 0, negative, huge, fractional, NaN, infinite numbers, empty and short lists, extreme date-times), (7) dimensionful bases raised to compile-time exponent expressions over small integers (zero bases, negative and fractional exponents); each in a fresh prelude session and a share of them in one accumulating session; diagnostics rendered for every error; 10 s watchdog (30 s for inputs over 20 kB). distinct = input line; non-trivial = at least 3 bytes".into();
    let mut pool = Pool::new();
    let run_file = |p: &std::path::Path, out: &mut Out, pool: &mut Pool| {
        for l in read_lines(p) {
            if l.starts_with("in ") || l.starts_with("rep ") || l.starts_with("wrap ") {
                judge(pool, out, &l, "corpus", false);
            } else if let Some(rest) = l.strip_prefix("deep ") {
                let w: Vec<&str> = rest.split(' ').collect();
                if let (Some(shape), Some(n)) = (w.first(), w.get(1).and_then(|x| x.parse::<usize>().ok())) {
                    if build_cli().is_ok() { deep_probe(out, shape, n); }
                }
            } else if let Some(rest) = l.strip_prefix("sess ") {
                // a history: inputs separated by ` ;; `, run one after the other in one session
                pool.run(Job::ResetSession, Duration::from_secs(20));
                let mut failed = false;
                for (k, part) in rest.split(" ;; ").enumerate() {
                    let r = pool.run(Job::Session(unesc(part)), Duration::from_secs(10));
                    if !failed && (r.kind.starts_with("panic:") || r.kind.starts_with("render-panic:") || r.kind == "hang") {
                        failed = true;
                        out.oracle_fail(&panic_key(&r, rest), &l, &format!("{} at input {} of the history `{}`: {}", r.kind, k + 1, short(rest), short(&r.detail)));
                    }
                }
                out.case(&l, true);
                out.count("class_corpus_history");
                pool.run(Job::ResetSession, Duration::from_secs(20));
            }
        }
    };
    if let Some(p) = &args.replay {
        run_file(p, &mut out, &mut pool);
        out.finish();
        return;
    }
    if let Some(dir) = args.extra.get("corpus") {
        let mut files: Vec<_> = std::fs::read_dir(dir).map(|d| d.filter_map(|e| e.ok()).map(|e| e.path()).collect()).unwrap_or_default();
        files.sort();
        for f in files {
            run_file(&f, &mut out, &mut pool);
        }
    }
    let mut rng = Rng::new(args.seed);
    let all_corpus = corpus_lines();
    out.count_n("corpus_lines_available", all_corpus.len() as u64);
    // recursive definitions are run as they are, never edited (an edited argument can recurse without bound)
    let (recursive, corpus): (Vec<String>, Vec<String>) = all_corpus.into_iter().partition(|t| is_recursive(t));
    out.count_n("corpus_recursive_run_unmodified", recursive.len() as u64);
    for t in &recursive {
        judge(&mut pool, &mut out, &format!("in {}", esc(t)), "corpus_recursive", false);
    }
    let n = args.count(3000, 300000);
    // (1) corpus as it is (a sample in quick, all in thorough)
    let take = if args.tier == "thorough" { corpus.len() } else { 300.min(corpus.len()) };
    for i in 0..take {
        let l = if args.tier == "thorough" { corpus[i].clone() } else { corpus[rng.below(corpus.len())].clone() };
        judge(&mut pool, &mut out, &format!("in {}", esc(&l)), "corpus_line", false);
    }
    // (4) extreme shapes
    let shapes: Vec<String> = vec![
        "rep 2 5 | ! | ".into(), "rep 100 3 | ! | ".into(), "rep 65535 3 | ! | ".into(), "rep 65536 3 | ! | ".into(), "rep 65537 3 | ! | ".into(), "rep 70000 0 | ! | ".into(), "rep 65536 1 | ! | ".into(), "rep 131072 2 | ! | ".into(),
        "rep 3000 1 |  + 1 | ".into(), "rep 3000  | - | 1".into(), "rep 2000 2 |  * 3 m | ".into(), "rep 2000 2 | ^2 | ".into(), "rep 500 2 | ^(1/2) | ".into(), "rep 3000 1 m |  -> cm | ".into(),
        "wrap 400 ( 1 )".into(), "wrap 500 [ 1 ]".into(), "wrap 300 (- 1 )".into(), "wrap 200 sqr( 2 )".into(), "wrap 100 \"{ 1 }\"".into(), "wrap 300 (if\\strue\\sthen\\s 1 \\selse\\s0)".replace("\\s", " "),
        "rep 70000 [ | 1,  | 1]".into(), "rep 300 1 | 0 | ".into(), "rep 400 0. | 0 | 1".into(), "rep 100000 x | y | ".into(), "rep 5000 \" | a | \"".into(), "rep 2000 fn f( | x,  | y) = 1".into(),
        "in ((m/cm)^1e30)^1e30".into(), "in fn f(x) = x^(2^126) * x^(2^126)".into(), "in (m^(1/3))^(2^100)".into(), "in 2^(2^(2^(2^2)))".into(), "in 10^400 m -> cm".into(), "in 1e308 * 1e308 km -> mm".into(),
        "in unit u1 = 1e300 m\\nunit u2 = 1e300 u1\\n1 u2 -> m".into(), "in dimension D = Length^(2^62)\\nunit q: D".into(), "in fn g(x) = x^(1/(2^100))".into(), "in let x = 1 m^(170141183460469231731687303715884105727)".into(),
        "in m^(1/3)^(1/3)^(1/3)^(1/3)^(1/3)^(1/3)^(1/3)^(1/3)^(1/3)^(1/3)^(1/3)^(1/3)^(1/3)^(1/3)^(1/3)^(1/3)^(1/3)^(1/3)^(1/3)^(1/3)^(1/3)^(1/3)^(1/3)^(1/3)^(1/3)^(1/3)^(1/3)^(1/3)^(1/3)^(1/3)^(1/3)^(1/3)^(1/3)^(1/3)^(1/3)^(1/3)^(1/3)^(1/3)^(1/3)^(1/3)^(1/3)^(1/3)^(1/3)^(1/3)^(1/3)^(1/3)^(1/3)^(1/3)^(1/3)^(1/3)^(1/3)^(1/3)^(1/3)^(1/3)^(1/3)^(1/3)^(1/3)^(1/3)^(1/3)^(1/3)^(1/3)^(1/3)^(1/3)^(1/3)^(1/3)^(1/3)^(1/3)^(1/3)^(1/3)^(1/3)^(1/3)^(1/3)^(1/3)^(1/3)^(1/3)^(1/3)^(1/3)^(1/3)^(1/3)^(1/3)".into(),
    ];
    for s in &shapes {
        judge(&mut pool, &mut out, s, "extreme_shape", false);
    }
    // every function of the prelude session with its declared parameter types
    let fninfo: Vec<(String, Vec<String>)> = {
        let ctx = nvh::qty::prelude_ctx();
        let mut v: Vec<(String, Vec<String>)> = ctx.functions().map(|f| (f.fn_name.to_string(), param_types(&f.signature_str))).filter(|(n, _)| n != "exit" && n != "clear" && n != "random").collect();
        v.sort();
        v
    };
    out.count_n("library_functions", fninfo.len() as u64);
    // (2) (3) (5) (6) (7) random inputs
    for i in 0..n {
        let session = i % 5 == 4;
        if session && i % 400 == 4 {
            pool.run(Job::ResetSession, Duration::from_secs(20));
        }
        let (text, class) = match i % 12 {
            0 | 1 => { let base = corpus[rng.below(corpus.len())].clone(); (mutate(&mut rng, &base), "mutated_corpus") }
            2 | 3 => { let base = corpus[rng.below(corpus.len())].clone(); let t = literal_subst(&mut rng, &base); (if rng.chance(1, 3) { literal_subst(&mut rng, &t) } else { t }, "literal_substitution") }
            4..=6 => { let d = 1 + rng.below(4); (grammar(&mut rng, d), "grammar") }
            7 => (soup(&mut rng), "utf8_soup"),
            8 => { let g = grammar(&mut rng, 2); (mutate(&mut rng, &g), "mutated_grammar") }
            9 => { let a = corpus[rng.below(corpus.len())].clone(); let b = soup(&mut rng); (format!("{}{}", a.chars().take(40).collect::<String>(), b), "corpus_plus_soup") }
            10 => (ffi_call(&mut rng, &fninfo), "library_call"),
            _ => if (i / 12) % 2 == 0 { (const_exponent(&mut rng), "const_exponent") } else { (range_edges(&mut rng), "range_edges") },
        };
        judge(&mut pool, &mut out, &format!("in {}", esc(&text)), class, session);
        if pool.hangs > 5 {
            out.count("stopped_after_hangs");
            break;
        }
    }
    // deeply nested inputs, in a child process (moderate depths must simply work; the large ones are the recorded finding)
    match build_cli() {
        Ok(()) => {
            for (shape, n) in [("parens", 100usize), ("if-else", 50), ("sum", 100), ("unary-minus", 100), ("list", 100),
                               ("parens", 100_000), ("if-else", 5_000), ("sum", 40_000), ("unary-minus", 100_000), ("list", 100_000)] {
                deep_probe(&mut out, shape, n);
            }
        }
        Err(e) => out.oracle_fail("deep-nesting:build", "deep parens 200", &e),
    }
    out.count_n("hangs", pool.hangs as u64);
    out.finish();
    // stuck worker threads may still be running
    std::process::exit(0);
}
