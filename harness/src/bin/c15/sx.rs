//! tiny S-expression reader for the typed-expression dumps of `numbat::verif::c15::expr_sexpr`
//! (used for the input-distribution histogram and for classifying failures by tree shape)

#[derive(Clone, Debug, PartialEq)]
pub enum Sx {
    Atom(String),
    List(Vec<Sx>),
}

pub fn parse(s: &str) -> Option<Sx> {
    let toks = tokenize(s);
    let mut pos = 0;
    let r = parse_at(&toks, &mut pos)?;
    if pos == toks.len() {
        Some(r)
    } else {
        None
    }
}

fn tokenize(s: &str) -> Vec<String> {
    let mut out = Vec::new();
    let mut cur = String::new();
    for c in s.chars() {
        match c {
            '(' | ')' => {
                if !cur.is_empty() {
                    out.push(std::mem::take(&mut cur));
                }
                out.push(c.to_string());
            }
            ' ' => {
                if !cur.is_empty() {
                    out.push(std::mem::take(&mut cur));
                }
            }
            c => cur.push(c),
        }
    }
    if !cur.is_empty() {
        out.push(cur);
    }
    out
}

fn parse_at(t: &[String], pos: &mut usize) -> Option<Sx> {
    let tok = t.get(*pos)?;
    if tok == "(" {
        *pos += 1;
        let mut items = Vec::new();
        loop {
            let nx = t.get(*pos)?;
            if nx == ")" {
                *pos += 1;
                return Some(Sx::List(items));
            }
            items.push(parse_at(t, pos)?);
        }
    } else if tok == ")" {
        None
    } else {
        *pos += 1;
        Some(Sx::Atom(tok.clone()))
    }
}

impl Sx {
    pub fn head(&self) -> &str {
        match self {
            Sx::List(v) => match v.first() {
                Some(Sx::Atom(a)) => a,
                _ => "",
            },
            Sx::Atom(a) => a,
        }
    }
    pub fn items(&self) -> &[Sx] {
        match self {
            Sx::List(v) => v,
            _ => &[],
        }
    }
    pub fn atom(&self, i: usize) -> &str {
        match self.items().get(i) {
            Some(Sx::Atom(a)) => a,
            _ => "",
        }
    }
    /// the node label used in histograms / shape keys: constructor, with the operator for bin/bind
    pub fn label(&self) -> String {
        match self.head() {
            "bin" | "bind" => format!("{}.{}", self.head(), self.atom(1)),
            h => h.to_string(),
        }
    }
    /// sub-expressions (typed-expression children) in order, with the role they have in the parent
    pub fn children(&self) -> Vec<(&'static str, &Sx)> {
        let it = self.items();
        match self.head() {
            "neg" | "not" => vec![("operand", &it[1])],
            "fact" => vec![("operand", &it[2])],
            "bin" | "bind" => vec![("lhs", &it[2]), ("rhs", &it[3])],
            "call" => it[2..].iter().map(|x| ("arg", x)).collect(),
            "ccall" => {
                let mut v = vec![("callee", &it[1])];
                v.extend(it[2..].iter().map(|x| ("arg", x)));
                v
            }
            "if" => vec![("cond", &it[1]), ("then", &it[2]), ("else", &it[3])],
            "str" => it[1..]
                .iter()
                .filter(|p| p.head() == "interp")
                .map(|p| ("interp", &p.items()[1]))
                .collect(),
            "mk" => it[2..].iter().map(|f| ("field", &f.items()[2])).collect(),
            "get" => vec![("object", &it[1])],
            "list" => it[1..].iter().map(|x| ("elem", x)).collect(),
            _ => vec![],
        }
    }
    pub fn size(&self) -> usize {
        1 + self.children().iter().map(|(_, c)| c.size()).sum::<usize>()
    }
}

/// decode a code-point encoded atom
pub fn uncps(a: &str) -> String {
    if a == "-" {
        return String::new();
    }
    a.split('.')
        .filter_map(|x| x.parse::<u32>().ok().and_then(char::from_u32))
        .collect()
}
