//! structured, type-directed generator of numbat statements for C15 (and their shrinker)

use nvh::Rng;

#[derive(Clone, Debug, PartialEq)]
pub enum Ty {
    /// Length^l * Time^t
    Dim(i8, i8),
    /// the dimension of a generic parameter `x: D`
    Gen,
    Bool,
    Str,
    Temp,
    Date,
    ListScalar,
    ListLen,
    Pt,
    FnS,
}

#[derive(Clone, Debug, PartialEq)]
pub struct G {
    pub ty: Ty,
    pub n: N,
}

#[derive(Clone, Debug, PartialEq)]
pub enum SP {
    Fix(String),
    Interp(G, Option<String>),
}

#[derive(Clone, Debug, PartialEq)]
pub enum N {
    Leaf(String),
    Pre(String, Box<G>),
    Post(Box<G>, String),
    Bin(Box<G>, String, Box<G>),
    Call(String, Vec<G>),
    CCall(Box<G>, Vec<G>),
    If(Box<G>, Box<G>, Box<G>),
    Str(Vec<SP>),
    Field(Box<G>, String),
    List(Vec<G>),
    Mk(String, Vec<(String, G)>),
    Pipe(Box<G>, String),
}

/// literals that are *not* reproduced exactly by the 6-significant-digit echo
pub const INEXACT: &[&str] = &["1.23456789", "0.333333333333", "123456.789", "3.14159265358979", "2.718281828", "1.0000001"];
/// literals that the echo reproduces exactly (value bits survive print + re-read)
pub const EXACT: &[&str] = &[
    "0", "1", "2", "3", "4", "5", "7", "8", "10", "12", "16", "100", "1000", "0.5", "0.25", "1.5", "2.5", "0.125", "1e3", "1e6", "1_000_000",
    "0.001", "2e10", "1e100", "1.5e-7", "123456", "1234567", "0.1", "0x1F", "0b101", "0o17", "2.0", "3.0", "1e-3", "12345678912",
];
const SMALL: &[&str] = &["1", "2", "3", "4", "5", "0.5", "1.5", "8", "10", "0.25"];
const LEN_UNITS: &[&str] = &["m", "cm", "km", "mm", "meter", "metre", "ft", "inch", "mile", "µm", "kilometer", "in"];
const TIME_UNITS: &[&str] = &["s", "ms", "min", "h", "second", "day", "hour", "µs", "millisecond"];

pub fn escape_src(s: &str) -> String {
    let mut o = String::new();
    for c in s.chars() {
        match c {
            '\n' => o.push_str("\\n"),
            '\r' => o.push_str("\\r"),
            '\t' => o.push_str("\\t"),
            '\0' => o.push_str("\\0"),
            '"' => o.push_str("\\\""),
            '\\' => o.push_str("\\\\"),
            '{' => o.push_str("{{"),
            '}' => o.push_str("}}"),
            c => o.push(c),
        }
    }
    o
}

impl G {
    pub fn leaf(ty: Ty, s: &str) -> G {
        G { ty, n: N::Leaf(s.to_string()) }
    }
    pub fn bin(ty: Ty, a: G, op: &str, b: G) -> G {
        G { ty, n: N::Bin(Box::new(a), op.to_string(), Box::new(b)) }
    }
    pub fn atomic(&self) -> bool {
        match &self.n {
            N::Leaf(_) | N::Call(..) | N::CCall(..) | N::Str(_) | N::Field(..) | N::List(_) | N::Mk(..) => true,
            _ => false,
        }
    }
    fn wrapped(&self) -> String {
        if self.atomic() {
            self.render()
        } else {
            format!("({})", self.render())
        }
    }
    /// can stand right of an implicit multiplication without parentheses
    fn tight(&self) -> bool {
        match &self.n {
            N::Leaf(s) => s.chars().next().map(|c| !c.is_ascii_digit() && c != '-').unwrap_or(false),
            N::Bin(a, op, b) if op == "^" => matches!(a.n, N::Leaf(_)) && a.tight() && matches!(&b.n, N::Leaf(s) if s.chars().all(|c| c.is_ascii_digit())),
            N::Post(a, s) if s != "!" && s != "!!" => matches!(a.n, N::Leaf(_)) && a.tight(),
            _ => false,
        }
    }
    pub fn render(&self) -> String {
        match &self.n {
            N::Leaf(s) => s.clone(),
            N::Pre(op, a) => format!("{}{}", op, a.wrapped()),
            N::Post(a, op) => format!("{}{}", a.wrapped(), op),
            N::Bin(a, op, b) => {
                if op == " " {
                    if b.tight() {
                        format!("{} {}", a.wrapped(), b.render())
                    } else {
                        format!("{} * {}", a.wrapped(), b.wrapped())
                    }
                } else if op == "^" || op == "**" {
                    format!("{}{}{}", a.wrapped(), op, b.wrapped())
                } else {
                    format!("{} {} {}", a.wrapped(), op.trim(), b.wrapped())
                }
            }
            N::Call(f, args) => format!("{}({})", f, args.iter().map(|a| a.render()).collect::<Vec<_>>().join(", ")),
            N::CCall(c, args) => format!("{}({})", c.wrapped(), args.iter().map(|a| a.render()).collect::<Vec<_>>().join(", ")),
            N::If(c, t, e) => format!("if {} then {} else {}", c.wrapped(), t.wrapped(), e.wrapped()),
            N::Str(parts) => {
                let mut o = String::from("\"");
                for p in parts {
                    match p {
                        SP::Fix(s) => o.push_str(&escape_src(s)),
                        SP::Interp(e, spec) => {
                            o.push('{');
                            o.push_str(&e.render());
                            if let Some(s) = spec {
                                o.push_str(s);
                            }
                            o.push('}');
                        }
                    }
                }
                o.push('"');
                o
            }
            N::Field(a, f) => format!("{}.{}", a.wrapped(), f),
            N::List(es) => format!("[{}]", es.iter().map(|a| a.render()).collect::<Vec<_>>().join(", ")),
            N::Mk(name, fs) => {
                if fs.is_empty() {
                    format!("{} {{}}", name)
                } else {
                    format!("{} {{ {} }}", name, fs.iter().map(|(n, e)| format!("{}: {}", n, e.render())).collect::<Vec<_>>().join(", "))
                }
            }
            N::Pipe(a, f) => format!("{} |> {}", a.wrapped(), f),
        }
    }
    pub fn size(&self) -> usize {
        1 + self.kids().iter().map(|k| k.size()).sum::<usize>()
    }
    pub fn kids(&self) -> Vec<&G> {
        match &self.n {
            N::Leaf(_) => vec![],
            N::Pre(_, a) | N::Post(a, _) | N::Field(a, _) | N::Pipe(a, _) => vec![a],
            N::Bin(a, _, b) => vec![a, b],
            N::Call(_, args) | N::List(args) => args.iter().collect(),
            N::CCall(c, args) => {
                let mut v: Vec<&G> = vec![c];
                v.extend(args.iter());
                v
            }
            N::If(c, t, e) => vec![c, t, e],
            N::Str(parts) => parts.iter().filter_map(|p| if let SP::Interp(e, _) = p { Some(e) } else { None }).collect(),
            N::Mk(_, fs) => fs.iter().map(|(_, e)| e).collect(),
        }
    }
    fn kids_mut(&mut self) -> Vec<&mut G> {
        match &mut self.n {
            N::Leaf(_) => vec![],
            N::Pre(_, a) | N::Post(a, _) | N::Field(a, _) | N::Pipe(a, _) => vec![a],
            N::Bin(a, _, b) => vec![a, b],
            N::Call(_, args) | N::List(args) => args.iter_mut().collect(),
            N::CCall(c, args) => {
                let mut v: Vec<&mut G> = vec![c];
                v.extend(args.iter_mut());
                v
            }
            N::If(c, t, e) => vec![c, t, e],
            N::Str(parts) => parts.iter_mut().filter_map(|p| if let SP::Interp(e, _) = p { Some(e) } else { None }).collect(),
            N::Mk(_, fs) => fs.iter_mut().map(|(_, e)| e).collect(),
        }
    }
    pub fn has_inexact(&self) -> bool {
        if let N::Leaf(s) = &self.n {
            if INEXACT.contains(&s.as_str()) {
                return true;
            }
        }
        self.kids().iter().any(|k| k.has_inexact())
    }
    /// all one-step simplifications (strictly smaller trees of the same type)
    pub fn variants(&self) -> Vec<G> {
        let mut out = Vec::new();
        let canon = canonical(&self.ty);
        if canon.size() < self.size() || (canon.size() == self.size() && canon != *self && canon.render().len() < self.render().len()) {
            out.push(canon);
        }
        for k in self.kids() {
            if k.ty == self.ty {
                out.push(k.clone());
            }
        }
        // string parts / list elements can be dropped
        match &self.n {
            N::Str(parts) if parts.len() > 1 => {
                for i in 0..parts.len() {
                    let mut p = parts.clone();
                    p.remove(i);
                    out.push(G { ty: self.ty.clone(), n: N::Str(p) });
                }
            }
            N::List(es) if es.len() > 1 => {
                for i in 0..es.len() {
                    let mut p = es.clone();
                    p.remove(i);
                    out.push(G { ty: self.ty.clone(), n: N::List(p) });
                }
            }
            _ => {}
        }
        let n = self.kids().len();
        for i in 0..n {
            let vs = self.kids()[i].variants();
            for v in vs {
                let mut c = self.clone();
                *c.kids_mut()[i] = v;
                out.push(c);
            }
        }
        out
    }
}

pub fn unit_expr(l: i8, t: i8, rng: &mut Rng) -> G {
    /// u^k for a length (is_len) or time unit
    fn pow(u: &str, k: i8, is_len: bool, rng: &mut Rng) -> G {
        let d = |k: i8| if is_len { Ty::Dim(k, 0) } else { Ty::Dim(0, k) };
        let base = G::leaf(d(1), u);
        if k == 1 {
            return base;
        }
        let full = d(k);
        let sc = Ty::Dim(0, 0);
        match (k, rng.below(3)) {
            (2, 0) => G { ty: full, n: N::Post(Box::new(base), "²".into()) },
            (3, 0) => G { ty: full, n: N::Post(Box::new(base), "³".into()) },
            (k, 1) if k > 0 => G::bin(full, base, "**", G::leaf(sc, &k.to_string())),
            (k, _) if k > 0 => G::bin(full, base, "^", G::leaf(sc, &k.to_string())),
            (k, 0) if rng.chance(1, 4) => G { ty: full, n: N::Post(Box::new(base), ["⁻¹", "⁻²", "⁻³"][((-k - 1) as usize).min(2)].into()) },
            (k, _) => G::bin(full, base, "^", G { ty: sc.clone(), n: N::Pre("-".into(), Box::new(G::leaf(sc, &(-k).to_string()))) }),
        }
    }
    let lu = *rng.pick(LEN_UNITS);
    let tu = *rng.pick(TIME_UNITS);
    match (l, t) {
        (0, 0) => G::leaf(Ty::Dim(0, 0), "1"),
        (l, 0) => pow(lu, l, true, rng),
        (0, t) => pow(tu, t, false, rng),
        (l, t) => {
            if t < 0 && rng.chance(2, 3) {
                let a = pow(lu, l, true, rng);
                let b = pow(tu, -t, false, rng);
                G::bin(Ty::Dim(l, t), a, if rng.chance(1, 6) { "per" } else { "/" }, b)
            } else {
                let a = pow(lu, l, true, rng);
                let b = pow(tu, t, false, rng);
                G::bin(Ty::Dim(l, t), a, *rng.pick(&["*", "×", "·", " "]), b)
            }
        }
    }
}

/// the smallest expression of a type (used by the shrinker and for probe arguments)
pub fn canonical(ty: &Ty) -> G {
    let t = ty.clone();
    match ty {
        Ty::Dim(0, 0) => G::leaf(t, "1"),
        Ty::Dim(1, 0) => G::leaf(t, "len1"),
        Ty::Dim(0, 1) => G::leaf(t, "t1"),
        Ty::Dim(1, -1) => G::leaf(t, "v1"),
        Ty::Dim(2, 0) => G::leaf(t, "area1"),
        Ty::Dim(l, tt) => {
            // 1 m^l s^t written as a product/quotient of variables would not be smaller; use unit powers
            let mut r = Rng::new(7);
            let mut u = unit_expr(*l, *tt, &mut r);
            // force plain m / s
            fn plain(g: &mut G) {
                // no unicode exponents (negative ones have a printing quirk of their own)
                let repl = if let N::Post(a, op) = &g.n {
                    let k: Option<i8> = match op.as_str() { "²" => Some(2), "³" => Some(3), "⁻¹" => Some(-1), "⁻²" => Some(-2), "⁻³" => Some(-3), _ => None };
                    k.map(|k| {
                        let sc = Ty::Dim(0, 0);
                        let e = if k > 0 { G::leaf(sc, &k.to_string()) } else { G { ty: sc.clone(), n: N::Pre("-".into(), Box::new(G::leaf(sc, &(-k).to_string()))) } };
                        N::Bin(a.clone(), "^".into(), Box::new(e))
                    })
                } else {
                    None
                };
                if let Some(r) = repl {
                    g.n = r;
                }
                if let N::Leaf(s) = &mut g.n {
                    if LEN_UNITS.contains(&s.as_str()) {
                        *s = "m".into();
                    } else if TIME_UNITS.contains(&s.as_str()) {
                        *s = "s".into();
                    }
                }
                for k in g.kids_mut() {
                    plain(k);
                }
            }
            plain(&mut u);
            u
        }
        Ty::Gen => G::leaf(t, "x"),
        Ty::Bool => G::leaf(t, "true"),
        Ty::Str => G { ty: t, n: N::Str(vec![SP::Fix("s".into())]) },
        Ty::Temp => G::leaf(t, "temp1"),
        Ty::Date => G::leaf(t, "dt0"),
        Ty::ListScalar => G::leaf(t, "xs"),
        Ty::ListLen => G::leaf(t, "ls"),
        Ty::Pt => G::leaf(t, "pt"),
        Ty::FnS => G::leaf(t, "dbl"),
    }
}

/// source text of the definitions every case starts from (on top of the prelude)
pub const SETUP: &[&str] = &[
    "let a = 2",
    "let b = 3",
    "let c0 = 0.5",
    "let len1 = 4 m",
    "let len2 = 50 cm",
    "let t1 = 8 s",
    "let v1 = 3 m/s",
    "let area1 = 6 m^2",
    "let flag = true",
    "let flag2 = false",
    "let word = \"nb\"",
    "let temp1 = 300 K",
    "struct Pt { x: Length, y: Length }",
    "let pt = Pt { x: 1 m, y: 2 m }",
    "fn idf(x) = x",
    "fn sq_(x) = x^2",
    "fn dbl(x: Scalar) -> Scalar = 2 x",
    "fn addl(x: Length, y: Length) -> Length = x + y",
    "let xs = [1, 2, 3]",
    "let ls = [1 m, 2 m]",
    "let dt0 = datetime(\"2024-02-03 04:05:06 UTC\")",
    "let fvar = dbl",
];

#[derive(Clone, Debug, PartialEq)]
pub enum Deco {
    Name(String),
    Url(String),
    Description(String),
    Aliases(Vec<(String, Option<&'static str>)>),
    Metric,
    Binary,
    Abbreviation,
    Example(String, Option<String>),
}

impl Deco {
    pub fn render(&self) -> String {
        match self {
            Deco::Name(s) => format!("@name(\"{}\")", escape_src(s)),
            Deco::Url(s) => format!("@url(\"{}\")", escape_src(s)),
            Deco::Description(s) => format!("@description(\"{}\")", escape_src(s)),
            Deco::Aliases(a) => format!(
                "@aliases({})",
                a.iter().map(|(n, p)| match p { Some(p) => format!("{}: {}", n, p), None => n.clone() }).collect::<Vec<_>>().join(", ")
            ),
            Deco::Metric => "@metric_prefixes".into(),
            Deco::Binary => "@binary_prefixes".into(),
            Deco::Abbreviation => "@abbreviation".into(),
            Deco::Example(c, d) => match d {
                Some(d) => format!("@example(\"{}\", \"{}\")", escape_src(c), escape_src(d)),
                None => format!("@example(\"{}\")", escape_src(c)),
            },
        }
    }
}

#[derive(Clone, Debug, PartialEq)]
pub enum S {
    Expr(G),
    Let { name: String, ann: Option<String>, e: G, decos: Vec<Deco> },
    Fn {
        name: String,
        tparams: Vec<(String, bool)>,
        params: Vec<(String, Option<String>)>,
        ret: Option<String>,
        body: Option<G>,
        wheres: Vec<(String, Option<String>, G)>,
        decos: Vec<Deco>,
    },
    Unit { name: String, decos: Vec<Deco>, ann: Option<String>, def: Option<G> },
    Dimension { name: String, defs: Vec<String> },
    Struct { name: String, tparams: Vec<(String, bool)>, fields: Vec<(String, String)> },
    Proc { kind: &'static str, args: Vec<G> },
    Raw(String),
}

#[derive(Clone, Debug, PartialEq)]
pub struct Stmt {
    pub s: S,
    /// expressions evaluated after the statement, in the session that ran the original and in the
    /// session that ran the echo; results must agree
    pub probes: Vec<String>,
}

fn decos_text(d: &[Deco]) -> String {
    d.iter().map(|x| x.render() + "\n").collect()
}

fn tparams_text(tp: &[(String, bool)]) -> String {
    if tp.is_empty() {
        String::new()
    } else {
        format!("<{}>", tp.iter().map(|(n, d)| if *d { format!("{}: Dim", n) } else { n.clone() }).collect::<Vec<_>>().join(", "))
    }
}

impl Stmt {
    pub fn raw(s: &str) -> Stmt {
        Stmt { s: S::Raw(s.to_string()), probes: vec![] }
    }
    pub fn render(&self) -> String {
        match &self.s {
            S::Expr(g) => g.render(),
            S::Let { name, ann, e, decos } => format!(
                "{}let {}{} = {}",
                decos_text(decos),
                name,
                ann.as_ref().map(|a| format!(": {}", a)).unwrap_or_default(),
                e.render()
            ),
            S::Fn { name, tparams, params, ret, body, wheres, decos } => {
                let mut o = format!(
                    "{}fn {}{}({}){}",
                    decos_text(decos),
                    name,
                    tparams_text(tparams),
                    params.iter().map(|(n, a)| match a { Some(a) => format!("{}: {}", n, a), None => n.clone() }).collect::<Vec<_>>().join(", "),
                    ret.as_ref().map(|r| format!(" -> {}", r)).unwrap_or_default()
                );
                if let Some(b) = body {
                    o.push_str(&format!(" = {}", b.render()));
                }
                for (i, (n, a, e)) in wheres.iter().enumerate() {
                    o.push_str(&format!(
                        "\n  {} {}{} = {}",
                        if i == 0 { "where" } else { "  and" },
                        n,
                        a.as_ref().map(|a| format!(": {}", a)).unwrap_or_default(),
                        e.render()
                    ));
                }
                o
            }
            S::Unit { name, decos, ann, def } => format!(
                "{}unit {}{}{}",
                decos_text(decos),
                name,
                ann.as_ref().map(|a| format!(": {}", a)).unwrap_or_default(),
                def.as_ref().map(|d| format!(" = {}", d.render())).unwrap_or_default()
            ),
            S::Dimension { name, defs } => format!("dimension {}{}", name, defs.iter().map(|d| format!(" = {}", d)).collect::<String>()),
            S::Struct { name, tparams, fields } => {
                if fields.is_empty() {
                    format!("struct {}{} {{}}", name, tparams_text(tparams))
                } else {
                    format!("struct {}{} {{ {} }}", name, tparams_text(tparams), fields.iter().map(|(n, t)| format!("{}: {}", n, t)).collect::<Vec<_>>().join(", "))
                }
            }
            S::Proc { kind, args } => format!("{}({})", kind, args.iter().map(|a| a.render()).collect::<Vec<_>>().join(", ")),
            S::Raw(s) => s.clone(),
        }
    }
    pub fn exact(&self) -> bool {
        !self.gs().iter().any(|g| g.has_inexact()) && !matches!(&self.s, S::Raw(s) if INEXACT.iter().any(|l| s.contains(l)))
    }
    pub fn gs(&self) -> Vec<&G> {
        match &self.s {
            S::Expr(g) => vec![g],
            S::Let { e, .. } => vec![e],
            S::Fn { body, wheres, .. } => {
                let mut v: Vec<&G> = body.iter().collect();
                v.extend(wheres.iter().map(|(_, _, e)| e));
                v
            }
            S::Unit { def, .. } => def.iter().collect(),
            S::Proc { args, .. } => args.iter().collect(),
            _ => vec![],
        }
    }
    fn gs_mut(&mut self) -> Vec<&mut G> {
        match &mut self.s {
            S::Expr(g) => vec![g],
            S::Let { e, .. } => vec![e],
            S::Fn { body, wheres, .. } => {
                let mut v: Vec<&mut G> = body.iter_mut().collect();
                v.extend(wheres.iter_mut().map(|(_, _, e)| e));
                v
            }
            S::Unit { def, .. } => def.iter_mut().collect(),
            S::Proc { args, .. } => args.iter_mut().collect(),
            _ => vec![],
        }
    }
    /// one-step simplifications of the statement
    pub fn variants(&self) -> Vec<Stmt> {
        let mut out = Vec::new();
        // statement-level simplifications
        match &self.s {
            S::Let { name, ann, e, decos } => {
                for i in 0..decos.len() {
                    let mut d = decos.clone();
                    d.remove(i);
                    out.push(Stmt { s: S::Let { name: name.clone(), ann: ann.clone(), e: e.clone(), decos: d }, probes: self.probes.clone() });
                }
                if ann.is_some() {
                    out.push(Stmt { s: S::Let { name: name.clone(), ann: None, e: e.clone(), decos: decos.clone() }, probes: self.probes.clone() });
                }
            }
            S::Fn { name, tparams, params, ret, body, wheres, decos } => {
                for i in 0..decos.len() {
                    let mut d = decos.clone();
                    d.remove(i);
                    out.push(Stmt { s: S::Fn { name: name.clone(), tparams: tparams.clone(), params: params.clone(), ret: ret.clone(), body: body.clone(), wheres: wheres.clone(), decos: d }, probes: self.probes.clone() });
                }
                if wheres.len() > 0 {
                    // a where-variable can only be dropped if the body does not use it: try anyway, a rejected candidate is discarded
                    for i in 0..wheres.len() {
                        let mut w = wheres.clone();
                        w.remove(i);
                        out.push(Stmt { s: S::Fn { name: name.clone(), tparams: tparams.clone(), params: params.clone(), ret: ret.clone(), body: body.clone(), wheres: w, decos: decos.clone() }, probes: self.probes.clone() });
                    }
                }
                if ret.is_some() {
                    out.push(Stmt { s: S::Fn { name: name.clone(), tparams: tparams.clone(), params: params.clone(), ret: None, body: body.clone(), wheres: wheres.clone(), decos: decos.clone() }, probes: self.probes.clone() });
                }
            }
            S::Unit { name, decos, ann, def } => {
                for i in 0..decos.len() {
                    let mut d = decos.clone();
                    d.remove(i);
                    out.push(Stmt { s: S::Unit { name: name.clone(), decos: d, ann: ann.clone(), def: def.clone() }, probes: vec![format!("1 {}", name)] });
                }
                for (i, d0) in decos.iter().enumerate() {
                    if let Deco::Aliases(a) = d0 {
                        for j in 0..a.len() {
                            let mut a2 = a.clone();
                            a2.remove(j);
                            let mut d = decos.clone();
                            d[i] = Deco::Aliases(a2);
                            out.push(Stmt { s: S::Unit { name: name.clone(), decos: d, ann: ann.clone(), def: def.clone() }, probes: vec![format!("1 {}", name)] });
                        }
                    }
                }
                if ann.is_some() && def.is_some() {
                    out.push(Stmt { s: S::Unit { name: name.clone(), decos: decos.clone(), ann: None, def: def.clone() }, probes: self.probes.clone() });
                }
            }
            S::Dimension { name, defs } if defs.len() > 1 => {
                for i in 0..defs.len() {
                    let mut d = defs.clone();
                    d.remove(i);
                    out.push(Stmt { s: S::Dimension { name: name.clone(), defs: d }, probes: self.probes.clone() });
                }
            }
            S::Struct { name, tparams, fields } if fields.len() > 1 => {
                for i in 0..fields.len() {
                    let mut f = fields.clone();
                    f.remove(i);
                    out.push(Stmt { s: S::Struct { name: name.clone(), tparams: tparams.clone(), fields: f }, probes: vec![] });
                }
            }
            S::Proc { kind, args } if args.len() > 1 && *kind == "assert_eq" => {
                out.push(Stmt { s: S::Proc { kind, args: args[..2].to_vec() }, probes: vec![] });
            }
            _ => {}
        }
        let n = self.gs().len();
        for i in 0..n {
            for v in self.gs()[i].variants() {
                let mut c = self.clone();
                *c.gs_mut()[i] = v;
                out.push(c);
            }
        }
        out
    }
}

// ------------------------------------------------------------------------------------------------ generator

pub struct Env {
    pub vars: Vec<(String, Ty)>,
    /// user functions defined earlier in the case: name, parameter types, result type
    pub fns: Vec<(String, Vec<Ty>, Ty)>,
    pub counter: usize,
}

impl Env {
    pub fn new() -> Env {
        let d = |l, t| Ty::Dim(l, t);
        Env {
            vars: vec![
                ("a".into(), d(0, 0)),
                ("b".into(), d(0, 0)),
                ("c0".into(), d(0, 0)),
                ("len1".into(), d(1, 0)),
                ("len2".into(), d(1, 0)),
                ("t1".into(), d(0, 1)),
                ("v1".into(), d(1, -1)),
                ("area1".into(), d(2, 0)),
                ("flag".into(), Ty::Bool),
                ("flag2".into(), Ty::Bool),
                ("word".into(), Ty::Str),
                ("temp1".into(), Ty::Temp),
                ("pt".into(), Ty::Pt),
                ("xs".into(), Ty::ListScalar),
                ("ls".into(), Ty::ListLen),
                ("dt0".into(), Ty::Date),
                ("fvar".into(), Ty::FnS),
                ("dbl".into(), Ty::FnS),
            ],
            fns: vec![],
            counter: 0,
        }
    }
}

pub struct Gen<'a> {
    pub rng: &'a mut Rng,
    pub env: Env,
    /// probability (in 1/100) that a scalar literal is taken from the inexact pool
    pub inexact_pct: u32,
}

const STR_PIECES: &[&str] = &[
    "a", "b c", "{", "}", "{}", "\\", "\"", "\n", "\t", "\r", "\0", "é", "→", "'", "{{", "}}", "\\n", "\\\\", "x=", " ", "%", "\\\"", "$", "#", "{x}", "\\{", "😀", ":", "->",
];
const SPECS: &[&str] = &[":>5", ":<5", ":^7", ":.2f", ":e", ":+", ":05", ":x", ":.3"];

impl<'a> Gen<'a> {
    pub fn fresh(&mut self, kind: &str) -> String {
        self.env.counter += 1;
        let n = self.env.counter;
        let pool: &[&str] = match kind {
            "var" => &["v", "länge", "x_", "_p", "α", "val", "Σ", "q"],
            "fn" => &["f", "g_", "fün", "h"],
            "unit" => &["uu", "zork", "blip", "ünit"],
            "dim" => &["Dd", "Zork", "Ünit"],
            "struct" => &["St", "Rec", "Bär"],
            _ => &["n"],
        };
        format!("{}{}", self.rng.pick(pool), n)
    }

    fn number(&mut self) -> G {
        let s = if self.rng.chance(self.inexact_pct, 100) {
            *self.rng.pick(INEXACT)
        } else if self.rng.chance(2, 3) {
            *self.rng.pick(SMALL)
        } else {
            *self.rng.pick(EXACT)
        };
        G::leaf(Ty::Dim(0, 0), s)
    }

    fn var_of(&mut self, ty: &Ty) -> Option<G> {
        let c: Vec<&(String, Ty)> = self.env.vars.iter().filter(|(_, t)| t == ty).collect();
        if c.is_empty() {
            None
        } else {
            let k = self.rng.below(c.len());
            Some(G::leaf(ty.clone(), &c[k].0))
        }
    }

    fn dim_ok(l: i8, t: i8) -> bool {
        l.abs() <= 3 && t.abs() <= 3
    }

    fn leaf(&mut self, ty: &Ty) -> G {
        if self.rng.chance(2, 5) {
            if let Some(v) = self.var_of(ty) {
                return v;
            }
        }
        match ty {
            Ty::Dim(0, 0) => {
                if self.rng.chance(1, 20) {
                    G::leaf(ty.clone(), *self.rng.pick(&["NaN", "inf", "pi", "e", "τ"]))
                } else {
                    self.number()
                }
            }
            Ty::Dim(l, t) => {
                let u = unit_expr(*l, *t, self.rng);
                match self.rng.below(6) {
                    0 => u,
                    1 => G::bin(ty.clone(), self.number(), *self.rng.pick(&["*", "×", "·"]), u),
                    _ => G::bin(ty.clone(), self.number(), " ", u),
                }
            }
            Ty::Gen => G::leaf(Ty::Gen, "x"),
            Ty::Bool => G::leaf(Ty::Bool, *self.rng.pick(&["true", "false", "flag", "flag2"])),
            Ty::Str => self.string(0),
            Ty::Temp => match self.rng.below(4) {
                0 => G::leaf(Ty::Temp, "temp1"),
                1 => G::bin(Ty::Temp, self.number(), " ", G::leaf(Ty::Temp, "K")),
                2 => G::bin(Ty::Temp, self.number(), " ", G::leaf(Ty::FnS, *self.rng.pick(&["°C", "°F", "celsius", "fahrenheit", "degree_celsius"]))),
                _ => G { ty: Ty::Temp, n: N::Call((*self.rng.pick(&["from_celsius", "from_fahrenheit"])).into(), vec![self.number()]) },
            },
            Ty::Date => match self.rng.below(3) {
                0 => G::leaf(Ty::Date, "dt0"),
                _ => G { ty: Ty::Date, n: N::Call("datetime".into(), vec![G { ty: Ty::Str, n: N::Str(vec![SP::Fix((*self.rng.pick(&["2020-01-01 00:00:00 UTC", "2024-02-29 12:30:00 UTC", "1999-12-31 23:59:59 UTC"])).into())]) }]) },
            },
            Ty::ListScalar => {
                if self.rng.chance(1, 2) {
                    G::leaf(Ty::ListScalar, "xs")
                } else {
                    let n = self.rng.below(4);
                    G { ty: Ty::ListScalar, n: N::List((0..n).map(|_| self.number()).collect()) }
                }
            }
            Ty::ListLen => {
                if self.rng.chance(1, 2) {
                    G::leaf(Ty::ListLen, "ls")
                } else {
                    let n = 1 + self.rng.below(3);
                    G { ty: Ty::ListLen, n: N::List((0..n).map(|_| self.leaf(&Ty::Dim(1, 0))).collect()) }
                }
            }
            Ty::Pt => {
                if self.rng.chance(1, 2) {
                    G::leaf(Ty::Pt, "pt")
                } else {
                    G { ty: Ty::Pt, n: N::Mk("Pt".into(), vec![("x".into(), self.leaf(&Ty::Dim(1, 0))), ("y".into(), self.leaf(&Ty::Dim(1, 0)))]) }
                }
            }
            Ty::FnS => G::leaf(Ty::FnS, *self.rng.pick(&["dbl", "fvar", "sin", "sqrt", "abs"])),
        }
    }

    fn string(&mut self, depth: usize) -> G {
        let n = self.rng.below(4);
        let mut parts = Vec::new();
        for _ in 0..n {
            if depth > 0 && self.rng.chance(2, 5) {
                let ty = self.any_ty();
                let e = self.expr(&ty, depth - 1);
                let spec = if matches!(ty, Ty::Dim(0, 0)) && self.rng.chance(1, 2) { Some((*self.rng.pick(SPECS)).to_string()) } else { None };
                parts.push(SP::Interp(e, spec));
            } else {
                let k = 1 + self.rng.below(3);
                let s: String = (0..k).map(|_| *self.rng.pick(STR_PIECES)).collect();
                parts.push(SP::Fix(s));
            }
        }
        G { ty: Ty::Str, n: N::Str(parts) }
    }

    pub fn any_ty(&mut self) -> Ty {
        match self.rng.below(20) {
            0..=4 => Ty::Dim(0, 0),
            5..=7 => Ty::Dim(1, 0),
            8 => Ty::Dim(0, 1),
            9 => Ty::Dim(1, -1),
            10 => Ty::Dim(2, 0),
            11 => Ty::Dim(self.rng.range(-2, 2) as i8, self.rng.range(-2, 2) as i8),
            12..=13 => Ty::Bool,
            14..=15 => Ty::Str,
            16 => Ty::Temp,
            17 => if self.rng.chance(1, 2) { Ty::ListScalar } else { Ty::ListLen },
            18 => Ty::Pt,
            _ => if self.rng.chance(1, 2) { Ty::Date } else { Ty::FnS },
        }
    }

    fn cond(&mut self, ty: &Ty, depth: usize) -> G {
        let c = self.expr(&Ty::Bool, depth - 1);
        let t = self.expr(ty, depth - 1);
        let e = self.expr(ty, depth - 1);
        G { ty: ty.clone(), n: N::If(Box::new(c), Box::new(t), Box::new(e)) }
    }

    pub fn expr(&mut self, ty: &Ty, depth: usize) -> G {
        if depth == 0 || self.rng.chance(1, 8) {
            return self.leaf(ty);
        }
        let d = depth - 1;
        match ty {
            Ty::Dim(l, t) => {
                let (l, t) = (*l, *t);
                let scalar = l == 0 && t == 0;
                match self.rng.below(100) {
                    0..=15 => {
                        // product
                        let l1 = self.rng.range(-2, 2) as i8;
                        let t1 = self.rng.range(-1, 1) as i8;
                        if !Self::dim_ok(l - l1, t - t1) {
                            return self.leaf(ty);
                        }
                        let x = self.expr(&Ty::Dim(l1, t1), d);
                        let y = self.expr(&Ty::Dim(l - l1, t - t1), d);
                        let op = *self.rng.pick(&["*", "*", "×", "·", " "]);
                        G::bin(ty.clone(), x, op, y)
                    }
                    16..=28 => {
                        let l1 = self.rng.range(-2, 2) as i8;
                        let t1 = self.rng.range(-1, 1) as i8;
                        if !Self::dim_ok(l + l1, t + t1) {
                            return self.leaf(ty);
                        }
                        let x = self.expr(&Ty::Dim(l + l1, t + t1), d);
                        let y = self.expr(&Ty::Dim(l1, t1), d);
                        let op = *self.rng.pick(&["/", "/", "÷", "per"]);
                        G::bin(ty.clone(), x, op, y)
                    }
                    29..=40 => G::bin(ty.clone(), self.expr(ty, d), "+", self.expr(ty, d)),
                    41..=50 => G::bin(ty.clone(), self.expr(ty, d), "-", self.expr(ty, d)),
                    51..=57 => G { ty: ty.clone(), n: N::Pre("-".into(), Box::new(self.expr(ty, d))) },
                    58..=69 => {
                        // power
                        if scalar {
                            let base = self.expr(ty, d);
                            let e = match self.rng.below(7) {
                                0 => G::leaf(Ty::Dim(0, 0), "2"),
                                1 => G::leaf(Ty::Dim(0, 0), "3"),
                                2 => G { ty: Ty::Dim(0, 0), n: N::Pre("-".into(), Box::new(G::leaf(Ty::Dim(0, 0), "1"))) },
                                3 => return G { ty: ty.clone(), n: N::Post(Box::new(base), (*self.rng.pick(&["²", "³", "⁴", "⁻¹"])).into()) },
                                4 => G::leaf(Ty::Dim(0, 0), *self.rng.pick(&["0.5", "4", "2.0", "3.0", "1.5", "0"])),
                                _ => self.expr(ty, d),
                            };
                            G::bin(ty.clone(), base, *self.rng.pick(&["^", "^", "**"]), e)
                        } else {
                            let ks: Vec<i8> = [2i8, 3, -1, -2].iter().copied().filter(|k| l % k == 0 && t % k == 0).collect();
                            if ks.is_empty() || self.rng.chance(1, 4) {
                                // square root style: (2l, 2t)^(1/2)
                                if Self::dim_ok(2 * l, 2 * t) && self.rng.chance(1, 2) {
                                    let base = self.expr(&Ty::Dim(2 * l, 2 * t), d);
                                    let half = if self.rng.chance(1, 2) { G::leaf(Ty::Dim(0, 0), "0.5") } else { G::bin(Ty::Dim(0, 0), G::leaf(Ty::Dim(0, 0), "1"), "/", G::leaf(Ty::Dim(0, 0), "2")) };
                                    return G::bin(ty.clone(), base, "^", half);
                                }
                                return self.leaf(ty);
                            }
                            let k = *self.rng.pick(&ks);
                            let base = self.expr(&Ty::Dim(l / k, t / k), d);
                            match (k, self.rng.below(3)) {
                                (2, 0) => G { ty: ty.clone(), n: N::Post(Box::new(base), "²".into()) },
                                (3, 0) => G { ty: ty.clone(), n: N::Post(Box::new(base), "³".into()) },
                                (-1, 0) if self.rng.chance(1, 3) => G { ty: ty.clone(), n: N::Post(Box::new(base), "⁻¹".into()) },
                                (k, _) if k > 0 => G::bin(ty.clone(), base, "^", G::leaf(Ty::Dim(0, 0), &k.to_string())),
                                (k, _) => G::bin(ty.clone(), base, "^", G { ty: Ty::Dim(0, 0), n: N::Pre("-".into(), Box::new(G::leaf(Ty::Dim(0, 0), &(-k).to_string()))) }),
                            }
                        }
                    }
                    70..=76 if !scalar => {
                        let u = unit_expr(l, t, self.rng);
                        if self.rng.chance(1, 8) {
                            // a conversion chain on the right: a ➞ (b ➞ c), b possibly a conditional
                            let b = if self.rng.chance(1, 2) {
                                G { ty: ty.clone(), n: N::If(Box::new(self.leaf(&Ty::Bool)), Box::new(unit_expr(l, t, self.rng)), Box::new(unit_expr(l, t, self.rng))) }
                            } else {
                                unit_expr(l, t, self.rng)
                            };
                            let inner = G::bin(ty.clone(), b, "->", u);
                            return G::bin(ty.clone(), self.expr(ty, d), "->", inner);
                        }
                        G::bin(ty.clone(), self.expr(ty, d), *self.rng.pick(&["->", "→", "to", "➞"]), u)
                    }
                    70..=73 if scalar => {
                        // factorial of a small non-negative integer expression
                        let base = G::leaf(Ty::Dim(0, 0), *self.rng.pick(&["0", "1", "2", "3", "4", "5"]));
                        let base = if self.rng.chance(1, 3) { G::bin(Ty::Dim(0, 0), base, "+", G::leaf(Ty::Dim(0, 0), "1")) } else { base };
                        G { ty: ty.clone(), n: N::Post(Box::new(base), (*self.rng.pick(&["!", "!", "!!", "!!!"])).into()) }
                    }
                    74..=76 if scalar => {
                        // temperature to scalar
                        let tmp = self.expr(&Ty::Temp, d);
                        if self.rng.chance(1, 2) {
                            G { ty: ty.clone(), n: N::Call((*self.rng.pick(&["celsius", "fahrenheit", "°C", "°F", "degree_fahrenheit"])).into(), vec![tmp]) }
                        } else {
                            G::bin(ty.clone(), tmp, "->", G::leaf(Ty::FnS, *self.rng.pick(&["°C", "°F", "celsius"])))
                        }
                    }
                    77..=83 => self.cond(ty, depth),
                    84..=92 => {
                        // calls
                        let user: Vec<(String, Vec<Ty>, Ty)> = self.env.fns.iter().filter(|(_, _, r)| r == ty).cloned().collect();
                        if !user.is_empty() && self.rng.chance(1, 2) {
                            let (n, ps, _) = user[self.rng.below(user.len())].clone();
                            let args = ps.iter().map(|p| self.expr(p, d)).collect();
                            return G { ty: ty.clone(), n: N::Call(n, args) };
                        }
                        match self.rng.below(10) {
                            0 | 1 => G { ty: ty.clone(), n: N::Call("idf".into(), vec![self.expr(ty, d)]) },
                            2 => G { ty: ty.clone(), n: N::Call("abs".into(), vec![self.expr(ty, d)]) },
                            3 if l % 2 == 0 && t % 2 == 0 => G { ty: ty.clone(), n: N::Call("sq_".into(), vec![self.expr(&Ty::Dim(l / 2, t / 2), d)]) },
                            4 if Self::dim_ok(2 * l, 2 * t) => G { ty: ty.clone(), n: N::Call("sqrt".into(), vec![self.expr(&Ty::Dim(2 * l, 2 * t), d)]) },
                            5 if scalar => G { ty: ty.clone(), n: N::Call("dbl".into(), vec![self.expr(ty, d)]) },
                            5 if l == 1 && t == 0 => G { ty: ty.clone(), n: N::Call("addl".into(), vec![self.expr(ty, d), self.expr(ty, d)]) },
                            6 if scalar => G { ty: ty.clone(), n: N::Call("len".into(), vec![self.expr(&Ty::ListScalar, d)]) },
                            6 if l == 1 && t == 0 => G { ty: ty.clone(), n: N::Call("head".into(), vec![self.expr(&Ty::ListLen, d)]) },
                            7 if scalar => G { ty: ty.clone(), n: N::CCall(Box::new(self.expr(&Ty::FnS, d)), vec![self.expr(ty, d)]) },
                            8 => G { ty: ty.clone(), n: N::Pipe(Box::new(self.expr(ty, d)), (*self.rng.pick(&["idf", "abs"])).into()) },
                            _ => G { ty: ty.clone(), n: N::Call("max".into(), vec![self.expr(ty, d), self.expr(ty, d)]) },
                        }
                    }
                    93..=95 if l == 1 && t == 0 => G { ty: ty.clone(), n: N::Field(Box::new(self.expr(&Ty::Pt, d)), (*self.rng.pick(&["x", "y"])).into()) },
                    93..=95 if l == 0 && t == 1 => G::bin(ty.clone(), self.expr(&Ty::Date, d), "-", self.expr(&Ty::Date, d)),
                    _ => self.leaf(ty),
                }
            }
            Ty::Gen => match self.rng.below(10) {
                0 | 1 => G::bin(Ty::Gen, self.expr(&Ty::Gen, d), "+", self.expr(&Ty::Gen, d)),
                2 => G::bin(Ty::Gen, self.expr(&Ty::Gen, d), "-", self.expr(&Ty::Gen, d)),
                3 => G::bin(Ty::Gen, self.expr(&Ty::Dim(0, 0), d), *self.rng.pick(&["*", " "]), self.expr(&Ty::Gen, d)),
                4 => G::bin(Ty::Gen, self.expr(&Ty::Gen, d), "/", self.expr(&Ty::Dim(0, 0), d)),
                5 => G { ty: Ty::Gen, n: N::Pre("-".into(), Box::new(self.expr(&Ty::Gen, d))) },
                6 => self.cond(&Ty::Gen, depth),
                7 => G { ty: Ty::Gen, n: N::Call((*self.rng.pick(&["idf", "abs"])).into(), vec![self.expr(&Ty::Gen, d)]) },
                _ => G::leaf(Ty::Gen, "x"),
            },
            Ty::Bool => match self.rng.below(12) {
                0..=4 => {
                    let dt = match self.rng.below(5) {
                        0 | 1 => Ty::Dim(0, 0),
                        2 => Ty::Dim(1, 0),
                        3 => Ty::Dim(0, 1),
                        _ => Ty::Dim(1, -1),
                    };
                    let op = *self.rng.pick(&["<", ">", "<=", ">=", "==", "!=", "≤", "≥", "≠"]);
                    G::bin(Ty::Bool, self.expr(&dt, d), op, self.expr(&dt, d))
                }
                5 | 6 => G::bin(Ty::Bool, self.expr(&Ty::Bool, d), "&&", self.expr(&Ty::Bool, d)),
                7 | 8 => G::bin(Ty::Bool, self.expr(&Ty::Bool, d), "||", self.expr(&Ty::Bool, d)),
                9 => G { ty: Ty::Bool, n: N::Pre("!".into(), Box::new(self.expr(&Ty::Bool, d))) },
                10 => self.cond(&Ty::Bool, depth),
                _ => G::bin(Ty::Bool, self.expr(&Ty::Str, d), *self.rng.pick(&["==", "!="]), self.expr(&Ty::Str, d)),
            },
            Ty::Str => match self.rng.below(6) {
                0 => self.cond(&Ty::Str, depth),
                1 => G { ty: Ty::Str, n: N::Call("str_append".into(), vec![self.expr(&Ty::Str, d), self.expr(&Ty::Str, d)]) },
                2 => G { ty: Ty::Str, n: N::Call("uppercase".into(), vec![self.expr(&Ty::Str, d)]) },
                _ => self.string(depth),
            },
            Ty::Temp => match self.rng.below(8) {
                0 => G::bin(Ty::Temp, self.expr(&Ty::Temp, d), *self.rng.pick(&["+", "-"]), self.expr(&Ty::Temp, d)),
                1 => G::bin(Ty::Temp, self.expr(&Ty::Dim(0, 0), d), "*", self.expr(&Ty::Temp, d)),
                2 => self.cond(&Ty::Temp, depth),
                3 => G::bin(Ty::Temp, self.expr(&Ty::Temp, d), "->", G::leaf(Ty::Temp, *self.rng.pick(&["K", "kelvin", "mK"]))),
                4 => G::bin(Ty::Temp, self.expr(&Ty::Dim(0, 0), d), " ", G::leaf(Ty::FnS, *self.rng.pick(&["°C", "°F"]))),
                5 => G { ty: Ty::Temp, n: N::Call((*self.rng.pick(&["from_celsius", "from_fahrenheit"])).into(), vec![self.expr(&Ty::Dim(0, 0), d)]) },
                6 => G { ty: Ty::Temp, n: N::Pre("-".into(), Box::new(self.expr(&Ty::Temp, d))) },
                _ => self.leaf(ty),
            },
            Ty::Date => match self.rng.below(4) {
                0 | 1 => G::bin(Ty::Date, self.expr(&Ty::Date, d), *self.rng.pick(&["+", "-"]), self.expr(&Ty::Dim(0, 1), d)),
                2 => self.cond(&Ty::Date, depth),
                _ => self.leaf(ty),
            },
            Ty::ListScalar => match self.rng.below(6) {
                0 => G { ty: ty.clone(), n: N::List((0..self.rng.below(4)).map(|_| self.expr(&Ty::Dim(0, 0), d)).collect()) },
                1 => G { ty: ty.clone(), n: N::Call("map".into(), vec![self.expr(&Ty::FnS, d), self.expr(ty, d)]) },
                2 => G { ty: ty.clone(), n: N::Call("cons".into(), vec![self.expr(&Ty::Dim(0, 0), d), self.expr(ty, d)]) },
                3 => self.cond(ty, depth),
                4 => G { ty: ty.clone(), n: N::Call("reverse".into(), vec![self.expr(ty, d)]) },
                _ => self.leaf(ty),
            },
            Ty::ListLen => match self.rng.below(5) {
                0 | 1 => G { ty: ty.clone(), n: N::List((0..1 + self.rng.below(3)).map(|_| self.expr(&Ty::Dim(1, 0), d)).collect()) },
                2 => self.cond(ty, depth),
                3 => G { ty: ty.clone(), n: N::Call("tail".into(), vec![self.expr(ty, d)]) },
                _ => self.leaf(ty),
            },
            Ty::Pt => match self.rng.below(4) {
                0 | 1 => G { ty: Ty::Pt, n: N::Mk("Pt".into(), vec![("x".into(), self.expr(&Ty::Dim(1, 0), d)), ("y".into(), self.expr(&Ty::Dim(1, 0), d))]) },
                2 => self.cond(ty, depth),
                _ => self.leaf(ty),
            },
            Ty::FnS => match self.rng.below(4) {
                0 => self.cond(ty, depth),
                _ => self.leaf(ty),
            },
        }
    }

    pub fn ann(&mut self, ty: &Ty) -> String {
        match ty {
            Ty::Dim(0, 0) => (*self.rng.pick(&["Scalar", "Scalar", "1"])).into(),
            Ty::Dim(1, 0) => "Length".into(),
            Ty::Dim(0, 1) => "Time".into(),
            Ty::Dim(1, -1) => (*self.rng.pick(&["Velocity", "Length / Time", "Length × Time^-1", "Length * Time^(-1)"])).into(),
            Ty::Dim(2, 0) => (*self.rng.pick(&["Area", "Length^2", "Length²", "Length * Length"])).into(),
            Ty::Dim(0, -1) => (*self.rng.pick(&["Frequency", "1 / Time", "Time^-1", "Time⁻¹"])).into(),
            Ty::Dim(1, -2) => (*self.rng.pick(&["Acceleration", "Length / Time^2", "Velocity / Time", "Length / (Time * Time)"])).into(),
            Ty::Dim(l, t) => {
                let mut parts = vec![];
                if *l != 0 {
                    parts.push(if *l == 1 { "Length".to_string() } else if *l < 0 { format!("Length^({})", l) } else { format!("Length^{}", l) });
                }
                if *t != 0 {
                    parts.push(if *t == 1 { "Time".to_string() } else if *t < 0 { format!("Time^({})", t) } else { format!("Time^{}", t) });
                }
                parts.join(" * ")
            }
            Ty::Gen => "D".into(),
            Ty::Bool => "Bool".into(),
            Ty::Str => "String".into(),
            Ty::Temp => "Temperature".into(),
            Ty::Date => "DateTime".into(),
            Ty::ListScalar => "List<Scalar>".into(),
            Ty::ListLen => "List<Length>".into(),
            Ty::Pt => "Pt".into(),
            Ty::FnS => "Fn[(Scalar) -> Scalar]".into(),
        }
    }

    fn text_piece(&mut self) -> String {
        let k = 1 + self.rng.below(3);
        (0..k).map(|_| *self.rng.pick(STR_PIECES)).collect()
    }

    fn unit_decos(&mut self, name: &str, probes: &mut Vec<String>) -> Vec<Deco> {
        let mut d = Vec::new();
        let mut metric = false;
        if self.rng.chance(1, 3) {
            d.push(Deco::Name(self.text_piece()));
        }
        if self.rng.chance(1, 4) {
            d.push(Deco::Url(format!("https://example.org/{}", self.text_piece().replace('\n', ""))));
        }
        for _ in 0..self.rng.below(3) {
            if self.rng.chance(1, 2) {
                d.push(Deco::Description(self.text_piece()));
            }
        }
        if self.rng.chance(1, 3) {
            d.push(Deco::Metric);
            metric = true;
        }
        if self.rng.chance(1, 8) {
            d.push(Deco::Binary);
        }
        if self.rng.chance(1, 10) {
            d.push(Deco::Abbreviation);
        }
        if self.rng.chance(1, 2) {
            let n = self.rng.below(4);
            let mut al = Vec::new();
            for i in 0..n {
                let an = format!("{}{}", name, ["s", "_a", "º", "x"][i]);
                let p = *self.rng.pick(&[None, None, Some("short"), Some("long"), Some("both"), Some("none")]);
                probes.push(format!("3 {}", an));
                if metric && matches!(p, Some("short") | Some("both")) {
                    probes.push(format!("3 k{}", an));
                }
                if metric && matches!(p, None | Some("long") | Some("both")) {
                    probes.push(format!("3 kilo{}", an));
                }
                al.push((an, p));
            }
            d.push(Deco::Aliases(al));
        }
        if metric {
            probes.push(format!("2 kilo{}", name));
        }
        self.rng.shuffle(&mut d);
        d
    }

    pub fn stmt(&mut self, depth: usize) -> Stmt {
        match self.rng.below(100) {
            0..=39 => {
                let ty = self.any_ty();
                Stmt { s: S::Expr(self.expr(&ty, depth)), probes: vec![] }
            }
            40..=52 => {
                let ty = self.any_ty();
                let e = self.expr(&ty, depth);
                let name = self.fresh("var");
                let ann = if self.rng.chance(1, 3) { Some(self.ann(&ty)) } else { None };
                let mut decos = vec![];
                let probes = vec![name.clone()];
                if self.rng.chance(1, 8) {
                    decos.push(Deco::Name(self.text_piece()));
                }
                if self.rng.chance(1, 10) {
                    // note: the echo of a `let` drops its decorators, so the alias is not defined after the echo
                    // (observation recorded in notes/C15.md; not part of the property's four clauses, hence no probe)
                    let al = format!("{}_al", name);
                    decos.push(Deco::Aliases(vec![(al, None)]));
                }
                self.env.vars.push((name.clone(), ty));
                Stmt { s: S::Let { name, ann, e, decos }, probes }
            }
            53..=68 => self.function(depth),
            69..=78 => {
                let name = self.fresh("unit");
                let mut probes = vec![format!("1 {}", name), format!("2 {} + 3 {}", name, name)];
                let decos = self.unit_decos(&name, &mut probes);
                if self.rng.chance(1, 4) {
                    let ann = match self.rng.below(3) {
                        0 => None,
                        1 => Some("Length".to_string()),
                        _ => Some((*self.rng.pick(&["Length / Time", "Length^2", "Time", "Length * Time^-2", "Scalar"])).to_string()),
                    };
                    Stmt { s: S::Unit { name, decos, ann, def: None }, probes }
                } else {
                    let (l, t) = *self.rng.pick(&[(1i8, 0i8), (1, 0), (0, 1), (1, -1), (2, 0), (0, 0), (0, -1), (1, -2)]);
                    let ty = Ty::Dim(l, t);
                    let def = self.expr(&ty, depth.min(2));
                    let ann = if self.rng.chance(1, 3) { Some(self.ann(&ty)) } else { None };
                    probes.push(format!("1 {} -> {}", name, canonical(&ty).render()));
                    Stmt { s: S::Unit { name, decos, ann, def: Some(def) }, probes }
                }
            }
            79..=83 => {
                let name = self.fresh("dim");
                let defs: Vec<String> = match self.rng.below(6) {
                    0 => vec![],
                    1 => vec!["Length / Time".into(), "Velocity".into()],
                    2 => vec!["Length^2 / Time".into()],
                    3 => vec!["Length * (Time / Length)^2".into()],
                    4 => vec!["1 / (Length * Time)".into(), "Length^(-1) / Time".into()],
                    _ => vec![(*self.rng.pick(&["Mass / Length^3", "Energy * Time", "Length^(1/2)", "Velocity^2 / Length", "1", "Area × Length⁻²", "(Mass * Length) / Time²"])).into()],
                };
                Stmt { s: S::Dimension { name, defs }, probes: vec![] }
            }
            84..=89 => {
                let name = self.fresh("struct");
                let generic = self.rng.chance(1, 6);
                let n = self.rng.below(4);
                let mut fields = Vec::new();
                let mut ftys = Vec::new();
                for i in 0..n {
                    let ty = if generic && i == 0 { Ty::Gen } else { self.any_ty() };
                    fields.push((format!("f{}", i), self.ann(&ty)));
                    ftys.push((format!("f{}", i), ty));
                }
                let tparams = if generic { vec![("D".to_string(), true)] } else { vec![] };
                let inst = format!(
                    "{} {{ {} }}",
                    name,
                    ftys.iter().map(|(n, t)| format!("{}: {}", n, canonical(&if *t == Ty::Gen { Ty::Dim(1, 0) } else { t.clone() }).render())).collect::<Vec<_>>().join(", ")
                );
                Stmt { s: S::Struct { name, tparams, fields }, probes: vec![if n == 0 { inst.replace("{  }", "{}") } else { inst }] }
            }
            _ => {
                let kind = *self.rng.pick(&["print", "assert", "assert_eq", "type", "print", "assert_eq"]);
                let args = match kind {
                    "print" | "type" => {
                        let ty = self.any_ty();
                        vec![self.expr(&ty, depth)]
                    }
                    "assert" => {
                        let ty = Ty::Dim(self.rng.range(0, 1) as i8, 0);
                        let e = self.expr(&ty, depth.min(2));
                        vec![G::bin(Ty::Bool, e.clone(), *self.rng.pick(&["==", "<=", ">="]), e)]
                    }
                    _ => {
                        let ty = Ty::Dim(self.rng.range(0, 1) as i8, self.rng.range(0, 1) as i8);
                        let e = self.expr(&ty, depth.min(2));
                        if self.rng.chance(1, 2) {
                            vec![e.clone(), e]
                        } else {
                            let eps = canonical(&ty);
                            vec![e.clone(), e, eps]
                        }
                    }
                };
                Stmt { s: S::Proc { kind, args }, probes: vec![] }
            }
        }
    }

    /// a function with two type parameters declared in an order that is not the alphabetical one, and an inferred
    /// return type that mentions them: the echo has to attach names and bounds to the right parameters
    fn function2(&mut self) -> Stmt {
        let name = self.fresh("fn");
        let (p1, p2) = *self.rng.pick(&[("T", "A"), ("Z", "D"), ("B", "A"), ("D", "C")]);
        let b2 = self.rng.chance(1, 2);
        // the first parameter is always a dimension (it is used arithmetically in some bodies)
        let tparams = vec![(p1.to_string(), true), (p2.to_string(), b2)];
        let params = vec![("x".to_string(), Some(p1.to_string())), ("y".to_string(), Some(p2.to_string()))];
        let body_text = if b2 { *self.rng.pick(&["x", "y", "x * y", "x / y^2", "x * x"]) } else { *self.rng.pick(&["x", "y", "x * x"]) };
        let body = G::leaf(Ty::Gen, body_text);
        let probes = vec![format!("{}(2 m, 3 s)", name), format!("{}(2, 3)", name)];
        Stmt { s: S::Fn { name, tparams, params, ret: None, body: Some(body), wheres: vec![], decos: vec![] }, probes }
    }

    fn function(&mut self, depth: usize) -> Stmt {
        if self.rng.chance(1, 8) {
            return self.function2();
        }
        let name = self.fresh("fn");
        let generic = self.rng.chance(1, 3);
        let saved = self.env.vars.len();
        let mut params = Vec::new();
        let mut ptys = Vec::new();
        let mut tparams = Vec::new();
        let np = if generic { 1 + self.rng.below(2) } else { self.rng.below(3) };
        let annotate = self.rng.chance(1, 2);
        for i in 0..np {
            let (pn, ty) = if generic && i == 0 {
                ("x".to_string(), Ty::Gen)
            } else {
                let ty = match self.rng.below(6) {
                    0 | 1 => Ty::Dim(0, 0),
                    2 => Ty::Dim(1, 0),
                    3 => Ty::Bool,
                    4 => Ty::Dim(0, 1),
                    _ => self.any_ty(),
                };
                (format!("p{}", i), ty)
            };
            let a = if annotate || !matches!(ty, Ty::Dim(..) | Ty::Gen) { Some(self.ann(&ty)) } else { None };
            if ty == Ty::Gen && a.is_some() {
                tparams.push(("D".to_string(), self.rng.chance(2, 3)));
            }
            self.env.vars.push((pn.clone(), ty.clone()));
            params.push((pn, a));
            ptys.push(ty);
        }
        let rty = if generic { Ty::Gen } else { self.any_ty() };
        // where clauses first (the body may use them)
        let mut wheres = Vec::new();
        for i in 0..self.rng.below(3) {
            let wty = if self.rng.chance(1, 2) { rty.clone() } else { self.any_ty() };
            let e = self.expr(&wty, depth.min(2));
            let wn = format!("w{}", i);
            let a = if self.rng.chance(1, 3) && wty != Ty::Gen { Some(self.ann(&wty)) } else { None };
            self.env.vars.push((wn.clone(), wty));
            wheres.push((wn, a, e));
        }
        let body = self.expr(&rty, depth);
        let ret = if (annotate && self.rng.chance(2, 3)) && (rty != Ty::Gen || !tparams.is_empty()) { Some(self.ann(&rty)) } else { None };
        self.env.vars.truncate(saved);
        let mut decos = Vec::new();
        if self.rng.chance(1, 8) {
            decos.push(Deco::Description(self.text_piece()));
        }
        if self.rng.chance(1, 12) {
            decos.push(Deco::Example(format!("{}()", name), Some(self.text_piece())));
        }
        let mut probes = Vec::new();
        let call = |ptys: &Vec<Ty>, g: Ty| format!("{}({})", name, ptys.iter().map(|t| canonical(&if *t == Ty::Gen { g.clone() } else { t.clone() }).render()).collect::<Vec<_>>().join(", "));
        probes.push(call(&ptys, Ty::Dim(1, 0)));
        if generic {
            probes.push(call(&ptys, Ty::Dim(0, 0)));
        }
        if !generic {
            self.env.fns.push((name.clone(), ptys.clone(), rty.clone()));
        }
        Stmt { s: S::Fn { name, tparams, params, ret, body: Some(body), wheres, decos }, probes }
    }
}
