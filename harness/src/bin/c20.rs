//! C20 — HTML rendering never emits user-controlled markup.
//!
//! Everything is rendered the way `numbat-wasm` renders it in `FormatType::Html` mode:
//!   * results, `print` output, echoed statements, `info` output:  `HtmlFormatter.format(markup, indent)`
//!   * errors: `codespan_reporting::term::emit` of every diagnostic into an `HtmlWriter`
//!     (resolver / name-resolution / type-check errors directly, run-time errors via `ResolverDiagnostic`).
//!
//! Request lines (bytes are %-encoded: printable ASCII except `%` and `,`/`:` stay, everything else `%XX`):
//!     fmt <0|1> <FormatType>:<bytes>,<FormatType>:<bytes>,...      -> rendered bytes
//!     wr <call> <call> ...   call = s:<fg>:<0|1 bold>:<ignored attribute bits> | r | f | w:<bytes>   -> final buffer bytes
//! The `wr` calls are the calls codespan really made on the writer (the writer is wrapped in a recorder).
//!
//! Oracle on the implementation (does not use the model): a small HTML tokenizer over the rendered text
//!   (1) every `<` starts `<span class="numbat-[a-z-]+">` or `</span>`; spans are balanced; no bare `>`;
//!   (2) every `&` starts one of the entities `&amp; &lt; &gt; &quot; &apos; &#39; &#x27; &#x2F;`;
//!   (3) stripping the tags and decoding the entities gives exactly the plain-text rendering of the same
//!       markup (`PlainTextFormatter`) resp. of the same diagnostics (`termcolor::NoColor`).
//!
//! Every single `write` of a synthetic sequence is valid UTF-8 (codespan only writes `str` slices); the model
//! does not contain `String::from_utf8_lossy` of `HtmlWriter::to_string`.
//!
//! Replay / corpus lines:
//!     raw <one input, verbatim>            a one-input session
//!     sess <pct(input1)> <pct(input2)> ... a session (inputs %-encoded; `info X` = the `info` command)
//!     fmt ... / wr ...                     as above

use numbat::buffered_writer::BufferedWriter;
use numbat::diagnostic::{Diagnostic, ErrorDiagnostic, ResolverDiagnostic};
use numbat::html_formatter::{HtmlFormatter, HtmlWriter};
use numbat::markup::{FormatType, FormattedString, Formatter, Markup, OutputType, PlainTextFormatter};
use numbat::module_importer::BuiltinModuleImporter;
use numbat::pretty_print::PrettyPrint;
use numbat::resolver::CodeSource;
use numbat::verif::c20::codespan_reporting::term::{self, Config};
use numbat::verif::c20::termcolor::{Color, ColorSpec, NoColor, WriteColor};
use numbat::{Context, InterpreterSettings, NumbatError};
use nvh::*;
use std::io::Write;
use std::sync::{Arc, Mutex};

// ------------------------------------------------------------------ byte encoding on the wire

fn pct(bytes: &[u8]) -> String {
    let mut s = String::with_capacity(bytes.len());
    for &b in bytes {
        if (0x21..=0x7e).contains(&b) && b != b'%' && b != b',' && b != b':' {
            s.push(b as char);
        } else {
            s.push_str(&format!("%{:02X}", b));
        }
    }
    s
}

fn unpct(s: &str) -> Vec<u8> {
    let b = s.as_bytes();
    let mut o = Vec::with_capacity(b.len());
    let mut i = 0;
    while i < b.len() {
        if b[i] == b'%' && i + 3 <= b.len() {
            let h = std::str::from_utf8(&b[i + 1..i + 3]).ok().and_then(|x| u8::from_str_radix(x, 16).ok());
            if let Some(v) = h {
                o.push(v);
                i += 3;
                continue;
            }
        }
        o.push(b[i]);
        i += 1;
    }
    o
}

// ------------------------------------------------------------------ the oracle: HTML tokenizer

const ENTITIES: &[(&str, u8)] = &[
    ("&amp;", b'&'),
    ("&lt;", b'<'),
    ("&gt;", b'>'),
    ("&quot;", b'"'),
    ("&apos;", b'\''),
    ("&#39;", b'\''),
    ("&#x27;", b'\''),
    ("&#x2F;", b'/'),
];

/// Ok(text content with entities decoded) or Err(reason)
fn html_check(html: &[u8]) -> Result<Vec<u8>, String> {
    let mut i = 0;
    let mut depth: i64 = 0;
    let mut text = Vec::new();
    let show = |i: usize| String::from_utf8_lossy(&html[i..(i + 48).min(html.len())]).to_string();
    while i < html.len() {
        match html[i] {
            b'<' => {
                let rest = &html[i..];
                const OPEN: &[u8] = b"<span class=\"numbat-";
                if rest.starts_with(b"</span>") {
                    depth -= 1;
                    if depth < 0 {
                        return Err(format!("unbalanced </span> at byte {}", i));
                    }
                    i += 7;
                } else if rest.starts_with(OPEN) {
                    let mut j = OPEN.len();
                    while j < rest.len() && (rest[j].is_ascii_lowercase() || rest[j] == b'-') {
                        j += 1;
                    }
                    if j == OPEN.len() || !rest[j..].starts_with(b"\">") {
                        return Err(format!("malformed span tag at byte {}: {}", i, show(i)));
                    }
                    depth += 1;
                    i += j + 2;
                } else {
                    return Err(format!("tag that is not one of the renderer's spans at byte {}: {}", i, show(i)));
                }
            }
            b'>' => return Err(format!("bare '>' at byte {}: {}", i, show(i.saturating_sub(20)))),
            b'&' => {
                let rest = &html[i..];
                match ENTITIES.iter().find(|(e, _)| rest.starts_with(e.as_bytes())) {
                    Some((e, c)) => {
                        text.push(*c);
                        i += e.len();
                    }
                    None => return Err(format!("'&' that does not start a known entity at byte {}: {}", i, show(i))),
                }
            }
            b => {
                text.push(b);
                i += 1;
            }
        }
    }
    if depth != 0 {
        return Err(format!("{} unclosed <span>", depth));
    }
    Ok(text)
}

/// the full oracle for one rendering: Err((class, reason))
fn oracle(html: &[u8], plain: &[u8]) -> Result<(), (&'static str, String)> {
    match html_check(html) {
        Err(e) => Err(("markup", e)),
        Ok(t) if t != plain => Err((
            "text",
            format!(
                "text content of the HTML differs from the plain rendering: html text {:?} vs plain {:?}",
                String::from_utf8_lossy(&t),
                String::from_utf8_lossy(plain)
            ),
        )),
        Ok(_) => Ok(()),
    }
}

// ------------------------------------------------------------------ formatter side

fn ft_name(ft: &FormatType) -> String {
    format!("{:?}", ft)
}

fn ft_parse(s: &str) -> Option<FormatType> {
    Some(match s {
        "Whitespace" => FormatType::Whitespace,
        "Emphasized" => FormatType::Emphasized,
        "Dimmed" => FormatType::Dimmed,
        "Text" => FormatType::Text,
        "String" => FormatType::String,
        "Keyword" => FormatType::Keyword,
        "Value" => FormatType::Value,
        "Unit" => FormatType::Unit,
        "Identifier" => FormatType::Identifier,
        "TypeIdentifier" => FormatType::TypeIdentifier,
        "Operator" => FormatType::Operator,
        "Decorator" => FormatType::Decorator,
        _ => return None,
    })
}

const ALL_FT: [FormatType; 12] = [
    FormatType::Whitespace,
    FormatType::Emphasized,
    FormatType::Dimmed,
    FormatType::Text,
    FormatType::String,
    FormatType::Keyword,
    FormatType::Value,
    FormatType::Unit,
    FormatType::Identifier,
    FormatType::TypeIdentifier,
    FormatType::Operator,
    FormatType::Decorator,
];

fn fmt_request(markup: &Markup, indent: bool) -> String {
    let parts: Vec<String> = markup.0.iter().map(|FormattedString(_, ft, s)| format!("{}:{}", ft_name(ft), pct(s.as_bytes()))).collect();
    format!("fmt {} {}", if indent { 1 } else { 0 }, parts.join(","))
}

fn fmt_parse(line: &str) -> Option<(Markup, bool)> {
    let rest = line.strip_prefix("fmt ")?;
    let (ind, parts) = rest.split_once(' ').unwrap_or((rest, ""));
    let mut v = Vec::new();
    for p in parts.split(',').filter(|p| !p.is_empty()) {
        let (ft, s) = p.split_once(':')?;
        let text = String::from_utf8(unpct(s)).ok()?;
        v.push(FormattedString(OutputType::Normal, ft_parse(ft)?, numbat::compact_str::CompactString::from(text).into()));
    }
    Some((Markup(v), ind == "1"))
}

struct Rendering {
    req: String,
    imp: String,
    fail: Option<(&'static str, String)>,
    html_len: usize,
    tags: usize,
    escapes: usize,
}

fn finish_rendering(req: String, html: &[u8], plain: &[u8]) -> Rendering {
    let fail = oracle(html, plain).err();
    let tags = html.iter().filter(|b| **b == b'<').count();
    let escapes = html.iter().filter(|b| **b == b'&').count();
    Rendering { req, imp: pct(html), fail, html_len: html.len(), tags, escapes }
}

fn render_markup(markup: &Markup, indent: bool) -> Rendering {
    let html = HtmlFormatter {}.format(markup, indent).to_string();
    let plain = PlainTextFormatter {}.format(markup, indent).to_string();
    finish_rendering(fmt_request(markup, indent), html.as_bytes(), plain.as_bytes())
}

// ------------------------------------------------------------------ writer side

#[derive(Clone, Debug, PartialEq)]
enum Call {
    /// fg, bold, and the attributes the writer ignores as bits (1 intense, 2 underline, 4 italic, 8 bg set, 16 dimmed, 32 strikethrough)
    Set(Option<Color>, bool, u8),
    Reset,
    Flush,
    Write(Vec<u8>),
}

fn color_name(c: &Option<Color>) -> &'static str {
    match c {
        None => "None",
        Some(Color::Black) => "Black",
        Some(Color::Blue) => "Blue",
        Some(Color::Green) => "Green",
        Some(Color::Red) => "Red",
        Some(Color::Cyan) => "Cyan",
        Some(Color::Magenta) => "Magenta",
        Some(Color::Yellow) => "Yellow",
        Some(Color::White) => "White",
        Some(_) => "Other",
    }
}

fn color_parse(s: &str) -> Option<Option<Color>> {
    Some(match s {
        "None" => None,
        "Black" => Some(Color::Black),
        "Blue" => Some(Color::Blue),
        "Green" => Some(Color::Green),
        "Red" => Some(Color::Red),
        "Cyan" => Some(Color::Cyan),
        "Magenta" => Some(Color::Magenta),
        "Yellow" => Some(Color::Yellow),
        "White" => Some(Color::White),
        "Other" => Some(Color::Ansi256(200)),
        _ => return None,
    })
}

fn calls_text(calls: &[Call]) -> String {
    let v: Vec<String> = calls
        .iter()
        .map(|c| match c {
            Call::Set(fg, b, x) => format!("s:{}:{}:{}", color_name(fg), if *b { 1 } else { 0 }, x),
            Call::Reset => "r".into(),
            Call::Flush => "f".into(),
            Call::Write(b) => format!("w:{}", pct(b)),
        })
        .collect();
    format!("wr {}", v.join(" "))
}

fn calls_parse(line: &str) -> Option<Vec<Call>> {
    let rest = line.strip_prefix("wr")?;
    let mut v = Vec::new();
    for t in rest.split(' ').filter(|t| !t.is_empty()) {
        if t == "r" {
            v.push(Call::Reset);
        } else if t == "f" {
            v.push(Call::Flush);
        } else if let Some(b) = t.strip_prefix("w:") {
            v.push(Call::Write(unpct(b)));
        } else if let Some(s) = t.strip_prefix("s:") {
            let f: Vec<&str> = s.split(':').collect();
            if f.len() < 2 {
                return None;
            }
            v.push(Call::Set(color_parse(f[0])?, f[1] == "1", f.get(2).and_then(|x| x.parse().ok()).unwrap_or(0)));
        } else {
            return None;
        }
    }
    Some(v)
}

/// wraps the real HtmlWriter and records every call made on it
struct Recorder {
    inner: HtmlWriter,
    calls: Vec<Call>,
}

impl Write for Recorder {
    fn write(&mut self, buf: &[u8]) -> std::io::Result<usize> {
        let n = self.inner.write(buf)?;
        self.calls.push(Call::Write(buf[..n].to_vec()));
        Ok(n)
    }
    fn flush(&mut self) -> std::io::Result<()> {
        self.calls.push(Call::Flush);
        self.inner.flush()
    }
}

impl WriteColor for Recorder {
    fn supports_color(&self) -> bool {
        self.inner.supports_color()
    }
    fn set_color(&mut self, spec: &ColorSpec) -> std::io::Result<()> {
        let x = (spec.intense() as u8)
            | (spec.underline() as u8) << 1
            | (spec.italic() as u8) << 2
            | (spec.bg().is_some() as u8) << 3
            | (spec.dimmed() as u8) << 4
            | (spec.strikethrough() as u8) << 5;
        self.calls.push(Call::Set(spec.fg().cloned(), spec.bold(), x));
        self.inner.set_color(spec)
    }
    fn reset(&mut self) -> std::io::Result<()> {
        self.calls.push(Call::Reset);
        self.inner.reset()
    }
}

/// replays recorded calls on a fresh real HtmlWriter (synthetic sequences, replay files)
fn run_calls(calls: &[Call]) -> Vec<u8> {
    let mut w = HtmlWriter::new();
    for c in calls.iter() {
        match c {
            Call::Set(fg, b, k) => {
                let mut spec = ColorSpec::new();
                spec.set_fg(fg.clone()).set_bold(*b);
                // attributes the writer ignores
                spec.set_intense(k & 1 != 0).set_underline(k & 2 != 0).set_italic(k & 4 != 0);
                if k & 8 != 0 {
                    spec.set_bg(Some(Color::Red));
                }
                spec.set_dimmed(k & 16 != 0).set_strikethrough(k & 32 != 0);
                w.set_color(&spec).unwrap();
            }
            Call::Reset => w.reset().unwrap(),
            Call::Flush => w.flush().unwrap(),
            Call::Write(b) => {
                // `write`, not `write_all`: the latter never calls `write` for an empty slice
                let n = w.write(b).unwrap();
                assert_eq!(n, b.len());
            }
        }
    }
    w.to_string().into_bytes()
}

fn render_calls(calls: &[Call]) -> Rendering {
    let html = run_calls(calls);
    let plain: Vec<u8> = calls.iter().flat_map(|c| if let Call::Write(b) = c { b.clone() } else { vec![] }).collect();
    finish_rendering(calls_text(calls), &html, &plain)
}

/// exactly numbat-wasm's `print_diagnostic` with FormatType::Html, plus the recording wrapper and the
/// plain rendering of the same diagnostics for the oracle
fn render_diagnostics(ctx: &Context, diags: &[Diagnostic]) -> Rendering {
    let config = Config::default();
    let resolver = ctx.resolver();
    let mut rec = Recorder { inner: HtmlWriter::new(), calls: vec![] };
    for d in diags {
        term::emit(&mut rec, &config, &resolver.files, d).unwrap();
    }
    let html = rec.inner.to_string();
    let mut plain = NoColor::new(Vec::<u8>::new());
    for d in diags {
        term::emit(&mut plain, &config, &resolver.files, d).unwrap();
    }
    finish_rendering(calls_text(&rec.calls), html.as_bytes(), &plain.into_inner())
}

// ------------------------------------------------------------------ sessions on the real interpreter

fn variant_name(dbg: &str) -> String {
    dbg.chars().take_while(|c| c.is_alphanumeric() || *c == '_').collect()
}

struct Piece {
    what: String, // "result", "print", "echo", "info", "diag:<kind>"
    r: Rendering,
}

fn run_input(ctx: &mut Context, input: &str) -> Vec<Piece> {
    let mut pieces = Vec::new();
    if let Some(kw) = input.strip_prefix("info ") {
        let mk = ctx.print_info_for_keyword(kw.trim());
        pieces.push(Piece { what: "info".into(), r: render_markup(&mk, true) });
        return pieces;
    }
    if input.trim() == "help" {
        pieces.push(Piece { what: "help".into(), r: render_markup(&numbat::help::basic_help_markup(), true) });
        return pieces;
    }
    let printed: Arc<Mutex<Vec<Markup>>> = Arc::new(Mutex::new(vec![]));
    let p2 = printed.clone();
    let mut settings = InterpreterSettings {
        print_fn: Box::new(move |s: &Markup| {
            p2.lock().unwrap().push(s.clone());
        }),
    };
    let res = ctx.interpret_with_settings(&mut settings, input, CodeSource::Text).map_err(|b| *b);
    match res {
        Ok((statements, result)) => {
            for st in &statements {
                pieces.push(Piece { what: "echo".into(), r: render_markup(&st.pretty_print(), false) });
            }
            for c in printed.lock().unwrap().iter() {
                pieces.push(Piece { what: "print".into(), r: render_markup(c, false) });
            }
            let mk = result.to_markup(statements.last(), &ctx.dimension_registry().clone(), true, true, &numbat::FormatOptions::default());
            pieces.push(Piece { what: "result".into(), r: render_markup(&mk, false) });
        }
        Err(e) => {
            // output printed before the error is dropped by numbat-wasm; we still render it
            for c in printed.lock().unwrap().iter() {
                pieces.push(Piece { what: "print".into(), r: render_markup(c, false) });
            }
            let (kind, diags): (String, Vec<Diagnostic>) = match &e {
                NumbatError::ResolverError(e) => (format!("resolver:{}", variant_name(&format!("{:?}", e))), e.diagnostics()),
                NumbatError::NameResolutionError(e) => (format!("nameres:{}", variant_name(&format!("{:?}", e))), e.diagnostics()),
                NumbatError::TypeCheckError(e) => (format!("typecheck:{}", variant_name(&format!("{:?}", e))), e.diagnostics()),
                NumbatError::RuntimeError(e) => (
                    format!("runtime:{}", variant_name(&format!("{:?}", e.kind))),
                    ResolverDiagnostic { resolver: ctx.resolver(), error: e }.diagnostics(),
                ),
            };
            pieces.push(Piece { what: format!("diag:{}", kind), r: render_diagnostics(ctx, &diags) });
        }
    }
    pieces
}

struct SessionRun {
    pieces: Vec<Piece>,
    panic: Option<String>,
}

fn run_session(base: &Context, inputs: &[String]) -> SessionRun {
    let mut ctx = base.clone();
    let mut pieces = Vec::new();
    let mut panic = None;
    for inp in inputs {
        match catch(std::panic::AssertUnwindSafe(|| run_input(&mut ctx, inp))) {
            Ok(p) => pieces.extend(p),
            Err(e) => {
                panic = Some(e);
                break;
            }
        }
    }
    SessionRun { pieces, panic }
}

fn session_line(inputs: &[String]) -> String {
    if inputs.len() == 1 && !inputs[0].contains('\n') && !inputs[0].contains('\r') {
        format!("raw {}", inputs[0])
    } else {
        format!("sess {}", inputs.iter().map(|i| pct(i.as_bytes())).collect::<Vec<_>>().join(" "))
    }
}

fn session_failure(base: &Context, inputs: &[String]) -> Option<(String, String)> {
    let run = run_session(base, inputs);
    for p in &run.pieces {
        if let Some((class, why)) = &p.r.fail {
            return Some((format!("{}:{}", class, p.what.split(':').next().unwrap_or("")), format!("{} rendering: {}", p.what, why)));
        }
    }
    None
}

fn emit_session(out: &mut Out, base: &Context, inputs: &[String], tag: &str) {
    let run = run_session(base, inputs);
    let mut nontrivial = false;
    let mut failed = false;
    for p in &run.pieces {
        out.line(&p.r.req, &p.r.imp);
        out.count(&format!("piece_{}", p.what));
        if p.r.escapes > 0 {
            out.count("renderings_with_escaped_metachar");
            nontrivial = true;
        }
        if p.r.tags > 0 {
            out.count("renderings_with_spans");
        }
        out.count_n("rendered_bytes", p.r.html_len as u64);
        failed |= p.r.fail.is_some();
    }
    if let Some(p) = &run.panic {
        out.count("implementation_panics_while_rendering_or_interpreting");
        out.count(&format!("panic@{}", p.split(" :: ").next().unwrap_or("?")));
    }
    out.count(&format!("gen_{}", tag));
    if std::env::var("C20_DUMP").is_ok() {
        let kinds: Vec<&str> = run.pieces.iter().map(|p| p.what.as_str()).collect();
        eprintln!("{} => {:?}", tag, kinds);
    }
    out.case(&session_line(inputs), nontrivial);
    if failed {
        let (class0, _) = session_failure(base, inputs).unwrap();
        // shrink: fewer inputs, then fewer characters of each input, keeping the same failure class
        let still = |c: &[String]| session_failure(base, c).map(|f| f.0 == class0).unwrap_or(false);
        let mut small = shrink_seq(inputs, |c| still(c));
        for k in 0..small.len() {
            let chars: Vec<char> = small[k].chars().collect();
            let rest = small.clone();
            let sc = shrink_seq(&chars, |cs| {
                let mut c = rest.clone();
                c[k] = cs.iter().collect();
                still(&c)
            });
            small[k] = sc.into_iter().collect();
        }
        let (class, why) = session_failure(base, &small).unwrap();
        let line = session_line(&small);
        out.oracle_fail(&format!("html-{}:{}", class, line), &line, &why);
    }
}

fn emit_rendering(out: &mut Out, r: Rendering, kind: &str, nontrivial_hint: bool) {
    out.line(&r.req, &r.imp);
    out.count(&format!("piece_{}", kind));
    if r.escapes > 0 {
        out.count("renderings_with_escaped_metachar");
    }
    out.count_n("rendered_bytes", r.html_len as u64);
    out.case(&r.req, nontrivial_hint && r.escapes > 0);
}

fn emit_fmt(out: &mut Out, markup: &Markup, indent: bool, kind: &str) {
    let r = render_markup(markup, indent);
    if let Some((class, _)) = &r.fail {
        let class = *class;
        let parts: Vec<FormattedString> = markup.0.clone();
        let still = |ps: &[FormattedString]| render_markup(&Markup(ps.to_vec()), indent).fail.map(|f| f.0 == class).unwrap_or(false);
        let mut small = shrink_seq(&parts, |ps| still(ps));
        for k in 0..small.len() {
            let chars: Vec<char> = small[k].2.chars().collect();
            let rest = small.clone();
            let sc = shrink_seq(&chars, |cs| {
                let mut c = rest.clone();
                let s: String = cs.iter().collect();
                c[k] = FormattedString(OutputType::Normal, c[k].1, numbat::compact_str::CompactString::from(s).into());
                still(&c)
            });
            let s: String = sc.into_iter().collect();
            small[k] = FormattedString(OutputType::Normal, small[k].1, numbat::compact_str::CompactString::from(s).into());
        }
        let mk = Markup(small);
        let r2 = render_markup(&mk, indent);
        let line = fmt_request(&mk, indent);
        let why = r2.fail.map(|f| f.1).unwrap_or_default();
        out.oracle_fail(&format!("html-{}:fmt:{}", class, line), &line, &format!("HtmlFormatter: {}", why));
    }
    emit_rendering(out, r, kind, true);
}

fn emit_calls(out: &mut Out, calls: &[Call], kind: &str) {
    let r = render_calls(calls);
    if let Some((class, _)) = &r.fail {
        let class = *class;
        let still = |cs: &[Call]| render_calls(cs).fail.map(|f| f.0 == class).unwrap_or(false);
        let mut small = shrink_seq(calls, |cs| still(cs));
        for k in 0..small.len() {
            if let Call::Write(b) = small[k].clone() {
                let rest = small.clone();
                let sb = shrink_seq(&b, |bs| {
                    let mut c = rest.clone();
                    c[k] = Call::Write(bs.to_vec());
                    std::str::from_utf8(bs).is_ok() && still(&c)
                });
                small[k] = Call::Write(sb);
            }
        }
        let r2 = render_calls(&small);
        let line = calls_text(&small);
        let why = r2.fail.map(|f| f.1).unwrap_or_default();
        out.oracle_fail(&format!("html-{}:wr:{}", class, line), &line, &format!("HtmlWriter: {}", why));
    }
    emit_rendering(out, r, kind, true);
}

// ------------------------------------------------------------------ generators

const PAYLOADS: &[&str] = &[
    "<img src=x onerror=alert(1)>",
    "<b>",
    "</span>",
    "<script>alert(1)</script>",
    "&amp;",
    "&lt;b&gt;",
    "&",
    "<",
    ">",
    "a<b",
    "a>b",
    "x&y",
    "\"'",
    "<span class=\"numbat-value\">",
    "</span><span class=\"numbat-string\">",
    "&#60;",
    "]]>",
    "<!--",
    "-->",
    "<é>",
    "&nbsp",
    "<<>>",
    "'><svg/onload=1>",
    "\"><b>",
    "a && b < c > d",
    "→<→",
    // text that looks like something a renderer might treat specially (links, addresses)
    "https://example.com/\" onmouseover=\"alert(1)",
    "http://a.b/?x=1&y=<2>",
    "https://numbat.dev/'><b>",
    "mailto:a@b\"><i>",
    "www.example.com/<u>",
    "javascript:alert(1)",
];

fn payload(rng: &mut Rng) -> String {
    if rng.chance(6, 10) {
        rng.pick(PAYLOADS).to_string()
    } else {
        let alpha: Vec<char> = "<><>&&\"';/=! abxé€\t".chars().collect();
        let n = 1 + rng.below(12);
        (0..n).map(|_| *rng.pick(&alpha)).collect()
    }
}

/// the payload as the inside of a numbat string literal
fn lit(p: &str) -> String {
    numbat::pretty_print::escape_numbat_string(p).to_string()
}

/// payload made safe for a `#` comment (one line)
fn comment(p: &str) -> String {
    p.replace(['\n', '\r'], " ")
}

fn ident(rng: &mut Rng) -> String {
    const IDS: &[&str] = &["foo", "bar_baz", "länge", "x1", "αβ", "Quux", "my_unit", "tmp"];
    rng.pick(IDS).to_string()
}

/// one input of a given category; `cat` names the branch for the histogram
fn gen_input(rng: &mut Rng) -> (String, &'static str) {
    let p = payload(rng);
    let q = payload(rng);
    let id = ident(rng);
    let c = comment(&p);
    let l = lit(&p);
    let lq = lit(&q);
    match rng.below(68) {
        // ---- results that echo user text
        0 => (format!("\"{}\"", l), "ok-string"),
        1 => (format!("[\"{}\", \"{}\"]", l, lq), "ok-list"),
        2 => (format!("print(\"{}\")", l), "ok-print"),
        3 => (format!("let {} = \"{}\"\n{}", id, l, id), "ok-let-string"),
        4 => (format!("\"a {{1 + 1}} {} {{\"{}\"}}\"", l, lq), "ok-interpolation"),
        5 => (format!("struct S{} {{ a: String, b: Scalar }}\nS{} {{ a: \"{}\", b: 1 }}", id.len(), id.len(), l), "ok-struct"),
        6 => (format!("str_append(\"{}\", \"{}\")  # {}", l, lq, c), "ok-str-fn"),
        7 => (format!("@name(\"{}\")\n@url(\"{}\")\n@description(\"{}\")\nunit {}\n2 {}", l, lq, l, id, id), "ok-unit-decorators"),
        8 => (format!("@name(\"{}\")\n@description(\"{}\")\nlet {} = 2 m", l, lq, id), "ok-let-decorators"),
        9 => (format!("fn f_{}<A, B>(x: A, y: B) -> A = x  # {}", id, c), "ok-generic-fn"),
        10 => (format!("1 < 2 && 3 > 2  # {}", c), "ok-operators"),
        11 => (format!("[1, 2, 3]  # {}", c), "ok-list-type"),
        12 => (format!("print(\"{}\")\nprint(\"{}\")\n\"{}\"", l, lq, l), "ok-multi-print"),
        13 => (format!("type(\"{}\")", l), "ok-type"),
        14 => (format!("if str_length(\"{}\") > 2 then \"{}\" else \"{}\"", l, l, lq), "ok-conditional"),
        15 => (format!("@aliases({}s, {}es)\nunit {}: Length = 2 m  # {}", id, id, id, c), "ok-unit-aliases"),
        // ---- parse errors (ResolverError::ParseErrors)
        16 => (p.clone(), "parse-raw-payload"),
        17 => (format!("1 + {}", p), "parse-after-operator"),
        18 => (format!("\"{}", l), "parse-unterminated-string"),
        19 => (format!("let {} = {}", id, p), "parse-let"),
        20 => (format!("2 m + # {}\n", c), "parse-trailing-operator"),
        21 => (format!("fn f(x) = x\n1 + 1\n{} {}\n2 * 3", p, q), "parse-multiline"),
        22 => (format!("\"{{{}}}\"", p), "parse-bad-interpolation"),
        23 => (format!("let x = 1 # {}\nlet y = )  # {}", c, comment(&q)), "parse-comment-lines"),
        // ---- resolver errors
        24 => (format!("use {}::{}  # {}", id, ident(rng), c), "resolver-unknown-module"),
        25 => (format!("# {}\nuse nonexistent::module", c), "resolver-unknown-module"),
        // ---- name resolution
        26 => (format!("let {} = 1  # {}\nfn {}() = 2  # {}", id, c, id, comment(&q)), "nameres-clash"),
        27 => (format!("unit {}  # {}\nlet {} = 1", id, c, id), "nameres-clash"),
        28 => (format!("let _ = \"{}\"", l), "nameres-reserved"),
        29 => (format!("fn sin(x) = \"{}\"", l), "nameres-clash-builtin"),
        // ---- type check errors
        30 => (format!("1 m + 1 s  # {}", c), "tc-dimensions"),
        31 => (format!("unknown_{}(\"{}\")", id, l), "tc-unknown-identifier"),
        32 => (format!("\"{}\" + 1", l), "tc-operator-types"),
        33 => (format!("if \"{}\" then 1 else 2", l), "tc-expected-bool"),
        34 => (format!("[1, \"{}\"]", l), "tc-list-types"),
        35 => (format!("struct T {{ a: String }}\nT {{ b: \"{}\" }}", l), "tc-unknown-field"),
        36 => (format!("assert(\"{}\")", l), "tc-assert-type"),
        37 => (format!("let x: Length = \"{}\"", l), "tc-annotation"),
        38 => (format!("\"{}\".{}", l, id), "tc-field-access"),
        39 => (format!("fn gfun(x: String) -> Scalar = 1\ngfun(2)  # {}", c), "tc-function-call"),
        40 => (format!("2^(1 m)  # {}", c), "tc-exponent"),
        41 => (format!("assert_eq(\"{}\", 1)", l), "tc-assert-eq-types"),
        42 => (format!("if true then \"{}\" else 2", l), "tc-condition-types"),
        43 => (format!("\"{}\" == 1  # {}", l, comment(&q)), "tc-comparison-types"),
        44 => (format!("struct U {{ a: String, a: Scalar }}  # {}", c), "tc-duplicate-field"),
        45 => (format!("struct V {{ a: String, b: Scalar }}\nV {{ a: \"{}\" }}", l), "tc-missing-fields"),
        46 => (format!("let hole_var = str_append(\"{}\", ?)", l), "tc-typed-hole"),
        47 => (format!("sin(1, \"{}\")", l), "tc-arity"),
        48 => (format!("let y: Lenght{} = 1 m  # {}", id.len(), c), "tc-unknown-dimension"),
        49 => (format!("Foo{} {{ a: \"{}\" }}", id.len(), l), "tc-unknown-struct"),
        50 => (format!("(\"{}\")(1)", l), "tc-not-callable"),
        51 => (format!("fn ff(x: String) -> String\nff(\"{}\")", l), "tc-foreign-function"),
        // ---- run-time errors
        52 => (format!("error(\"{}\")", l), "rt-user-error"),
        53 => (format!("assert_eq(\"{}\", \"{}x\")", l, lq), "rt-assert-eq2-strings"),
        54 => (format!("assert(str_length(\"{}\") < 0)", l), "rt-assert"),
        55 => (format!("1 / 0  # {}", c), "rt-division"),
        56 => (format!("assert_eq(1 m, 2 m, 1 cm)  # {}", c), "rt-assert-eq3"),
        57 => (format!("head([\"{}\"] |> tail)", l), "rt-empty-list"),
        58 => (format!("fn boom(s: String) -> Scalar = if str_length(s) >= 0 then error(s) else 1\nfn outer(s: String) -> Scalar = boom(s) + 1\nouter(\"{}\")  # {}", l, comment(&q)), "rt-backtrace"),
        59 => (format!("print(\"{}\")\nerror(\"{}\")", l, lq), "rt-print-then-error"),
        60 => (format!("assert_eq([\"{}\"], [\"{}\", \"x\"])", l, lq), "rt-assert-eq2-lists"),
        61 => (format!("datetime(\"{}\")", l), "rt-datetime"),
        // ---- commands rendered through the formatter
        62 => (format!("info {}", id), "info"),
        63 => (format!("struct W {{ a: Scalar }}\nW {{ a: \"{}\" }}", l), "tc-struct-field-type"),
        64 => (format!("struct X {{ a: String }}\n(X {{ a: \"{}\" }}).b", l), "tc-unknown-field-access"),
        65 => (format!("(3 m)!  # {}", c), "tc-factorial"),
        66 => (format!("dimension D{}  # {}\ndimension D{}", id.len(), c, id.len()), "tc-dimension-exists"),
        _ => (format!("chr(60) |> str_append(\"{}\")", l), "ok-chr"),
    }
}

fn gen_session(rng: &mut Rng) -> (Vec<String>, &'static str) {
    let (first, tag) = gen_input(rng);
    let mut v = vec![first.clone()];
    // definitions followed by uses / info on what was defined
    if tag == "ok-unit-decorators" || tag == "ok-let-decorators" || tag == "ok-unit-aliases" {
        // the identifier is the last word of the `unit`/`let` line
        let name: String = first
            .lines()
            .find(|l| l.starts_with("unit ") || l.starts_with("let "))
            .and_then(|l| l.split(|c: char| c == ' ' || c == ':').nth(1))
            .unwrap_or("m")
            .to_string();
        v.push(format!("info {}", name));
    } else if rng.chance(1, 4) {
        v.push(gen_input(rng).0);
    }
    (v, tag)
}

fn gen_markup(rng: &mut Rng) -> (Markup, bool) {
    let n = rng.below(7);
    let mut parts = Vec::new();
    for _ in 0..n {
        let ft = *rng.pick(&ALL_FT);
        let s = match rng.below(8) {
            0 => String::new(),
            1 => "\n".to_string(),
            2 => format!("{}\n{}", payload(rng), payload(rng)),
            3 => "  ".to_string(),
            _ => payload(rng),
        };
        let ot = if rng.chance(1, 5) { OutputType::Optional } else { OutputType::Normal };
        parts.push(FormattedString(ot, ft, numbat::compact_str::CompactString::from(s).into()));
    }
    (Markup(parts), rng.chance(1, 2))
}

fn gen_calls(rng: &mut Rng) -> Vec<Call> {
    const COLORS: &[Option<Color>] = &[
        None,
        Some(Color::Red),
        Some(Color::Blue),
        Some(Color::Green),
        Some(Color::Cyan),
        Some(Color::Yellow),
        Some(Color::White),
        Some(Color::Black),
        Some(Color::Magenta),
        Some(Color::Ansi256(200)),
    ];
    let n = 1 + rng.below(10);
    let mut v = Vec::new();
    for _ in 0..n {
        match rng.below(10) {
            0..=2 => v.push(Call::Set(rng.pick(COLORS).clone(), rng.chance(1, 2), rng.below(64) as u8)),
            3 => v.push(Call::Reset),
            4 => v.push(Call::Flush),
            5 => v.push(Call::Write(vec![])),
            _ => {
                // a text split at arbitrary byte positions (partial writes may cut a multi-byte character)
                let text = format!("{}{}", payload(rng), if rng.chance(1, 3) { payload(rng) } else { String::new() });
                let b = text.as_bytes();
                // cut at a character boundary: a coloured write of half a character would put a tag between
                // the halves and `to_string` (from_utf8_lossy) would replace them
                let mut cut = if b.is_empty() { 0 } else { rng.below(b.len() + 1) };
                while !text.is_char_boundary(cut) {
                    cut -= 1;
                }
                v.push(Call::Write(b[..cut].to_vec()));
                if rng.chance(1, 3) {
                    v.push(Call::Set(rng.pick(COLORS).clone(), rng.chance(1, 2), rng.below(64) as u8));
                }
                v.push(Call::Write(b[cut..].to_vec()));
            }
        }
    }
    v
}

// ------------------------------------------------------------------ main

fn run_line(out: &mut Out, base: &Context, l: &str, tag: &str) {
    if let Some(rest) = l.strip_prefix("raw ") {
        emit_session(out, base, &[rest.to_string()], tag);
    } else if let Some(rest) = l.strip_prefix("sess ") {
        let inputs: Vec<String> = rest.split(' ').filter(|x| !x.is_empty()).map(|x| String::from_utf8_lossy(&unpct(x)).to_string()).collect();
        emit_session(out, base, &inputs, tag);
    } else if l.starts_with("fmt ") {
        if let Some((mk, ind)) = fmt_parse(l) {
            emit_fmt(out, &mk, ind, "fmt-replayed");
        }
    } else if l.starts_with("wr") {
        if let Some(calls) = calls_parse(l) {
            emit_calls(out, &calls, "wr-replayed");
        }
    }
}

fn main() {
    let args = Args::parse();
    let mut out = Out::new(&args);
    out.rule = "sessions of 1-2 inputs on a prelude context, drawn from 68 templates (16 kinds of successful results echoing user text, 8 parse-error shapes, unknown module, 4 name-resolution shapes, 26 type-check error shapes, 10 run-time error shapes, info/help) with payloads of HTML metacharacters (32 fixed payloads such as <img src=x onerror=alert(1)>, </span>, &amp;, quotes, URL-, mailto- and javascript-shaped texts with metacharacters, or random strings over < > & \" ' ; / = ! and letters) placed in string literals, comments, decorator strings and raw token positions; every markup/diagnostic produced is rendered as numbat-wasm renders it. Plus synthetic markup (0-6 parts of any FormatType, with/without indent) and synthetic writer call sequences (set_color with 10 colours x bold, reset, flush, writes of texts split at arbitrary byte positions). distinct = distinct session / request text; non-trivial = at least one rendering in which the renderer had to escape a metacharacter".into();

    let mut base = Context::new(BuiltinModuleImporter::default());
    let _ = base.interpret("use prelude", CodeSource::Internal).expect("prelude");
    base.set_terminal_width(Some(84));

    if let Some(p) = &args.replay {
        for l in read_lines(p) {
            run_line(&mut out, &base, &l, "replay");
        }
        out.finish();
        return;
    }

    if let Some(dir) = args.extra.get("corpus") {
        let mut files: Vec<_> = std::fs::read_dir(dir).map(|d| d.filter_map(|e| e.ok()).map(|e| e.path()).collect()).unwrap_or_default();
        files.sort();
        for f in files {
            for l in read_lines(&f) {
                if l.starts_with('#') || l.trim().is_empty() {
                    continue;
                }
                run_line(&mut out, &base, &l, "corpus");
            }
        }
    }

    let mut rng = Rng::new(args.seed);
    let n = args.count(2000, 100000);
    for i in 0..n {
        match i % 10 {
            0..=5 => {
                let (inputs, tag) = gen_session(&mut rng);
                emit_session(&mut out, &base, &inputs, tag);
            }
            6 | 7 => {
                let (mk, ind) = gen_markup(&mut rng);
                emit_fmt(&mut out, &mk, ind, "fmt-synthetic");
            }
            _ => {
                let calls = gen_calls(&mut rng);
                emit_calls(&mut out, &calls, "wr-synthetic");
            }
        }
    }
    out.finish();
}
