//! C24 — every documented standard-library example runs.
//!
//! The set of `@example` snippets is finite; this binary executes EVERY one of them on the real
//! interpreter, in both tiers (no sampling, the seed is irrelevant).
//!
//! Set of examples: `Context::functions()` of a context that ran `use all` (what numbat's own
//! documentation generator `numbat/examples/inspect.rs` iterates over), plus the functions of every
//! module found in the module tree that `use all` does not import (loaded one module at a time).
//!
//! Context of an example (what the documentation assumes, cf. `inspect_functions_in_module`): a fresh
//! clone of a session that ran `use prelude` and `use units::currencies`, then `use <module of the
//! function>` if that module is not imported yet, then the example text, with a silent print function.
//! Exchange rates: the crate is built without network access; like numbat's own test-suite the harness
//! calls `Context::use_test_exchange_rates()` (every rate 1.0), so `use units::currencies` works offline.
//!
//! Oracle: the example is interpreted without resolver / name-resolution / type-check / run-time error
//! and without panic.  Exempt (by rule, not by list): examples that mention a foreign function whose Rust
//! body reads the process environment (`std::env::…` in numbat/src/ffi/*.rs, mapped to its numbat name
//! through the `insert_function!` table) — today only `args`.
//!
//! Modes:   --list yes   print `#env<TAB>names` then `module<TAB>function<TAB>index<TAB>exempt<TAB>example` (JSON-escaped) and exit
//!          --replay F   F holds lines `module<TAB>function<TAB>example-json`; they are run like any example
//! Request lines for the model: there is no model of the interpreter; impl.txt/req.txt carry the
//! canonical outcome list so that evidence counts lines, but no driver consumes them.

use numbat::module_importer::BuiltinModuleImporter;
use numbat::resolver::CodeSource;
use numbat::{Context, InterpreterSettings, NumbatError};
use nvh::*;
use std::collections::BTreeSet;

const FFI_DIR: &str = "/repo/numbat/src/ffi";
const MODULES_DIR: &str = "/repo/numbat/modules";

#[derive(Clone, Debug)]
struct Example {
    module: String,
    function: String,
    index: usize,
    text: String,
}

fn new_ctx() -> Context {
    let mut ctx = Context::new(BuiltinModuleImporter::default());
    ctx.load_currency_module_on_demand(false);
    ctx
}

fn silent() -> InterpreterSettings {
    InterpreterSettings {
        print_fn: Box::new(|_| {}),
    }
}

/// names of numbat foreign functions whose Rust implementation reads the process environment
fn env_dependent_functions() -> BTreeSet<String> {
    let mut rust_fns: BTreeSet<String> = BTreeSet::new();
    let mut table = String::new();
    if let Ok(rd) = std::fs::read_dir(FFI_DIR) {
        for e in rd.flatten() {
            let p = e.path();
            if p.extension().map(|x| x == "rs").unwrap_or(false) {
                let src = std::fs::read_to_string(&p).unwrap_or_default();
                if p.file_name().map(|n| n == "functions.rs").unwrap_or(false) {
                    table = src.clone();
                }
                // split into top-level `fn name(` items
                let mut cur: Option<String> = None;
                for line in src.lines() {
                    let t = line.trim_start();
                    let is_top = line.starts_with("fn ") || line.starts_with("pub fn ") || line.starts_with("pub(crate) fn ");
                    if is_top {
                        let after = t.split("fn ").nth(1).unwrap_or("");
                        let name: String = after.chars().take_while(|c| c.is_alphanumeric() || *c == '_').collect();
                        cur = Some(name);
                    }
                    if t.contains("std::env::") || t.contains(" env::args") || t.contains(" env::var") {
                        if let Some(n) = &cur {
                            rust_fns.insert(n.clone());
                        }
                    }
                }
            }
        }
    }
    // map through insert_function!("name", callable, ..) / insert_function!(callable, ..)
    let mut out = BTreeSet::new();
    for line in table.lines() {
        let t = line.trim();
        if let Some(rest) = t.strip_prefix("insert_function!(") {
            let parts: Vec<&str> = rest.split(',').map(|s| s.trim()).collect();
            if parts.is_empty() {
                continue;
            }
            let (nb_name, callable) = if parts[0].starts_with('"') {
                (parts[0].trim_matches('"').to_string(), parts.get(1).copied().unwrap_or("").to_string())
            } else {
                (parts[0].to_string(), parts[0].to_string())
            };
            if rust_fns.contains(&callable) {
                out.insert(nb_name);
            }
        }
    }
    out
}

fn identifiers(text: &str) -> Vec<String> {
    let mut out = Vec::new();
    let mut cur = String::new();
    let mut in_str = false;
    for c in text.chars() {
        if c == '"' {
            in_str = !in_str;
        }
        // identifier character of the exemption rule (mirrored in lean/NumbatModel/Model/Examples.lean):
        // ASCII letter / digit / `_` / any non-ASCII character, outside string literals
        if !in_str && (c.is_ascii_alphanumeric() || c == '_' || (c as u32) >= 128) {
            cur.push(c);
        } else if !cur.is_empty() {
            out.push(std::mem::take(&mut cur));
        }
    }
    if !cur.is_empty() {
        out.push(cur);
    }
    out
}

/// all module paths of the module tree (a::b for a/b.nbt)
fn all_modules() -> Vec<String> {
    fn walk(dir: &std::path::Path, prefix: &str, out: &mut Vec<String>) {
        let mut entries: Vec<_> = std::fs::read_dir(dir).map(|r| r.flatten().collect()).unwrap_or_default();
        entries.sort_by_key(|e: &std::fs::DirEntry| e.path());
        for e in entries {
            let p = e.path();
            let stem = p.file_stem().unwrap().to_string_lossy().to_string();
            if p.is_dir() {
                walk(&p, &format!("{}{}::", prefix, stem), out);
            } else if p.extension().map(|x| x == "nbt").unwrap_or(false) {
                out.push(format!("{}{}", prefix, stem));
            }
        }
    }
    let mut out = Vec::new();
    walk(std::path::Path::new(MODULES_DIR), "", &mut out);
    out
}

fn collect_from(ctx: &Context, seen: &mut BTreeSet<(String, String)>, out: &mut Vec<Example>) {
    let mut infos: Vec<_> = ctx.functions().collect();
    infos.sort_by(|a, b| a.fn_name.cmp(&b.fn_name));
    for info in infos {
        let module = match &info.code_source {
            CodeSource::Module(p, _) => p.to_string(),
            _ => "<none>".to_string(),
        };
        if !seen.insert((module.clone(), info.fn_name.to_string())) {
            continue;
        }
        for (i, (code, _desc)) in info.examples.iter().enumerate() {
            out.push(Example {
                module: module.clone(),
                function: info.fn_name.to_string(),
                index: i,
                text: code.to_string(),
            });
        }
    }
}

struct Collected {
    examples: Vec<Example>,
    functions: usize,
    modules_outside_all: Vec<String>,
    modules_failed: Vec<String>,
}

fn collect_examples() -> Collected {
    let mut seen = BTreeSet::new();
    let mut out = Vec::new();
    let mut all = new_ctx();
    let _ = all
        .interpret_with_settings(&mut silent(), "use all", CodeSource::Internal)
        .expect("use all");
    collect_from(&all, &mut seen, &mut out);
    // modules not reachable from `use all`: load each on top of the prelude
    let imported: BTreeSet<String> = all.resolver().imported_modules.iter().map(|m| m.to_string()).collect();
    let mut outside = Vec::new();
    let mut failed = Vec::new();
    let mut prelude = new_ctx();
    let _ = prelude
        .interpret_with_settings(&mut silent(), "use prelude", CodeSource::Internal)
        .expect("use prelude");
    for m in all_modules() {
        if imported.contains(&m) {
            continue;
        }
        outside.push(m.clone());
        let mut c = prelude.clone();
        let r = catch(std::panic::AssertUnwindSafe(|| {
            c.interpret_with_settings(&mut silent(), &format!("use {}", m), CodeSource::Internal)
                .map(|_| ())
                .map_err(|e| e.to_string())
        }));
        match r {
            Ok(Ok(())) => collect_from(&c, &mut seen, &mut out),
            _ => failed.push(m),
        }
    }
    out.sort_by(|a, b| (&a.module, &a.function, a.index).cmp(&(&b.module, &b.function, b.index)));
    Collected {
        examples: out,
        functions: seen.len(),
        modules_outside_all: outside,
        modules_failed: failed,
    }
}

fn error_kind(e: &NumbatError) -> &'static str {
    match e {
        NumbatError::ResolverError(_) => "resolver-error",
        NumbatError::NameResolutionError(_) => "name-resolution-error",
        NumbatError::TypeCheckError(_) => "typecheck-error",
        NumbatError::RuntimeError(_) => "runtime-error",
    }
}

/// outcome: ("ok-value" | "ok-continue" | "<error kind>" | "panic" | "import-failed", detail)
fn run_example(base: &Context, module: &str, text: &str) -> (String, String) {
    let mut ctx = base.clone();
    let r = catch(std::panic::AssertUnwindSafe(|| {
        let need_import = module != "<none>" && !ctx.resolver().imported_modules.iter().any(|m| m.to_string() == module);
        if need_import {
            if let Err(e) = ctx.interpret_with_settings(&mut silent(), &format!("use {}", module), CodeSource::Internal) {
                return ("import-failed".to_string(), e.to_string());
            }
        }
        match ctx.interpret_with_settings(&mut silent(), text, CodeSource::Internal) {
            Ok((_stmts, res)) => match res {
                numbat::InterpreterResult::Value(_) => ("ok-value".to_string(), String::new()),
                numbat::InterpreterResult::Continue => ("ok-continue".to_string(), String::new()),
            },
            Err(e) => (error_kind(&e).to_string(), e.to_string()),
        }
    }));
    match r {
        Ok(x) => x,
        Err(p) => ("panic".to_string(), p),
    }
}

fn json_unescape(s: &str) -> String {
    // inverse of nvh::json_str for the characters it escapes
    let s = s.trim();
    let s = s.strip_prefix('"').and_then(|x| x.strip_suffix('"')).unwrap_or(s);
    let mut out = String::new();
    let mut it = s.chars();
    while let Some(c) = it.next() {
        if c != '\\' {
            out.push(c);
            continue;
        }
        match it.next() {
            Some('n') => out.push('\n'),
            Some('r') => out.push('\r'),
            Some('t') => out.push('\t'),
            Some('u') => {
                let h: String = (0..4).filter_map(|_| it.next()).collect();
                if let Some(ch) = u32::from_str_radix(&h, 16).ok().and_then(char::from_u32) {
                    out.push(ch);
                }
            }
            Some(o) => out.push(o),
            None => {}
        }
    }
    out
}

fn main() {
    let args = Args::parse();
    Context::use_test_exchange_rates();
    let envfns = env_dependent_functions();
    let is_exempt = |text: &str| identifiers(text).iter().any(|i| envfns.contains(i));

    if args.extra.contains_key("list") {
        let col = collect_examples();
        println!("#env\t{}", envfns.iter().cloned().collect::<Vec<_>>().join(" "));
        for e in &col.examples {
            println!(
                "{}\t{}\t{}\t{}\t{}",
                e.module,
                e.function,
                e.index,
                if is_exempt(&e.text) { 1 } else { 0 },
                json_str(&e.text)
            );
        }
        return;
    }

    let mut out = Out::new(&args);
    out.rule = "exhaustive: every (function, @example) pair reported by Context::functions() after `use all`, plus the \
                functions of modules outside `use all` (each loaded on the prelude); each example runs in a fresh clone of \
                a session with `use prelude` + `use units::currencies` (test exchange rates, all 1.0), preceded by `use \
                <module>` when the function's module is not imported; distinct = distinct (module, function, example text); \
                non-trivial = every example (each is a separate documented snippet). Not sampled: seed and tier do not \
                change the set."
        .into();

    let mut base = new_ctx();
    let _ = base
        .interpret_with_settings(&mut silent(), "use prelude", CodeSource::Internal)
        .expect("use prelude");
    let _ = base
        .interpret_with_settings(&mut silent(), "use units::currencies", CodeSource::Internal)
        .expect("use units::currencies (test exchange rates)");

    // examples to run: corpus + replay lines first, then the complete set
    let mut extra_lines: Vec<String> = Vec::new();
    if let Some(dir) = args.extra.get("corpus") {
        let mut files: Vec<_> = std::fs::read_dir(dir).map(|r| r.flatten().map(|e| e.path()).collect()).unwrap_or_default();
        files.sort();
        for f in files {
            if f.extension().map(|x| x == "txt").unwrap_or(false) {
                extra_lines.extend(read_lines(&f));
            }
        }
    }
    if let Some(r) = &args.replay {
        extra_lines.extend(read_lines(r));
    }
    let mut todo: Vec<(Example, &'static str)> = Vec::new();
    for l in extra_lines {
        if l.trim().is_empty() || l.starts_with('#') {
            continue;
        }
        let parts: Vec<&str> = l.splitn(3, '\t').collect();
        if parts.len() == 3 {
            todo.push((
                Example {
                    module: parts[0].to_string(),
                    function: parts[1].to_string(),
                    index: 0,
                    text: json_unescape(parts[2]),
                },
                "replay",
            ));
        }
    }
    let replay_only = args.replay.is_some();
    let mut functions = 0;
    if !replay_only {
        let col = collect_examples();
        functions = col.functions;
        out.extra.insert("functions_listed".into(), col.functions.to_string());
        out.extra.insert("modules_outside_use_all".into(), col.modules_outside_all.join(" "));
        out.extra.insert("modules_outside_use_all_failed_to_load".into(), col.modules_failed.join(" "));
        for e in col.examples {
            todo.push((e, "set"));
        }
    }

    let mut exempt_n = 0;
    let mut seen_fail: BTreeSet<String> = BTreeSet::new();
    let mut set_size = 0;
    for (e, origin) in &todo {
        let exempt = is_exempt(&e.text);
        let (outcome, detail) = run_example(&base, &e.module, &e.text);
        let canon = format!("{}\t{}\t{}", e.module, e.function, json_str(&e.text));
        out.case(&canon, true);
        if *origin == "set" {
            set_size += 1;
        }
        out.count(&format!("outcome:{}", outcome));
        out.count(&format!("module:{}", e.module));
        out.count(if exempt { "exempt:yes" } else { "exempt:no" });
        let ok = outcome.starts_with("ok-");
        out.line(
            &format!("example {}", canon),
            &format!("{}{}", outcome, if exempt { " exempt" } else { "" }),
        );
        if exempt {
            exempt_n += 1;
            continue;
        }
        if !ok {
            let key = format!("C24:{}:{}:{}", e.module, e.function, e.text);
            if seen_fail.insert(key.clone()) {
                out.oracle_fail(
                    &key,
                    &canon,
                    &format!(
                        "example of `{}` (module {}) does not run in a prelude+currencies session: {} — {}",
                        e.function,
                        e.module,
                        outcome,
                        detail.lines().next().unwrap_or("")
                    ),
                );
            }
        }
    }
    out.extra.insert("exhaustive".into(), if replay_only { "".into() } else { "true".into() });
    out.extra.insert("examples_in_set".into(), set_size.to_string());
    out.extra.insert("exempt_examples".into(), exempt_n.to_string());
    out.extra.insert("env_dependent_functions".into(), envfns.iter().cloned().collect::<Vec<_>>().join(" "));
    out.extra.insert("functions".into(), functions.to_string());
    out.extra.insert(
        "explanation".into(),
        "exhaustive execution of the complete finite set of @example snippets on the real interpreter; a run, not a theorem"
            .into(),
    );
    out.finish();
}
