//! C09 — compiled programs compute what their source means.
//!
//! One case = a session of 1..3 inputs (each a few statements) of a generated well-typed program over
//! scalars, booleans, strings with interpolation, structs, lists, function values, functions with
//! parameters and `where` clauses, bounded recursion, `|>`, shadowing at every level.
//!
//! Request line (model):   run procs=<p,p,p> <typed statements of input 1> ;; <… input 2> ;; …
//!   the statements are the S-expressions of `Context::verif_c09_typed_dump` (what the compiler receives)
//! Answer:  B1 ;; B2 … || S1 ;; S2 …
//!   B = `value <canon>` | `continue` | `error <Kind>` | `panic`, ` out=[x<hex>,…]`, ` ref=ok`
//!   S = chunks (bytes), constants, struct infos, foreign callables, locals, function map, ip, stack, last
//!
//! Oracle on the implementation (independent of the Lean model): a reference evaluator over the
//! generated source tree (static scoping, closures capture the definition they name, left to right)
//! gives the expected value / error kind / printed lines of every input.
//!
//! Replay / corpus line formats:
//!   case <S-expression of the generated program>      (re-rendered, re-run, oracle recomputed)
//!   src <numbat source, `⏎` = newline, ` ;; ` between inputs> => <expected per input, ` ;; ` separated>
//!        expected: `value <text>` | `continue` | `error <Kind>` | `any`  (text = numbat's plain rendering)

use numbat::module_importer::BuiltinModuleImporter;
use numbat::resolver::CodeSource;
use numbat::verif::c09 as hook;
use numbat::{Context, InterpreterResult, InterpreterSettings, NumbatError};
use nvh::*;
use std::collections::BTreeMap;
use std::rc::Rc;
use std::sync::{Arc, Mutex};

// ------------------------------------------------------------------ source tree

#[derive(Clone, Debug, PartialEq)]
enum Ty {
    Num,
    Bool,
    Str,
    Struct(String),
    List(Box<Ty>),
    Fun(Vec<Ty>, Box<Ty>),
}

impl Ty {
    fn text(&self) -> String {
        match self {
            Ty::Num => "Scalar".into(),
            Ty::Bool => "Bool".into(),
            Ty::Str => "String".into(),
            Ty::Struct(n) => n.clone(),
            Ty::List(t) => format!("List<{}>", t.text()),
            Ty::Fun(ps, r) => format!(
                "Fn[({}) -> {}]",
                ps.iter().map(|p| p.text()).collect::<Vec<_>>().join(", "),
                r.text()
            ),
        }
    }
    fn sx(&self) -> String {
        match self {
            Ty::Num => "N".into(),
            Ty::Bool => "B".into(),
            Ty::Str => "S".into(),
            Ty::Struct(n) => format!("(T {})", n),
            Ty::List(t) => format!("(L {})", t.sx()),
            Ty::Fun(ps, r) => format!(
                "(F ({}) {})",
                ps.iter().map(|p| p.sx()).collect::<Vec<_>>().join(" "),
                r.sx()
            ),
        }
    }
    fn has_struct(&self) -> bool {
        match self {
            Ty::Struct(_) => true,
            Ty::List(t) => t.has_struct(),
            Ty::Fun(..) => false,
            _ => false,
        }
    }
    fn has_fun(&self) -> bool {
        match self {
            Ty::Fun(..) => true,
            Ty::List(t) => t.has_fun(),
            _ => false,
        }
    }
}

#[derive(Clone, Copy, Debug, PartialEq)]
enum Bop {
    Add,
    Sub,
    Mul,
    Div,
    Lt,
    Gt,
    Le,
    Ge,
    Eq,
    Ne,
    And,
    Or,
}

impl Bop {
    fn text(self) -> &'static str {
        match self {
            Bop::Add => "+",
            Bop::Sub => "-",
            Bop::Mul => "*",
            Bop::Div => "/",
            Bop::Lt => "<",
            Bop::Gt => ">",
            Bop::Le => "<=",
            Bop::Ge => ">=",
            Bop::Eq => "==",
            Bop::Ne => "!=",
            Bop::And => "&&",
            Bop::Or => "||",
        }
    }
    fn name(self) -> &'static str {
        match self {
            Bop::Add => "add",
            Bop::Sub => "sub",
            Bop::Mul => "mul",
            Bop::Div => "div",
            Bop::Lt => "lt",
            Bop::Gt => "gt",
            Bop::Le => "le",
            Bop::Ge => "ge",
            Bop::Eq => "eq",
            Bop::Ne => "ne",
            Bop::And => "and",
            Bop::Or => "or",
        }
    }
    fn parse(s: &str) -> Option<Bop> {
        [
            Bop::Add, Bop::Sub, Bop::Mul, Bop::Div, Bop::Lt, Bop::Gt, Bop::Le, Bop::Ge, Bop::Eq, Bop::Ne,
            Bop::And, Bop::Or,
        ]
        .into_iter()
        .find(|b| b.name() == s)
    }
}

#[derive(Clone, Debug, PartialEq)]
enum Part {
    Fixed(String),
    Interp(E),
}

#[derive(Clone, Debug, PartialEq)]
enum E {
    Num(f64),
    Bool(bool),
    Str(Vec<Part>),
    /// variable, `ans`/`_`, or a function name used as a value
    Var(String),
    Neg(Box<E>),
    Not(Box<E>),
    Fact(Box<E>),
    Bin(Bop, Box<E>, Box<E>),
    If(Box<E>, Box<E>, Box<E>),
    /// `f(a, b)`: `f` is whatever the name means where it stands (function, or variable holding one)
    Call(String, Vec<E>),
    /// `x |> f` / `x |> f(a)`  (means `f(a, x)`)
    Pipe(Box<E>, String, Vec<E>),
    /// `(callee)(args)`
    CallE(Box<E>, Vec<E>),
    Mk(String, Vec<(String, E)>),
    Field(Box<E>, String),
    List(Vec<E>),
}

#[derive(Clone, Debug, PartialEq)]
struct FnDef {
    name: String,
    params: Vec<(String, Ty)>,
    ret: Ty,
    wheres: Vec<(String, E)>,
    body: E,
}

#[derive(Clone, Debug, PartialEq)]
enum S {
    /// `dimension Scalar = 1` and the declarations of the foreign list/string functions
    Preamble,
    Expr(E),
    Let(String, Vec<String>, E),
    Fn(FnDef),
    Struct(String, Vec<(String, Ty)>),
    Print(E),
    Assert(E),
}

type Input = Vec<S>;

const PREAMBLE: &str = "dimension Scalar = 1\nfn len<A>(xs: List<A>) -> Scalar\nfn head<A>(xs: List<A>) -> A\nfn tail<A>(xs: List<A>) -> List<A>\nfn cons<A>(x: A, xs: List<A>) -> List<A>\nfn cons_end<A>(x: A, xs: List<A>) -> List<A>\nfn str_length(s: String) -> Scalar";
const BUILTINS: &[&str] = &["len", "head", "tail", "cons", "cons_end", "str_length"];

// ------------------------------------------------------------------ rendering to numbat source

fn num_text(x: f64) -> String {
    if x.fract() == 0.0 && x.abs() < 1e15 {
        format!("{}", x as i64)
    } else {
        format!("{}", x)
    }
}

fn render_e(e: &E) -> String {
    match e {
        E::Num(x) => num_text(*x),
        E::Bool(b) => b.to_string(),
        E::Str(parts) => {
            let mut o = String::from("\"");
            for p in parts {
                match p {
                    Part::Fixed(s) => o.push_str(s),
                    Part::Interp(e) => {
                        o.push('{');
                        o.push_str(&render_e(e));
                        o.push('}');
                    }
                }
            }
            o.push('"');
            o
        }
        E::Var(n) => n.clone(),
        E::Neg(a) => format!("(-{})", render_e(a)),
        E::Not(a) => format!("(!{})", render_e(a)),
        E::Fact(a) => format!("(({})!)", render_e(a)),
        E::Bin(op, a, b) => format!("({} {} {})", render_e(a), op.text(), render_e(b)),
        E::If(c, t, f) => format!("(if {} then {} else {})", render_e(c), render_e(t), render_e(f)),
        E::Call(f, args) => format!("{}({})", f, args.iter().map(render_e).collect::<Vec<_>>().join(", ")),
        E::Pipe(x, f, args) => {
            if args.is_empty() {
                format!("({} |> {})", render_e(x), f)
            } else {
                format!("({} |> {}({}))", render_e(x), f, args.iter().map(render_e).collect::<Vec<_>>().join(", "))
            }
        }
        E::CallE(c, args) => format!("({})({})", render_e(c), args.iter().map(render_e).collect::<Vec<_>>().join(", ")),
        E::Mk(n, fs) => {
            if fs.is_empty() {
                format!("{} {{}}", n)
            } else {
                format!(
                    "{} {{ {} }}",
                    n,
                    fs.iter().map(|(f, e)| format!("{}: {}", f, render_e(e))).collect::<Vec<_>>().join(", ")
                )
            }
        }
        E::Field(a, f) => match **a {
            E::Var(_) => format!("{}.{}", render_e(a), f),
            _ => format!("({}).{}", render_e(a), f),
        },
        E::List(es) => format!("[{}]", es.iter().map(render_e).collect::<Vec<_>>().join(", ")),
    }
}

fn render_s(s: &S) -> String {
    match s {
        S::Preamble => PREAMBLE.to_string(),
        S::Expr(e) => render_e(e),
        S::Let(n, aliases, e) => {
            if aliases.is_empty() {
                format!("let {} = {}", n, render_e(e))
            } else {
                format!("@aliases({})\nlet {} = {}", aliases.join(", "), n, render_e(e))
            }
        }
        S::Fn(d) => {
            let mut o = format!(
                "fn {}({}) -> {} = {}",
                d.name,
                d.params.iter().map(|(p, t)| format!("{}: {}", p, t.text())).collect::<Vec<_>>().join(", "),
                d.ret.text(),
                render_e(&d.body)
            );
            for (i, (n, e)) in d.wheres.iter().enumerate() {
                o.push_str(if i == 0 { "\n  where " } else { "\n    and " });
                o.push_str(&format!("{} = {}", n, render_e(e)));
            }
            o
        }
        S::Struct(n, fs) => {
            if fs.is_empty() {
                format!("struct {} {{}}", n)
            } else {
                format!(
                    "struct {} {{ {} }}",
                    n,
                    fs.iter().map(|(f, t)| format!("{}: {}", f, t.text())).collect::<Vec<_>>().join(", ")
                )
            }
        }
        S::Print(e) => format!("print({})", render_e(e)),
        S::Assert(e) => format!("assert({})", render_e(e)),
    }
}

fn render_input(i: &Input) -> String {
    i.iter().map(render_s).collect::<Vec<_>>().join("\n")
}

// ------------------------------------------------------------------ replay format (S-expressions)

fn hexs(s: &str) -> String {
    let mut o = String::from("x");
    for b in s.as_bytes() {
        o.push_str(&format!("{:02x}", b));
    }
    o
}

fn unhex(s: &str) -> Option<String> {
    let s = s.strip_prefix('x')?;
    let mut bytes = Vec::new();
    let cs: Vec<char> = s.chars().collect();
    for k in (0..cs.len()).step_by(2) {
        let h = cs.get(k)?.to_digit(16)?;
        let l = cs.get(k + 1)?.to_digit(16)?;
        bytes.push((h * 16 + l) as u8);
    }
    String::from_utf8(bytes).ok()
}

fn sx_list<T>(xs: &[T], f: impl Fn(&T) -> String) -> String {
    xs.iter().map(f).collect::<Vec<_>>().join(" ")
}

fn sx_e(e: &E) -> String {
    match e {
        E::Num(x) => format!("(num {})", fbits(*x)),
        E::Bool(b) => format!("(bool {})", *b as u8),
        E::Str(ps) => format!(
            "(str {})",
            sx_list(ps, |p| match p {
                Part::Fixed(s) => format!("(fixed {})", hexs(s)),
                Part::Interp(e) => format!("(interp {})", sx_e(e)),
            })
        ),
        E::Var(n) => format!("(var {})", n),
        E::Neg(a) => format!("(neg {})", sx_e(a)),
        E::Not(a) => format!("(not {})", sx_e(a)),
        E::Fact(a) => format!("(fact {})", sx_e(a)),
        E::Bin(op, a, b) => format!("(bin {} {} {})", op.name(), sx_e(a), sx_e(b)),
        E::If(c, t, f) => format!("(if {} {} {})", sx_e(c), sx_e(t), sx_e(f)),
        E::Call(f, args) => format!("(call {} {})", f, sx_list(args, sx_e)),
        E::Pipe(x, f, args) => format!("(pipe {} {} {})", sx_e(x), f, sx_list(args, sx_e)),
        E::CallE(c, args) => format!("(calle {} {})", sx_e(c), sx_list(args, sx_e)),
        E::Mk(n, fs) => format!("(mk {} {})", n, sx_list(fs, |(f, e)| format!("({} {})", f, sx_e(e)))),
        E::Field(a, f) => format!("(fld {} {})", sx_e(a), f),
        E::List(es) => format!("(list {})", sx_list(es, sx_e)),
    }
}

fn sx_s(s: &S) -> String {
    match s {
        S::Preamble => "(preamble)".into(),
        S::Expr(e) => format!("(expr {})", sx_e(e)),
        S::Let(n, al, e) => format!("(let ({} {}) {})", n, al.join(" "), sx_e(e)),
        S::Fn(d) => format!(
            "(fn {} ({}) {} ({}) {})",
            d.name,
            sx_list(&d.params, |(p, t)| format!("({} {})", p, t.sx())),
            d.ret.sx(),
            sx_list(&d.wheres, |(n, e)| format!("({} {})", n, sx_e(e))),
            sx_e(&d.body)
        ),
        S::Struct(n, fs) => format!("(struct {} {})", n, sx_list(fs, |(f, t)| format!("({} {})", f, t.sx()))),
        S::Print(e) => format!("(print {})", sx_e(e)),
        S::Assert(e) => format!("(assert {})", sx_e(e)),
    }
}

fn sx_program(p: &[Input]) -> String {
    p.iter().map(|i| format!("(input {})", sx_list(i, sx_s))).collect::<Vec<_>>().join(" ")
}

#[derive(Clone, Debug)]
enum Sx {
    A(String),
    L(Vec<Sx>),
}

fn sx_parse(s: &str) -> Vec<Sx> {
    fn go(cs: &[char], i: &mut usize) -> Vec<Sx> {
        let mut out = Vec::new();
        while *i < cs.len() {
            match cs[*i] {
                ' ' => *i += 1,
                '(' => {
                    *i += 1;
                    out.push(Sx::L(go(cs, i)));
                }
                ')' => {
                    *i += 1;
                    return out;
                }
                _ => {
                    let st = *i;
                    while *i < cs.len() && !matches!(cs[*i], ' ' | '(' | ')') {
                        *i += 1;
                    }
                    out.push(Sx::A(cs[st..*i].iter().collect()));
                }
            }
        }
        out
    }
    let cs: Vec<char> = s.chars().collect();
    let mut i = 0;
    go(&cs, &mut i)
}

fn atom(x: &Sx) -> Option<String> {
    match x {
        Sx::A(s) => Some(s.clone()),
        _ => None,
    }
}

fn ty_of(x: &Sx) -> Option<Ty> {
    match x {
        Sx::A(s) => match s.as_str() {
            "N" => Some(Ty::Num),
            "B" => Some(Ty::Bool),
            "S" => Some(Ty::Str),
            _ => None,
        },
        Sx::L(v) => match (atom(v.first()?)?.as_str(), v.len()) {
            ("T", 2) => Some(Ty::Struct(atom(&v[1])?)),
            ("L", 2) => Some(Ty::List(Box::new(ty_of(&v[1])?))),
            ("F", 3) => {
                let ps = match &v[1] {
                    Sx::L(ps) => ps.iter().map(ty_of).collect::<Option<Vec<_>>>()?,
                    _ => return None,
                };
                Some(Ty::Fun(ps, Box::new(ty_of(&v[2])?)))
            }
            _ => None,
        },
    }
}

fn e_of(x: &Sx) -> Option<E> {
    let v = match x {
        Sx::L(v) => v,
        _ => return None,
    };
    let head = atom(v.first()?)?;
    let es = |from: usize| v[from..].iter().map(e_of).collect::<Option<Vec<_>>>();
    let b = |k: usize| e_of(v.get(k)?).map(Box::new);
    Some(match head.as_str() {
        "num" => E::Num(f64::from_bits(u64::from_str_radix(&atom(v.get(1)?)?, 16).ok()?)),
        "bool" => E::Bool(atom(v.get(1)?)? == "1"),
        "str" => E::Str(
            v[1..]
                .iter()
                .map(|p| match p {
                    Sx::L(q) if q.len() == 2 => match atom(&q[0])?.as_str() {
                        "fixed" => Some(Part::Fixed(unhex(&atom(&q[1])?)?)),
                        "interp" => Some(Part::Interp(e_of(&q[1])?)),
                        _ => None,
                    },
                    _ => None,
                })
                .collect::<Option<Vec<_>>>()?,
        ),
        "var" => E::Var(atom(v.get(1)?)?),
        "neg" => E::Neg(b(1)?),
        "not" => E::Not(b(1)?),
        "fact" => E::Fact(b(1)?),
        "bin" => E::Bin(Bop::parse(&atom(v.get(1)?)?)?, b(2)?, b(3)?),
        "if" => E::If(b(1)?, b(2)?, b(3)?),
        "call" => E::Call(atom(v.get(1)?)?, es(2)?),
        "pipe" => E::Pipe(b(1)?, atom(v.get(2)?)?, es(3)?),
        "calle" => E::CallE(b(1)?, es(2)?),
        "mk" => E::Mk(
            atom(v.get(1)?)?,
            v[2..]
                .iter()
                .map(|f| match f {
                    Sx::L(q) if q.len() == 2 => Some((atom(&q[0])?, e_of(&q[1])?)),
                    _ => None,
                })
                .collect::<Option<Vec<_>>>()?,
        ),
        "fld" => E::Field(b(1)?, atom(v.get(2)?)?),
        "list" => E::List(es(1)?),
        _ => return None,
    })
}

fn s_of(x: &Sx) -> Option<S> {
    let v = match x {
        Sx::L(v) => v,
        _ => return None,
    };
    let head = atom(v.first()?)?;
    Some(match head.as_str() {
        "preamble" => S::Preamble,
        "expr" => S::Expr(e_of(v.get(1)?)?),
        "let" => {
            let names = match v.get(1)? {
                Sx::L(ns) => ns.iter().map(atom).collect::<Option<Vec<_>>>()?,
                _ => return None,
            };
            S::Let(names.first()?.clone(), names[1..].to_vec(), e_of(v.get(2)?)?)
        }
        "fn" => {
            let params = match v.get(2)? {
                Sx::L(ps) => ps
                    .iter()
                    .map(|p| match p {
                        Sx::L(q) if q.len() == 2 => Some((atom(&q[0])?, ty_of(&q[1])?)),
                        _ => None,
                    })
                    .collect::<Option<Vec<_>>>()?,
                _ => return None,
            };
            let wheres = match v.get(4)? {
                Sx::L(ws) => ws
                    .iter()
                    .map(|p| match p {
                        Sx::L(q) if q.len() == 2 => Some((atom(&q[0])?, e_of(&q[1])?)),
                        _ => None,
                    })
                    .collect::<Option<Vec<_>>>()?,
                _ => return None,
            };
            S::Fn(FnDef { name: atom(v.get(1)?)?, params, ret: ty_of(v.get(3)?)?, wheres, body: e_of(v.get(5)?)? })
        }
        "struct" => S::Struct(
            atom(v.get(1)?)?,
            v[2..]
                .iter()
                .map(|f| match f {
                    Sx::L(q) if q.len() == 2 => Some((atom(&q[0])?, ty_of(&q[1])?)),
                    _ => None,
                })
                .collect::<Option<Vec<_>>>()?,
        ),
        "print" => S::Print(e_of(v.get(1)?)?),
        "assert" => S::Assert(e_of(v.get(1)?)?),
        _ => return None,
    })
}

fn program_of(text: &str) -> Option<Vec<Input>> {
    sx_parse(text)
        .iter()
        .map(|i| match i {
            Sx::L(v) if atom(v.first()?)? == "input" => v[1..].iter().map(s_of).collect::<Option<Vec<_>>>(),
            _ => None,
        })
        .collect()
}

// ------------------------------------------------------------------ reference evaluator (the oracle)
//
// Evaluates the generated source tree directly: static scoping (a function body sees the globals and
// functions that exist where it is defined, plus itself), innermost binding wins, arguments / list
// elements / string parts left to right, struct fields in source order, first error wins, `&&`/`||`
// evaluate both operands (numbat documents no short-circuit). A function value *is* the function it
// named when the name was evaluated.

#[derive(Clone, Debug, PartialEq)]
enum V {
    Num(f64),
    Bool(bool),
    Str(String),
    /// name, field names in definition order, values in definition order
    Struct(String, Vec<String>, Vec<V>),
    List(Vec<V>),
    /// index into the function table
    Fun(usize),
    Builtin(String),
}

#[derive(Clone, Debug, PartialEq)]
enum OErr {
    Kind(&'static str),
    /// the program is not well-typed/scoped (a generator defect, never an implementation failure)
    Stuck(String),
    Budget,
}

struct OFn {
    def: FnDef,
    /// globals visible in the body
    nglobals: usize,
    index: usize,
}

#[derive(Clone)]
struct OState {
    globals: Vec<(Vec<String>, V)>,
    /// every function defined so far (in a running input: including the ones defined further down,
    /// of which only the first `nfuns` are visible)
    funs: Vec<Rc<OFn>>,
    nfuns: usize,
    structs: BTreeMap<String, Vec<String>>,
    last: Option<V>,
    builtins: bool,
}

#[derive(Clone, Copy, PartialEq)]
struct Mode {
    /// call of a function value looks the *name* up among all functions compiled so far
    late_fn_values: bool,
    /// struct fields in reversed definition order instead of source order
    struct_rev_def: bool,
}

const STATIC: Mode = Mode { late_fn_values: false, struct_rev_def: false };

struct Scope<'a> {
    locals: Vec<(String, V)>,
    nglobals: usize,
    nfuns: usize,
    st: &'a OState,
}

struct Oracle {
    mode: Mode,
    steps: usize,
    depth: usize,
    /// a number that is not an integer below 2^53 was turned into text (outside the model's fragment)
    nonint_display: bool,
    out: Vec<String>,
}

fn fmt_int(x: f64, flag: &mut bool) -> String {
    if x.fract() == 0.0 && x.abs() < 9007199254740992.0 {
        let i = x as i64;
        let digits = i.unsigned_abs().to_string();
        let body = if x.abs() >= 100000.0 {
            let mut o = String::new();
            for (k, c) in digits.chars().enumerate() {
                if k > 0 && (digits.len() - k) % 3 == 0 {
                    o.push('_');
                }
                o.push(c);
            }
            o
        } else {
            digits
        };
        if i < 0 { format!("-{}", body) } else { body }
    } else {
        *flag = true;
        format!("{}", x)
    }
}

impl Oracle {
    fn new(mode: Mode) -> Oracle {
        Oracle { mode, steps: 0, depth: 0, nonint_display: false, out: Vec::new() }
    }

    /// text of a value; `top`: a string stands for itself; `esc`: nested strings are escaped as
    /// `print` does (quote, backslash and braces), not as string interpolation does
    fn display(&mut self, v: &V, st: &OState, top: bool, esc: bool) -> String {
        match v {
            V::Num(x) => fmt_int(*x, &mut self.nonint_display),
            V::Bool(b) => b.to_string(),
            V::Str(s) => {
                if top {
                    s.clone()
                } else if esc {
                    let mut o = String::from("\"");
                    for c in s.chars() {
                        match c {
                            '"' => o.push_str("\\\""),
                            '{' | '}' | '\\' => {
                                o.push(c);
                                o.push(c);
                            }
                            '\n' => o.push_str("\\n"),
                            c => o.push(c),
                        }
                    }
                    o.push('"');
                    o
                } else {
                    format!("\"{}\"", s)
                }
            }
            V::Struct(n, fs, vs) => {
                if vs.is_empty() {
                    format!("{} {{}}", n)
                } else {
                    let parts: Vec<String> =
                        fs.iter().zip(vs).map(|(f, v)| format!("{}: {}", f, self.display(v, st, false, esc))).collect();
                    format!("{} {{ {} }}", n, parts.join(", "))
                }
            }
            V::List(xs) => {
                let parts: Vec<String> = xs.iter().map(|v| self.display(v, st, false, esc)).collect();
                format!("[{}]", parts.join(", "))
            }
            V::Fun(i) => format!("<function: {}>", st.funs[*i].def.name),
            V::Builtin(n) => format!("<builtin function: {}>", n),
        }
    }

    fn tick(&mut self) -> Result<(), OErr> {
        self.steps += 1;
        if self.steps > 200_000 {
            Err(OErr::Budget)
        } else {
            Ok(())
        }
    }

    fn lookup(&self, sc: &Scope, x: &str) -> Option<V> {
        if let Some((_, v)) = sc.locals.iter().rev().find(|(n, _)| n == x) {
            return Some(v.clone());
        }
        if let Some((_, v)) = sc.st.globals[..sc.nglobals.min(sc.st.globals.len())].iter().rev().find(|(ns, _)| ns.iter().any(|n| n == x)) {
            return Some(v.clone());
        }
        if x == "ans" || x == "_" {
            return sc.st.last.clone();
        }
        if let Some(f) = sc.st.funs[..sc.nfuns].iter().rev().find(|f| f.def.name == x) {
            return Some(V::Fun(f.index));
        }
        if sc.st.builtins && BUILTINS.contains(&x) {
            return Some(V::Builtin(x.to_string()));
        }
        None
    }

    fn eval_args(&mut self, sc: &Scope, args: &[E]) -> Result<Vec<V>, OErr> {
        let mut vs = Vec::with_capacity(args.len());
        for a in args {
            vs.push(self.eval(sc, a)?);
        }
        Ok(vs)
    }

    fn builtin(&mut self, name: &str, args: Vec<V>) -> Result<V, OErr> {
        match (name, args.as_slice()) {
            ("len", [V::List(xs)]) => Ok(V::Num(xs.len() as f64)),
            ("head", [V::List(xs)]) => xs.first().cloned().ok_or(OErr::Kind("EmptyList")),
            ("tail", [V::List(xs)]) => {
                if xs.is_empty() {
                    Err(OErr::Kind("EmptyList"))
                } else {
                    Ok(V::List(xs[1..].to_vec()))
                }
            }
            ("cons", [x, V::List(xs)]) => {
                let mut v = vec![x.clone()];
                v.extend(xs.iter().cloned());
                Ok(V::List(v))
            }
            ("cons_end", [x, V::List(xs)]) => {
                let mut v = xs.clone();
                v.push(x.clone());
                Ok(V::List(v))
            }
            ("str_length", [V::Str(s)]) => Ok(V::Num(s.len() as f64)),
            _ => Err(OErr::Stuck(format!("builtin {} applied to wrong arguments", name))),
        }
    }

    /// call of the function with table index `idx`; `by_value` = reached through a function value
    fn apply(&mut self, st: &OState, idx: usize, by_value: bool, args: Vec<V>) -> Result<V, OErr> {
        let idx = if by_value && self.mode.late_fn_values {
            let name = &st.funs[idx].def.name;
            st.funs.iter().rposition(|f| &f.def.name == name).unwrap()
        } else {
            idx
        };
        let f = st.funs[idx].clone();
        if f.nglobals > st.globals.len() {
            // only under the late-binding reading: a function compiled further down, whose globals do
            // not exist yet
            return Err(OErr::Stuck(format!("{} called before its globals exist", f.def.name)));
        }
        if f.def.params.len() != args.len() {
            return Err(OErr::Stuck(format!("arity of {}", f.def.name)));
        }
        self.depth += 1;
        if self.depth > 150 {
            return Err(OErr::Budget);
        }
        let mut sc = Scope {
            locals: f.def.params.iter().map(|(p, _)| p.clone()).zip(args).collect(),
            nglobals: f.nglobals,
            nfuns: f.index + 1,
            st,
        };
        for (n, e) in &f.def.wheres {
            let v = self.eval(&sc, e)?;
            sc.locals.push((n.clone(), v));
        }
        let r = self.eval(&sc, &f.def.body);
        self.depth -= 1;
        r
    }

    fn call_value(&mut self, st: &OState, callee: V, args: Vec<V>, by_value: bool) -> Result<V, OErr> {
        match callee {
            V::Fun(i) => self.apply(st, i, by_value, args),
            V::Builtin(n) => self.builtin(&n, args),
            _ => Err(OErr::Stuck("call of a non-function".into())),
        }
    }

    fn eval(&mut self, sc: &Scope, e: &E) -> Result<V, OErr> {
        self.tick()?;
        match e {
            E::Num(x) => Ok(V::Num(*x)),
            E::Bool(b) => Ok(V::Bool(*b)),
            E::Str(parts) => {
                let mut o = String::new();
                for p in parts {
                    match p {
                        Part::Fixed(s) => o.push_str(s),
                        Part::Interp(e) => {
                            let v = self.eval(sc, e)?;
                            let t = self.display(&v, sc.st, true, false);
                            o.push_str(&t);
                        }
                    }
                }
                Ok(V::Str(o))
            }
            E::Var(x) => self.lookup(sc, x).ok_or_else(|| OErr::Stuck(format!("unknown identifier {}", x))),
            E::Neg(a) => match self.eval(sc, a)? {
                V::Num(x) => Ok(V::Num(-x)),
                _ => Err(OErr::Stuck("neg".into())),
            },
            E::Not(a) => match self.eval(sc, a)? {
                V::Bool(b) => Ok(V::Bool(!b)),
                _ => Err(OErr::Stuck("not".into())),
            },
            E::Fact(a) => match self.eval(sc, a)? {
                V::Num(x) => {
                    if x < 0.0 {
                        Err(OErr::Kind("FactorialOfNegativeNumber"))
                    } else if x.fract() != 0.0 {
                        Err(OErr::Kind("FactorialOfNonInteger"))
                    } else {
                        let mut r = 1f64;
                        let mut k = x;
                        while k >= 1.0 && r.is_finite() {
                            r *= k;
                            k -= 1.0;
                        }
                        Ok(V::Num(r))
                    }
                }
                _ => Err(OErr::Stuck("factorial".into())),
            },
            E::Bin(op, a, b) => {
                let x = self.eval(sc, a)?;
                let y = self.eval(sc, b)?;
                match (op, &x, &y) {
                    (Bop::Add, V::Num(p), V::Num(q)) => Ok(V::Num(p + q)),
                    (Bop::Sub, V::Num(p), V::Num(q)) => Ok(V::Num(p - q)),
                    (Bop::Mul, V::Num(p), V::Num(q)) => Ok(V::Num(p * q)),
                    (Bop::Div, V::Num(p), V::Num(q)) => {
                        if *q == 0.0 {
                            Err(OErr::Kind("DivisionByZero"))
                        } else {
                            Ok(V::Num(p / q))
                        }
                    }
                    (Bop::Lt, V::Num(p), V::Num(q)) => Ok(V::Bool(p < q)),
                    (Bop::Gt, V::Num(p), V::Num(q)) => Ok(V::Bool(p > q)),
                    (Bop::Le, V::Num(p), V::Num(q)) => Ok(V::Bool(p <= q)),
                    (Bop::Ge, V::Num(p), V::Num(q)) => Ok(V::Bool(p >= q)),
                    (Bop::Eq, _, _) => Ok(V::Bool(x == y)),
                    (Bop::Ne, _, _) => Ok(V::Bool(x != y)),
                    (Bop::And, V::Bool(p), V::Bool(q)) => Ok(V::Bool(*p && *q)),
                    (Bop::Or, V::Bool(p), V::Bool(q)) => Ok(V::Bool(*p || *q)),
                    _ => Err(OErr::Stuck(format!("operands of {}", op.text()))),
                }
            }
            E::If(c, t, f) => match self.eval(sc, c)? {
                V::Bool(true) => self.eval(sc, t),
                V::Bool(false) => self.eval(sc, f),
                _ => Err(OErr::Stuck("condition".into())),
            },
            E::Call(f, args) => {
                let vs = self.eval_args(sc, args)?;
                self.call_named(sc, f, vs)
            }
            E::Pipe(x, f, args) => {
                // `x |> f(a)` is `f(a, x)`
                let mut vs = self.eval_args(sc, args)?;
                let xv = self.eval(sc, x)?;
                vs.push(xv);
                self.call_named(sc, f, vs)
            }
            E::CallE(c, args) => {
                let vs = self.eval_args(sc, args)?;
                // `(f)(x)` with a plain name in the parentheses is the same as `f(x)`
                if let E::Var(name) = &**c {
                    return self.call_named(sc, name, vs);
                }
                let cv = self.eval(sc, c)?;
                self.call_value(sc.st, cv, vs, true)
            }
            E::Mk(name, fields) => {
                let def = sc.st.structs.get(name).ok_or_else(|| OErr::Stuck(format!("unknown struct {}", name)))?.clone();
                let mut order: Vec<usize> = (0..fields.len()).collect();
                if self.mode.struct_rev_def {
                    order.sort_by_key(|k| std::cmp::Reverse(def.iter().position(|d| d == &fields[*k].0)));
                }
                let mut got: Vec<Option<V>> = vec![None; def.len()];
                for k in order {
                    let (fname, fe) = &fields[k];
                    let v = self.eval(sc, fe)?;
                    let pos = def.iter().position(|d| d == fname).ok_or_else(|| OErr::Stuck("unknown field".into()))?;
                    got[pos] = Some(v);
                }
                let vals = got.into_iter().collect::<Option<Vec<V>>>().ok_or_else(|| OErr::Stuck("missing field".into()))?;
                Ok(V::Struct(name.clone(), def, vals))
            }
            E::Field(a, f) => match self.eval(sc, a)? {
                V::Struct(_, fs, vs) => {
                    let pos = fs.iter().position(|d| d == f).ok_or_else(|| OErr::Stuck("no such field".into()))?;
                    Ok(vs[pos].clone())
                }
                _ => Err(OErr::Stuck("field of non-struct".into())),
            },
            E::List(es) => Ok(V::List(self.eval_args(sc, es)?)),
        }
    }

    /// `f(args)` where `f` is a name: a variable holding a function, else the function of that name
    fn call_named(&mut self, sc: &Scope, f: &str, vs: Vec<V>) -> Result<V, OErr> {
        let is_variable = sc.locals.iter().any(|(n, _)| n == f)
            || sc.st.globals[..sc.nglobals.min(sc.st.globals.len())].iter().any(|(ns, _)| ns.iter().any(|n| n == f));
        match self.lookup(sc, f) {
            Some(v) => self.call_value(sc.st, v, vs, is_variable),
            None => Err(OErr::Stuck(format!("unknown function {}", f))),
        }
    }
}

#[derive(Clone, Debug, PartialEq)]
enum Expect {
    Value(V),
    Continue,
    Error(&'static str),
}

struct ORun {
    result: Result<Expect, OErr>,
    out: Vec<String>,
    nonint_display: bool,
}

/// runs one input on the oracle; `st` is advanced only if the input succeeds
fn oracle_input(st: &mut OState, input: &Input, mode: Mode) -> ORun {
    let mut work = st.clone();
    // all functions of the input exist (are compiled) before the input runs; statically they become
    // visible one after the other
    {
        let mut ng = work.globals.len();
        for s in input {
            match s {
                S::Let(..) => ng += 1,
                S::Fn(d) => {
                    let index = work.funs.len();
                    work.funs.push(Rc::new(OFn { def: d.clone(), nglobals: ng, index }));
                }
                _ => {}
            }
        }
    }
    let mut o = Oracle::new(mode);
    let mut result: Option<V> = None;
    let mut err: Option<OErr> = None;
    for s in input {
        let r: Result<(), OErr> = (|| {
            let snapshot = work.clone();
            let sc = Scope { locals: vec![], nglobals: snapshot.globals.len(), nfuns: snapshot.nfuns, st: &snapshot };
            match s {
                S::Preamble => {
                    work.builtins = true;
                }
                S::Expr(e) => {
                    let v = o.eval(&sc, e)?;
                    work.last = Some(v.clone());
                    result = Some(v);
                }
                S::Let(n, aliases, e) => {
                    let v = o.eval(&sc, e)?;
                    let mut names = vec![n.clone()];
                    names.extend(aliases.iter().cloned());
                    work.globals.push((names, v));
                }
                S::Fn(_) => {
                    work.nfuns += 1;
                }
                S::Struct(n, fs) => {
                    work.structs.insert(n.clone(), fs.iter().map(|(f, _)| f.clone()).collect());
                }
                S::Print(e) => {
                    let v = o.eval(&sc, e)?;
                    let t = o.display(&v, &snapshot, true, true);
                    o.out.push(t);
                }
                S::Assert(e) => match o.eval(&sc, e)? {
                    V::Bool(true) => {}
                    V::Bool(false) => return Err(OErr::Kind("AssertFailed")),
                    _ => return Err(OErr::Stuck("assert".into())),
                },
            }
            Ok(())
        })();
        if let Err(e) = r {
            err = Some(e);
            break;
        }
    }
    let result = match err {
        Some(OErr::Kind(k)) => Ok(Expect::Error(k)),
        Some(e) => Err(e),
        None => {
            *st = work;
            Ok(match result {
                Some(v) => Expect::Value(v),
                None => Expect::Continue,
            })
        }
    };
    ORun { result, out: o.out, nonint_display: o.nonint_display }
}

fn v_canon(v: &V, st: &OState) -> String {
    match v {
        V::Num(x) => format!("(n {})", fbits(*x)),
        V::Bool(b) => format!("(b {})", *b as u8),
        V::Str(s) => format!("(s {})", hexs(s)),
        V::Struct(n, fs, vs) => {
            let mut o = format!("(S {} ({})", n, fs.join(" "));
            for v in vs {
                o.push(' ');
                o.push_str(&v_canon(v, st));
            }
            o.push(')');
            o
        }
        V::List(xs) => {
            let mut o = String::from("(L");
            for v in xs {
                o.push(' ');
                o.push_str(&v_canon(v, st));
            }
            o.push(')');
            o
        }
        V::Fun(i) => format!("(f N {})", st.funs[*i].def.name),
        V::Builtin(n) => format!("(f F {})", n),
    }
}

// ------------------------------------------------------------------ running a case on the implementation

#[derive(Clone, Debug, PartialEq)]
enum ImplOutcome {
    Value(String),
    Continue,
    Error(String),
    Panic(String),
}

struct InputRecord {
    dump: String,
    behaviour: String,
    structure: String,
}

#[derive(Default)]
struct CaseRun {
    /// inputs that were accepted by the front end and by the oracle's fragment check, in order
    accepted: Vec<Input>,
    records: Vec<InputRecord>,
    procs: Vec<String>,
    /// (key, description) of oracle failures
    failures: Vec<(String, String)>,
    /// outcome classes and drop reasons, for the histogram
    notes: Vec<String>,
    /// an input that ended in a run-time error (rolled back)
    had_error: bool,
    /// the implementation showed a number the model's formatter does not cover (possible after a known finding
    /// made the implementation compute something else than the oracle): no line for the model
    outside_model: bool,
}

fn structural(ctx: &Context) -> String {
    let p = ctx.verif_c09_bytecode();
    let vm = &p.vm;
    let br = |xs: Vec<String>| format!("[{}]", xs.join(","));
    let hexcode = |c: &Vec<u8>| c.iter().map(|b| format!("{:02x}", b)).collect::<String>();
    let mut o = String::new();
    o.push_str(&format!("chunks={}", br(vm.chunks.iter().map(|(n, c)| format!("{}:{}", n, hexcode(c))).collect())));
    o.push_str(&format!(" consts={}", br(vm.constants.iter().map(hook::constant_canon).collect())));
    o.push_str(&format!(
        " structs={}",
        br(vm.struct_infos.iter().map(|(_, n, fs)| format!("{}({})", n, fs.join(" "))).collect())
    ));
    o.push_str(&format!(" ffi={}", br(vm.ffi_callables.clone())));
    o.push_str(&format!(" ncall={}", vm.n_ffi_call_args));
    if p.locals.len() == 1 {
        o.push_str(&format!(" locals={}", br(p.locals[0].iter().map(|l| l.join("/")).collect())));
    } else {
        o.push_str(&format!(" locals-scopes={}", p.locals.len()));
    }
    o.push_str(&format!(
        " fns={}",
        br(p.functions.iter().map(|(n, f)| format!("{}:{}", n, *f as u8)).collect())
    ));
    if vm.frames.len() == 1 && vm.frames[0].0 == 0 && vm.frames[0].2 == 0 && vm.current_chunk_index == 0 {
        o.push_str(&format!(" ip={}", vm.frames[0].1));
    } else {
        o.push_str(&format!(" frames={:?}/cur={}", vm.frames, vm.current_chunk_index));
    }
    o.push_str(&format!(" stack={}", br(vm.stack.iter().map(hook::value_canon).collect())));
    o.push_str(&format!(
        " last={}",
        match &vm.last_result {
            Some(v) => hook::value_canon(v),
            None => "-".into(),
        }
    ));
    if vm.n_prefixes + vm.n_strings + vm.n_unit_information > 0 {
        o.push_str(" outside-fragment-tables");
    }
    o
}

/// does a function of the input use its own name as a value (not as the head of a direct call)?
fn self_value_reference(input: &Input) -> bool {
    fn uses(e: &E, name: &str) -> bool {
        match e {
            E::Var(n) => n == name,
            E::Num(_) | E::Bool(_) => false,
            E::Str(ps) => ps.iter().any(|p| matches!(p, Part::Interp(e) if uses(e, name))),
            E::Neg(a) | E::Not(a) | E::Fact(a) => uses(a, name),
            E::Bin(_, a, b) => uses(a, name) || uses(b, name),
            E::If(a, b, c) => uses(a, name) || uses(b, name) || uses(c, name),
            E::Call(_, args) => args.iter().any(|a| uses(a, name)),
            E::Pipe(x, _, args) => uses(x, name) || args.iter().any(|a| uses(a, name)),
            E::CallE(c, args) => uses(c, name) || args.iter().any(|a| uses(a, name)),
            E::Mk(_, fs) => fs.iter().any(|(_, e)| uses(e, name)),
            E::Field(a, _) => uses(a, name),
            E::List(es) => es.iter().any(|a| uses(a, name)),
        }
    }
    input.iter().any(|s| match s {
        S::Fn(d) => {
            let shadowed = d.params.iter().any(|(p, _)| p == &d.name) || d.wheres.iter().any(|(w, _)| w == &d.name);
            !shadowed && (uses(&d.body, &d.name) || d.wheres.iter().any(|(_, e)| uses(e, &d.name)))
        }
        _ => false,
    })
}

/// does the input contain a field access inside a string interpolation?
fn field_access_in_interpolation(input: &Input) -> bool {
    fn has_field(e: &E) -> bool {
        match e {
            E::Field(..) => true,
            E::Num(_) | E::Bool(_) | E::Var(_) => false,
            E::Str(ps) => ps.iter().any(|p| matches!(p, Part::Interp(e) if has_field(e))),
            E::Neg(a) | E::Not(a) | E::Fact(a) => has_field(a),
            E::Bin(_, a, b) => has_field(a) || has_field(b),
            E::If(a, b, c) => has_field(a) || has_field(b) || has_field(c),
            E::Call(_, args) => args.iter().any(has_field),
            E::Pipe(x, _, args) => has_field(x) || args.iter().any(has_field),
            E::CallE(c, args) => has_field(c) || args.iter().any(has_field),
            E::Mk(_, fs) => fs.iter().any(|(_, e)| has_field(e)),
            E::List(es) => es.iter().any(has_field),
        }
    }
    fn walk(e: &E) -> bool {
        match e {
            E::Str(ps) => ps.iter().any(|p| matches!(p, Part::Interp(e) if has_field(e) || walk(e))),
            E::Num(_) | E::Bool(_) | E::Var(_) => false,
            E::Neg(a) | E::Not(a) | E::Fact(a) | E::Field(a, _) => walk(a),
            E::Bin(_, a, b) => walk(a) || walk(b),
            E::If(a, b, c) => walk(a) || walk(b) || walk(c),
            E::Call(_, args) => args.iter().any(walk),
            E::Pipe(x, _, args) => walk(x) || args.iter().any(walk),
            E::CallE(c, args) => walk(c) || args.iter().any(walk),
            E::Mk(_, fs) => fs.iter().any(|(_, e)| walk(e)),
            E::List(es) => es.iter().any(walk),
        }
    }
    input.iter().any(|s| match s {
        S::Expr(e) | S::Let(_, _, e) | S::Print(e) | S::Assert(e) => walk(e),
        S::Fn(d) => walk(&d.body) || d.wheres.iter().any(|(_, e)| walk(e)),
        _ => false,
    })
}

fn expect_text(r: &Result<Expect, OErr>, st: &OState) -> String {
    match r {
        Ok(Expect::Value(v)) => format!("value {}", v_canon(v, st)),
        Ok(Expect::Continue) => "continue".into(),
        Ok(Expect::Error(k)) => format!("error {}", k),
        Err(e) => format!("oracle-{:?}", e),
    }
}

fn outcome_text(o: &ImplOutcome) -> String {
    match o {
        ImplOutcome::Value(c) => format!("value {}", c),
        ImplOutcome::Continue => "continue".into(),
        ImplOutcome::Error(k) => format!("error {}", k),
        ImplOutcome::Panic(_) => "panic".into(),
    }
}

fn out_text(out: &[String]) -> String {
    format!("out=[{}]", out.iter().map(|s| hexs(s)).collect::<Vec<_>>().join(","))
}

#[derive(Clone, Copy, PartialEq, Debug)]
enum Fed {
    /// ran to completion; the session state advanced
    Ok,
    /// ran into a run-time error; the session state was rolled back
    Error,
    /// not run at all (front end rejected it, or outside the oracle's fragment / budget)
    Dropped,
    /// the implementation panicked; the case ends here
    Panicked,
}

struct Runner {
    ctx: Context,
    ost: OState,
    prev_structure: String,
    run: CaseRun,
    /// generated cases: do not hand the implementation an input that is ill-typed under its own (late binding)
    /// reading of function values; corpus and replay lines are run regardless
    drop_undefined: bool,
}

impl Runner {
    fn new() -> Runner {
        let ctx = Context::new(BuiltinModuleImporter::default());
        let mut run = CaseRun::default();
        run.procs = ctx.verif_c09_bytecode().vm.ffi_callables.clone();
        let ost = OState { globals: vec![], funs: vec![], nfuns: 0, structs: BTreeMap::new(), last: None, builtins: false };
        let prev_structure = structural(&ctx);
        Runner { ctx, ost, prev_structure, run, drop_undefined: false }
    }

    fn feed(&mut self, input: &Input) -> Fed {
        if std::env::var("C09_TRACE").is_ok() {
            eprintln!("FEED {}", sx_list(input, sx_s));
        }
        let run = &mut self.run;
        let ctx = &mut self.ctx;
        let src = render_input(input);
        // 1. front end
        let dump = match catch(std::panic::AssertUnwindSafe(|| ctx.verif_c09_typed_dump(&src))) {
            Ok(Ok(d)) => d,
            Ok(Err(e)) => {
                run.notes.push(format!("rejected_{}", e.split(':').next().unwrap_or("?")));
                run.notes.push(format!("REJECT {} :: {}", e.replace('\n', " "), src.replace('\n', " ⏎ ")));
                return Fed::Dropped;
            }
            Err(p) => {
                run.failures.push(("panic-frontend".into(), format!("front end panicked: {} on {}", p, src)));
                return Fed::Panicked;
            }
        };
        // 2. the oracle (static reading)
        let mut trial = self.ost.clone();
        let orun = oracle_input(&mut trial, input, STATIC);
        match &orun.result {
            Err(OErr::Budget) => {
                run.notes.push("dropped_budget".into());
                return Fed::Dropped;
            }
            Err(OErr::Stuck(w)) => {
                run.notes.push("dropped_oracle_stuck".into());
                run.notes.push(format!("STUCK {} :: {}", w, src.replace('\n', " ⏎ ")));
                return Fed::Dropped;
            }
            _ => {}
        }
        if orun.nonint_display {
            run.notes.push("dropped_noninteger_display".into());
            return Fed::Dropped;
        }
        // the alternative reading "function values are looked up by name when called" (what the
        // implementation does): used to classify a failure, and run first so that an input that does
        // not terminate within the budget under that reading is never given to the implementation
        let mut t3 = self.ost.clone();
        let late = oracle_input(&mut t3, input, Mode { late_fn_values: true, struct_rev_def: false });
        if late.result == Err(OErr::Budget) {
            run.notes.push("dropped_budget_late_binding".into());
            return Fed::Dropped;
        }
        if self.drop_undefined && matches!(&late.result, Err(OErr::Stuck(_))) {
            // known finding C09-fnvalue-late-binding in its worst form: under the implementation's reading the call
            // is ill-typed (another arity, operands of another kind, globals that do not exist yet): anything can
            // happen, including a loop; the exact inputs of the finding are in the corpus (replayed with the watchdog)
            run.notes.push("dropped_late_binding_undefined".into());
            return Fed::Dropped;
        }
        // 3. the implementation
        *CURRENT.lock().unwrap() = Some((
            std::time::Instant::now(),
            {
                let mut prog = run.accepted.clone();
                prog.push(input.clone());
                format!("case {}", sx_program(&prog))
            },
            src.clone(),
        ));
        let printed = Arc::new(Mutex::new(Vec::<String>::new()));
        let p2 = printed.clone();
        let mut settings = InterpreterSettings { print_fn: Box::new(move |m| p2.lock().unwrap().push(m.to_string())) };
        let r = catch(std::panic::AssertUnwindSafe(|| {
            match ctx.interpret_with_settings(&mut settings, &src, CodeSource::Text) {
                Ok((_, InterpreterResult::Value(v))) => ImplOutcome::Value(hook::value_canon(&v)),
                Ok((_, InterpreterResult::Continue)) => ImplOutcome::Continue,
                Err(e) => match *e {
                    NumbatError::RuntimeError(re) => ImplOutcome::Error(hook::error_kind_name(&re.kind).to_string()),
                    other => ImplOutcome::Error(format!("NotRuntime:{}", other).replace([' ', '\n'], "_")),
                },
            }
        }));
        let outcome = match r {
            Ok(o) => o,
            Err(p) => ImplOutcome::Panic(p),
        };
        *CURRENT.lock().unwrap() = None;
        let out: Vec<String> = printed.lock().unwrap().clone();
        let panicked = matches!(outcome, ImplOutcome::Panic(_));
        // after a panic the context is not looked at any more: the model keeps the previous state
        let structure = if panicked { self.prev_structure.clone() } else { structural(ctx) };
        self.prev_structure = structure.clone();
        let behaviour =
            canon_nan(&format!("{} {} ref={}", outcome_text(&outcome), out_text(&out), if panicked { "skip" } else { "ok" }));
        let structure = canon_nan(&structure);
        if strings_in(&behaviour).iter().chain(strings_in(&structure).iter()).any(|t| outside_fragment_text(t)) {
            run.outside_model = true;
        }
        run.records.push(InputRecord { dump, behaviour, structure });
        run.accepted.push(input.clone());
        run.notes.push(format!(
            "outcome_{}",
            match &outcome {
                ImplOutcome::Value(_) => "value".to_string(),
                ImplOutcome::Continue => "continue".to_string(),
                ImplOutcome::Error(k) => format!("error_{}", k),
                ImplOutcome::Panic(_) => "panic".to_string(),
            }
        ));
        if matches!(outcome, ImplOutcome::Error(_)) {
            run.had_error = true;
        }
        // 4. the property: implementation == reference evaluation of the source
        // numbers are compared as numbers: -0 and 0 are the same value (numbat's `0 - 0` is `-0`)
        let norm = |t: String| t.replace("(n 8000000000000000)", "(n 0000000000000000)");
        let want = norm(expect_text(&orun.result, &trial));
        let got = norm(outcome_text(&outcome));
        // the values of the globals are part of what the input computed (a `let` shows no value by itself)
        let impl_globals: Vec<String> = if panicked {
            vec![]
        } else {
            ctx.verif_c09_bytecode().vm.stack.iter().map(|v| norm(hook::value_canon(v))).collect()
        };
        let globals_of = |st: &OState| -> Vec<String> { st.globals.iter().map(|(_, v)| norm(v_canon(v, st))).collect() };
        let succeeded = matches!(outcome, ImplOutcome::Value(_) | ImplOutcome::Continue);
        let state_ok = |st: &OState| !succeeded || globals_of(st) == impl_globals;
        let mut agree = want == got && orun.out == out && state_ok(&trial);
        if !agree && want.starts_with("error") && got.starts_with("error") && orun.out == out {
            // the language leaves the evaluation order of struct fields open: another order may meet
            // another error first
            let mut t2 = self.ost.clone();
            let alt = oracle_input(&mut t2, input, Mode { late_fn_values: false, struct_rev_def: true });
            if norm(expect_text(&alt.result, &t2)) == got {
                agree = true;
                run.notes.push("struct_order_tolerated".into());
            }
        }
        if !agree {
            let late_text = norm(expect_text(&late.result, &t3));
            let explained_by_late = (late_text == got && late.out == out && state_ok(&t3))
                // under the late-binding reading the call is ill-typed: whatever the implementation does
                || matches!(late.result, Err(OErr::Stuck(_)));
            let mut what = format!(
                "input `{}`: implementation gives {} {:?}, evaluation of the source gives {} {:?}",
                src.replace('\n', " ⏎ "),
                pretty_outcome(&outcome),
                out,
                pretty_expect(&orun.result, &trial),
                orun.out
            );
            if want == got && orun.out == out {
                what.push_str(&format!(
                    "; the globals differ: implementation {:?}, evaluation of the source {:?}",
                    impl_globals,
                    globals_of(&trial)
                ));
            }
            let key = if panicked
                && self_value_reference(input)
                && matches!(&outcome, ImplOutcome::Panic(p) if p.contains("Unknown identifier"))
            {
                "fn-self-value-panic"
            } else if panicked
                && field_access_in_interpolation(input)
                && matches!(&outcome, ImplOutcome::Panic(p) if p.contains("Field access of non-struct type"))
            {
                "interp-field-access-panic"
            } else if explained_by_late {
                "fnvalue-late-binding"
            } else if panicked {
                "panic"
            } else if want == got && orun.out == out {
                "globals-mismatch"
            } else if orun.out != out {
                "output-mismatch"
            } else if want.starts_with("error") || got.starts_with("error") {
                "error-mismatch"
            } else {
                "value-mismatch"
            };
            run.failures.push((key.to_string(), what));
        }
        if panicked {
            return Fed::Panicked;
        }
        // advance the oracle states as the implementation advanced (a failed input is rolled back)
        if matches!(orun.result, Ok(Expect::Value(_)) | Ok(Expect::Continue)) && !matches!(outcome, ImplOutcome::Error(_)) {
            self.ost = trial;
        }
        if !run.failures.is_empty() {
            // the session states of implementation and oracle may differ from here on: end the case
            return Fed::Panicked;
        }
        if matches!(outcome, ImplOutcome::Error(_)) { Fed::Error } else { Fed::Ok }
    }
}

fn run_case(inputs: &[Input]) -> CaseRun {
    let mut r = Runner::new();
    for i in inputs {
        if r.feed(i) == Fed::Panicked {
            break;
        }
    }
    r.run
}

fn pretty_outcome(o: &ImplOutcome) -> String {
    match o {
        ImplOutcome::Panic(p) => format!("PANIC {}", p),
        o => outcome_text(o),
    }
}

fn pretty_expect(r: &Result<Expect, OErr>, st: &OState) -> String {
    match r {
        Ok(Expect::Value(v)) => {
            let mut o = Oracle::new(STATIC);
            format!("value {}", o.display(v, st, false, true))
        }
        other => expect_text(other, st),
    }
}

/// Lean's `Float.toBits` gives every NaN the bit pattern 7ff8000000000000: NaNs are compared as NaNs
fn canon_nan(s: &str) -> String {
    let mut o = String::with_capacity(s.len());
    let mut rest = s;
    while let Some(k) = rest.find("(n ") {
        o.push_str(&rest[..k + 3]);
        let tail = &rest[k + 3..];
        if tail.len() >= 16 && tail.as_bytes()[..16].iter().all(|b| b.is_ascii_hexdigit()) {
            let bits = u64::from_str_radix(&tail[..16], 16).unwrap_or(0);
            if f64::from_bits(bits).is_nan() {
                o.push_str("7ff8000000000000");
            } else {
                o.push_str(&tail[..16]);
            }
            rest = &tail[16..];
        } else {
            rest = tail;
        }
    }
    o.push_str(rest);
    o
}

/// text that shows a number the model's formatter does not cover (not an integer below 2^53): the generator never
/// writes `.`, `inf`, `NaN` or an exponent into a string itself
fn outside_fragment_text(t: &str) -> bool {
    t.contains('.') || t.contains("inf") || t.contains("NaN") || t.contains("e+") || t.contains("e-")
}

/// all strings inside a canonical text (`(s x<hex>)` tokens and `out=[x<hex>,…]`)
fn strings_in(canon: &str) -> Vec<String> {
    let mut v = Vec::new();
    let bytes = canon.as_bytes();
    let mut i = 0;
    while i < bytes.len() {
        if bytes[i] == b'x' && (i == 0 || matches!(bytes[i - 1], b' ' | b'[' | b',')) {
            let mut j = i + 1;
            while j < bytes.len() && bytes[j].is_ascii_hexdigit() {
                j += 1;
            }
            if let Some(t) = unhex(&canon[i..j]) {
                v.push(t);
            }
            i = j;
        } else {
            i += 1;
        }
    }
    v
}

fn request_line(run: &CaseRun) -> (String, String) {
    let req = format!(
        "run procs={} {}",
        run.procs.join(","),
        run.records.iter().map(|r| r.dump.clone()).collect::<Vec<_>>().join(" ;; ")
    );
    let ans = format!(
        "{} || {}",
        run.records.iter().map(|r| r.behaviour.clone()).collect::<Vec<_>>().join(" ;; "),
        run.records.iter().map(|r| r.structure.clone()).collect::<Vec<_>>().join(" ;; ")
    );
    (req, ans)
}

// ------------------------------------------------------------------ generator of well-typed programs

const VARS: &[&str] = &["a", "b", "c", "x", "y", "n", "s", "t"];
const FNS: &[&str] = &["f", "g", "h", "k", "q", "r"];
const STRUCTS: &[&str] = &["P", "Q", "R"];
const FIELDS: &[&str] = &["u", "v", "w", "x", "y"];

#[derive(Clone, Debug)]
struct FnSig {
    name: String,
    params: Vec<Ty>,
    ret: Ty,
    /// recursion on the first (numeric) parameter: direct callers pass a small literal
    rec_small: bool,
}

#[derive(Clone, Debug, Default)]
struct GenEnv {
    globals: Vec<(Vec<String>, Ty)>,
    funs: Vec<FnSig>,
    structs: Vec<(String, Vec<(String, Ty)>)>,
    last_ty: Option<Ty>,
    preamble: bool,
}

struct Gen<'a> {
    rng: &'a mut Rng,
    env: GenEnv,
    /// bindings of the function being generated (parameters, then where-variables), innermost last
    locals: Vec<(String, Ty)>,
    in_fn: bool,
    /// the function being defined (visible for recursion in the body proper)
    self_sig: Option<FnSig>,
    allow_self: bool,
    in_interp: bool,
}

impl<'a> Gen<'a> {
    fn pick_str<'b>(&mut self, xs: &'b [&'b str]) -> String {
        xs[self.rng.below(xs.len())].to_string()
    }

    /// type of the innermost binding of `name`, if it is a variable
    fn var_ty(&self, name: &str) -> Option<Ty> {
        if let Some((_, t)) = self.locals.iter().rev().find(|(n, _)| n == name) {
            return Some(t.clone());
        }
        self.env.globals.iter().rev().find(|(ns, _)| ns.iter().any(|n| n == name)).map(|(_, t)| t.clone())
    }

    fn vars_of(&self, ty: &Ty) -> Vec<String> {
        let mut names: Vec<String> = self.locals.iter().map(|(n, _)| n.clone()).collect();
        for (ns, _) in &self.env.globals {
            names.extend(ns.iter().cloned());
        }
        names.sort();
        names.dedup();
        names.into_iter().filter(|n| self.var_ty(n).as_ref() == Some(ty)).collect()
    }

    /// functions callable by name here (latest definition of each name, not shadowed by a variable)
    fn visible_funs(&self) -> Vec<FnSig> {
        let mut out: Vec<FnSig> = Vec::new();
        // inside the body of `fn f`, the name `f` means the function being defined (also when an older
        // `f` exists): it is offered only where a bounded recursive call is wanted
        let own: Option<String> = self.self_sig.as_ref().map(|s| s.name.clone());
        let mut all: Vec<&FnSig> = self.env.funs.iter().filter(|f| Some(&f.name) != own.as_ref()).collect();
        if let Some(s) = &self.self_sig {
            if self.allow_self {
                all.push(s);
            }
        }
        for f in all.iter().rev() {
            if out.iter().any(|g| g.name == f.name) {
                continue;
            }
            out.push((*f).clone());
        }
        out.into_iter().filter(|f| self.var_ty(&f.name).is_none()).collect()
    }

    fn is_self(&self, f: &FnSig) -> bool {
        self.allow_self && self.self_sig.as_ref().map(|s| s.name == f.name).unwrap_or(false)
    }

    fn simple_ty(&mut self, depth: u32) -> Ty {
        let r = self.rng.below(100);
        match r {
            0..=44 => Ty::Num,
            45..=59 => Ty::Bool,
            60..=72 => Ty::Str,
            73..=82 if !self.env.structs.is_empty() => {
                let k = self.rng.below(self.env.structs.len());
                Ty::Struct(self.env.structs[k].0.clone())
            }
            83..=92 if depth > 0 => Ty::List(Box::new(self.simple_ty(0))),
            93..=99 if depth > 0 => {
                // a function type for which a function exists
                if self.env.preamble && self.rng.chance(1, 3) {
                    // ... or an instance of the signature of a foreign function of the preamble
                    let el = match self.rng.below(3) { 0 => Ty::Num, 1 => Ty::Str, _ => Ty::Bool };
                    let l = Ty::List(Box::new(el.clone()));
                    return match self.rng.below(5) {
                        0 | 1 | 2 => Ty::Fun(vec![el, l.clone()], Box::new(l)),
                        3 => Ty::Fun(vec![l.clone()], Box::new(l)),
                        _ => Ty::Fun(vec![l], Box::new(Ty::Num)),
                    };
                }
                let fs: Vec<FnSig> = self.env.funs.iter().filter(|f| !f.params.iter().any(|p| p.has_fun()) && !f.ret.has_fun()).cloned().collect();
                if fs.is_empty() {
                    Ty::Num
                } else {
                    let f = &fs[self.rng.below(fs.len())];
                    Ty::Fun(f.params.clone(), Box::new(f.ret.clone()))
                }
            }
            _ => Ty::Num,
        }
    }

    /// a type whose expressions can be written here (no struct literal inside an interpolation)
    fn usable_ty(&mut self, depth: u32) -> Ty {
        loop {
            let t = self.simple_ty(depth);
            if !self.in_interp || !t.has_struct() || !self.vars_of(&t).is_empty() {
                return t;
            }
        }
    }

    fn small_num(&mut self) -> E {
        E::Num(self.rng.below(7) as f64)
    }

    fn leaf(&mut self, ty: &Ty) -> E {
        let vars = self.vars_of(ty);
        if !vars.is_empty() && self.rng.chance(3, 5) {
            return E::Var(vars[self.rng.below(vars.len())].clone());
        }
        if !self.in_fn && self.env.last_ty.as_ref() == Some(ty) && self.rng.chance(1, 6) {
            return E::Var(if self.rng.chance(1, 2) { "ans".into() } else { "_".into() });
        }
        match ty {
            Ty::Num => {
                let r = self.rng.below(40);
                match r {
                    0 => E::Num(100000.0),
                    1 => E::Num(2.5),
                    2 => E::Num(1234567.0),
                    _ => E::Num(self.rng.below(10) as f64),
                }
            }
            Ty::Bool => E::Bool(self.rng.chance(1, 2)),
            Ty::Str => {
                let n = self.rng.below(3);
                let mut s = String::new();
                for _ in 0..n {
                    s.push(*self.rng.pick(&['a', 'b', 'z', ' ', '0', '-']));
                }
                E::Str(if s.is_empty() { vec![] } else { vec![Part::Fixed(s)] })
            }
            Ty::Struct(n) => {
                if self.in_interp {
                    // no braces inside an interpolation: fall back to a variable if there is one
                    if let Some(v) = vars.first() {
                        return E::Var(v.clone());
                    }
                }
                let def = self.env.structs.iter().rev().find(|(m, _)| m == n).cloned();
                match def {
                    Some((_, fields)) => {
                        let mut fs: Vec<(String, E)> = fields.iter().map(|(f, t)| (f.clone(), self.leaf(t))).collect();
                        self.rng.shuffle(&mut fs);
                        E::Mk(n.clone(), fs)
                    }
                    None => E::Var("missing_struct".into()),
                }
            }
            Ty::List(t) => {
                let n = if self.rng.chance(1, 30) { 0 } else { 1 + self.rng.below(2) };
                E::List((0..n).map(|_| self.leaf(t)).collect())
            }
            Ty::Fun(ps, r) => {
                let cands: Vec<FnSig> =
                    self.visible_funs().into_iter().filter(|f| &f.params == ps && f.ret == **r && !self.is_self(f)).collect();
                // the foreign list/string functions of the preamble are function values too (instances of their
                // generic signatures); arguments of a call through such a value keep their order
                let mut foreign: Vec<&str> = Vec::new();
                if self.env.preamble {
                    match (ps.as_slice(), &**r) {
                        ([x, Ty::List(el)], Ty::List(el2)) if **el == *x && el == el2 => foreign.extend(["cons", "cons_end"]),
                        ([Ty::List(_)], Ty::Num) => foreign.push("len"),
                        ([Ty::List(el)], t) if **el == *t => foreign.push("head"),
                        ([Ty::List(el)], Ty::List(el2)) if el == el2 => foreign.push("tail"),
                        ([Ty::Str], Ty::Num) => foreign.push("str_length"),
                        _ => {}
                    }
                    foreign.retain(|n| self.var_ty(n).is_none() && !self.env.funs.iter().any(|f| f.name == *n));
                }
                if !foreign.is_empty() && (cands.is_empty() || self.rng.chance(1, 2)) {
                    E::Var(foreign[self.rng.below(foreign.len())].to_string())
                } else if !cands.is_empty() {
                    E::Var(cands[self.rng.below(cands.len())].name.clone())
                } else if let Some(v) = vars.first() {
                    E::Var(v.clone())
                } else {
                    E::Var("missing_function".into())
                }
            }
        }
    }

    fn args_for(&mut self, f: &FnSig, depth: u32) -> Vec<E> {
        let mut args: Vec<E> = Vec::new();
        for (k, p) in f.params.iter().enumerate() {
            if k == 0 && f.rec_small {
                if self.is_self(f) {
                    // recursive call: the first parameter minus one or two
                    let pname = self.locals[0].0.clone();
                    let d = if self.rng.chance(1, 4) { 2.0 } else { 1.0 };
                    args.push(E::Bin(Bop::Sub, Box::new(E::Var(pname)), Box::new(E::Num(d))));
                } else {
                    args.push(self.small_num());
                }
            } else {
                args.push(self.gen(p, depth));
            }
        }
        args
    }

    fn gen(&mut self, ty: &Ty, depth: u32) -> E {
        if depth == 0 {
            return self.leaf(ty);
        }
        let d = depth - 1;
        if self.in_interp && ty.has_struct() {
            return self.leaf(ty);
        }
        // generic constructions first
        let r = self.rng.below(100);
        if r < 10 {
            let c = self.gen(&Ty::Bool, d);
            let t = self.gen(ty, d);
            let e = self.gen(ty, d);
            return E::If(Box::new(c), Box::new(t), Box::new(e));
        }
        if r < 28 {
            // call of a function returning `ty`
            let in_interp = self.in_interp;
            let cands: Vec<FnSig> = self
                .visible_funs()
                .into_iter()
                .filter(|f| &f.ret == ty && (!in_interp || f.params.iter().all(|p| !p.has_struct() || !self.vars_of(p).is_empty())))
                .collect();
            if !cands.is_empty() {
                let f = cands[self.rng.below(cands.len())].clone();
                // the recursive call only where the first parameter is still the innermost binding
                let ok_self = !self.is_self(&f)
                    || (f.rec_small && self.locals.iter().filter(|(n, _)| *n == self.locals[0].0).count() == 1);
                if ok_self {
                    let mut args = self.args_for(&f, d);
                    if !args.is_empty() && !self.is_self(&f) && self.rng.chance(1, 4) {
                        let last = args.pop().unwrap();
                        return E::Pipe(Box::new(last), f.name.clone(), args);
                    }
                    return E::Call(f.name.clone(), args);
                }
            }
        }
        if r < 36 {
            // call through a variable holding a function, or through a parenthesised callee
            let mut names: Vec<(String, Vec<Ty>)> = Vec::new();
            for (n, _) in self.locals.clone().iter().chain(self.env.globals.iter().flat_map(|(ns, t)| ns.iter().map(move |n| (n.clone(), t.clone()))).collect::<Vec<_>>().iter()) {
                if let Some(Ty::Fun(ps, rt)) = self.var_ty(n) {
                    if *rt == *ty {
                        names.push((n.clone(), ps));
                    }
                }
            }
            if !names.is_empty() {
                let (n, ps) = names[self.rng.below(names.len())].clone();
                let args: Vec<E> = ps.iter().map(|p| self.gen(p, d)).collect();
                return E::Call(n, args);
            }
            let cands: Vec<FnSig> = self.visible_funs().into_iter().filter(|f| &f.ret == ty && !f.rec_small && !self.is_self(f)).collect();
            if !cands.is_empty() && !self.in_interp {
                let f = cands[self.rng.below(cands.len())].clone();
                let fty = Ty::Fun(f.params.clone(), Box::new(f.ret.clone()));
                let callee = if self.rng.chance(1, 2) {
                    E::Var(f.name.clone())
                } else {
                    let c = self.gen(&Ty::Bool, 0);
                    let a = self.leaf(&fty);
                    let b = self.leaf(&fty);
                    E::If(Box::new(c), Box::new(a), Box::new(b))
                };
                let args: Vec<E> = f.params.iter().map(|p| self.gen(p, d)).collect();
                return E::CallE(Box::new(callee), args);
            }
        }
        if r < 44 {
            // field access on a struct that has a field of this type
            let cands: Vec<(String, String)> = self
                .env
                .structs
                .iter()
                .flat_map(|(n, fs)| fs.iter().filter(|(_, t)| t == ty).map(move |(f, _)| (n.clone(), f.clone())))
                .collect();
            if !cands.is_empty() {
                let (sn, f) = cands[self.rng.below(cands.len())].clone();
                // only the latest definition of the struct name counts
                let latest = self.env.structs.iter().rev().find(|(m, _)| *m == sn).unwrap();
                if latest.1.iter().any(|(g, t)| *g == f && t == ty)
                    && (!self.in_interp || !self.vars_of(&Ty::Struct(sn.clone())).is_empty())
                {
                    let inner = self.gen(&Ty::Struct(sn), d.min(1));
                    return E::Field(Box::new(inner), f);
                }
            }
        }
        if r < 48 && self.env.preamble {
            let lt = Ty::List(Box::new(ty.clone()));
            if !ty.has_fun() {
                let l = self.gen(&lt, d);
                return E::Call("head".into(), vec![l]);
            }
        }
        match ty {
            Ty::Num => {
                let r = self.rng.below(100);
                match r {
                    0..=54 => {
                        let op = *self.rng.pick(&[Bop::Add, Bop::Add, Bop::Sub, Bop::Sub, Bop::Mul]);
                        let a = self.gen(&Ty::Num, d);
                        let b = self.gen(&Ty::Num, d);
                        E::Bin(op, Box::new(a), Box::new(b))
                    }
                    55..=62 => {
                        let a = self.gen(&Ty::Num, d);
                        let b = if self.rng.chance(4, 5) { E::Num(*self.rng.pick(&[1.0, 2.0, 4.0, 0.0])) } else { self.gen(&Ty::Num, d) };
                        E::Bin(Bop::Div, Box::new(a), Box::new(b))
                    }
                    63..=70 => E::Neg(Box::new(self.gen(&Ty::Num, d))),
                    71..=75 => {
                        let a = if self.rng.chance(4, 5) { E::Num(self.rng.below(6) as f64) } else { self.gen(&Ty::Num, d) };
                        E::Fact(Box::new(a))
                    }
                    76..=83 if self.env.preamble => {
                        let t = self.usable_ty(0);
                        let l = self.gen(&Ty::List(Box::new(t)), d);
                        E::Call("len".into(), vec![l])
                    }
                    84..=88 if self.env.preamble => E::Call("str_length".into(), vec![self.gen(&Ty::Str, d)]),
                    _ => self.leaf(ty),
                }
            }
            Ty::Bool => {
                let r = self.rng.below(100);
                match r {
                    0..=39 => {
                        let op = *self.rng.pick(&[Bop::Lt, Bop::Gt, Bop::Le, Bop::Ge, Bop::Eq, Bop::Ne]);
                        let a = self.gen(&Ty::Num, d);
                        let b = self.gen(&Ty::Num, d);
                        E::Bin(op, Box::new(a), Box::new(b))
                    }
                    40..=54 => {
                        let t = loop {
                            let t = self.usable_ty(1);
                            if !t.has_fun() {
                                break t;
                            }
                        };
                        let op = if self.rng.chance(2, 3) { Bop::Eq } else { Bop::Ne };
                        let a = self.gen(&t, d);
                        let b = self.gen(&t, d);
                        E::Bin(op, Box::new(a), Box::new(b))
                    }
                    55..=74 => {
                        let op = if self.rng.chance(1, 2) { Bop::And } else { Bop::Or };
                        let a = self.gen(&Ty::Bool, d);
                        let b = self.gen(&Ty::Bool, d);
                        E::Bin(op, Box::new(a), Box::new(b))
                    }
                    75..=84 => E::Not(Box::new(self.gen(&Ty::Bool, d))),
                    _ => self.leaf(ty),
                }
            }
            Ty::Str => {
                if self.in_interp {
                    return self.leaf(ty);
                }
                let n = 1 + self.rng.below(4);
                let mut parts = Vec::new();
                for _ in 0..n {
                    if self.rng.chance(1, 2) {
                        let k = 1 + self.rng.below(3);
                        let mut s = String::new();
                        for _ in 0..k {
                            s.push(*self.rng.pick(&['a', 'b', 'z', ' ', '0', '=', ',']));
                        }
                        parts.push(Part::Fixed(s));
                    } else {
                        let was = self.in_interp;
                        self.in_interp = true;
                        let t = self.usable_ty(1);
                        let e = self.gen(&t, d.min(2));
                        self.in_interp = was;
                        parts.push(Part::Interp(e));
                    }
                }
                E::Str(parts)
            }
            Ty::Struct(n) => {
                if self.in_interp {
                    return self.leaf(ty);
                }
                let def = self.env.structs.iter().rev().find(|(m, _)| m == n).cloned();
                match def {
                    Some((_, fields)) => {
                        let mut fs: Vec<(String, E)> = fields.iter().map(|(f, t)| (f.clone(), self.gen(t, d))).collect();
                        self.rng.shuffle(&mut fs);
                        E::Mk(n.clone(), fs)
                    }
                    None => self.leaf(ty),
                }
            }
            Ty::List(t) => {
                let r = self.rng.below(100);
                match r {
                    0..=49 => {
                        let n = if self.rng.chance(1, 12) { 0 } else { 1 + self.rng.below(3) };
                        E::List((0..n).map(|_| self.gen(t, d)).collect())
                    }
                    50..=64 if self.env.preamble && !t.has_fun() => {
                        let x = self.gen(t, d);
                        let xs = self.gen(ty, d);
                        E::Call(if self.rng.chance(1, 2) { "cons".into() } else { "cons_end".into() }, vec![x, xs])
                    }
                    65..=69 if self.env.preamble && !t.has_fun() => E::Call("tail".into(), vec![self.gen(ty, d)]),
                    _ => self.leaf(ty),
                }
            }
            Ty::Fun(..) => {
                if self.rng.chance(1, 4) && !self.in_interp {
                    let c = self.gen(&Ty::Bool, d);
                    let a = self.leaf(ty);
                    let b = self.leaf(ty);
                    E::If(Box::new(c), Box::new(a), Box::new(b))
                } else {
                    self.leaf(ty)
                }
            }
        }
    }

    fn gen_fn(&mut self) -> S {
        // mostly a fresh name; sometimes a redefinition (then mostly with the same signature)
        let unused: Vec<&&str> = FNS.iter().filter(|n| !self.env.funs.iter().any(|f| f.name == **n)).collect();
        let (name, same_sig) = if !unused.is_empty() && self.rng.chance(4, 5) {
            (unused[self.rng.below(unused.len())].to_string(), None)
        } else {
            let n = self.pick_str(FNS);
            let prev = self.env.funs.iter().rev().find(|f| f.name == n).cloned();
            let keep = prev.filter(|_| self.rng.chance(3, 4));
            (n, keep)
        };
        let kind = self.rng.below(100);
        let (params, ret, rec): (Vec<(String, Ty)>, Ty, u8) = if let Some(sig) = &same_sig {
            let mut names: Vec<String> = Vec::new();
            for _ in &sig.params {
                names.push(self.pick_str(VARS));
            }
            (names.into_iter().zip(sig.params.iter().cloned()).collect(), sig.ret.clone(), if sig.rec_small { 1 } else { 0 })
        } else if kind < 22 {
            // recursion on a number
            let mut ps = vec![("n".to_string(), Ty::Num)];
            for _ in 0..self.rng.below(2) {
                let t = self.simple_ty(1);
                let mut p = self.pick_str(VARS);
                if p == "n" {
                    p = "a".into();
                }
                ps.push((p, t));
            }
            let ret = if self.rng.chance(2, 3) { Ty::Num } else { self.simple_ty(1) };
            (ps, ret, 1)
        } else if kind < 34 && self.env.preamble {
            // recursion on a list
            let elem = if self.rng.chance(3, 4) { Ty::Num } else { self.simple_ty(0) };
            let ps = vec![("x".to_string(), Ty::List(Box::new(elem)))];
            let ret = if self.rng.chance(1, 2) { Ty::Num } else { self.simple_ty(1) };
            (ps, ret, 2)
        } else {
            let n = self.rng.below(4);
            let mut ps = Vec::new();
            for _ in 0..n {
                let t = self.simple_ty(1);
                let pool: &[&str] = if self.rng.chance(1, 8) { FNS } else { VARS };
                ps.push((self.pick_str(pool), t));
            }
            // parameter names must differ
            let mut seen: Vec<String> = Vec::new();
            ps.retain(|(p, _)| {
                if seen.contains(p) || *p == name {
                    false
                } else {
                    seen.push(p.clone());
                    true
                }
            });
            (ps, self.simple_ty(1), 0)
        };
        let params: Vec<(String, Ty)> = {
            let mut seen: Vec<String> = Vec::new();
            params
                .into_iter()
                .map(|(p, t)| {
                    let mut p = p;
                    while seen.contains(&p) || p == name {
                        p = format!("{}{}", p, seen.len());
                    }
                    seen.push(p.clone());
                    (p, t)
                })
                .collect()
        };
        let sig = FnSig { name: name.clone(), params: params.iter().map(|(_, t)| t.clone()).collect(), ret: ret.clone(), rec_small: rec == 1 };
        self.in_fn = true;
        self.locals = params.clone();
        self.self_sig = Some(sig.clone());
        self.allow_self = false;
        // where-variables (never the recursion parameter's name in a recursive function)
        let nw = if self.rng.chance(1, 2) { 0 } else { 1 + self.rng.below(3) };
        let mut wheres = Vec::new();
        for _ in 0..nw {
            let t = self.simple_ty(1);
            let mut wname = self.pick_str(VARS);
            if rec != 0 && wname == params[0].0 {
                wname = "t".into();
                if wname == params[0].0 {
                    wname = "s".into();
                }
            }
            if wname == name {
                continue;
            }
            let e = self.gen(&t, 2);
            wheres.push((wname.clone(), e));
            self.locals.push((wname, t));
        }
        let depth = 2 + self.rng.below(2) as u32;
        let body = match rec {
            1 => {
                let p0 = params[0].0.clone();
                let base = self.gen(&ret, 1);
                self.allow_self = true;
                let step = self.gen_step(&ret, depth, &sig);
                self.allow_self = false;
                E::If(
                    Box::new(E::Bin(Bop::Le, Box::new(E::Var(p0)), Box::new(E::Num(0.0)))),
                    Box::new(base),
                    Box::new(step),
                )
            }
            2 => {
                let p0 = params[0].0.clone();
                let base = self.gen(&ret, 1);
                // `name(tail(x))` combined with `head(x)`
                let rec_call = E::Call(name.clone(), vec![E::Call("tail".into(), vec![E::Var(p0.clone())])]);
                let elem = match &params[0].1 {
                    Ty::List(t) => (**t).clone(),
                    _ => Ty::Num,
                };
                // temporarily bind the pieces as locals so that the generated step can use them
                self.locals.push(("hd_".into(), elem));
                self.locals.push(("rc_".into(), ret.clone()));
                let step0 = self.gen(&ret, depth);
                self.locals.pop();
                self.locals.pop();
                let step = subst(&subst(&step0, "hd_", &E::Call("head".into(), vec![E::Var(p0.clone())])), "rc_", &rec_call);
                E::If(
                    Box::new(E::Bin(
                        Bop::Eq,
                        Box::new(E::Call("len".into(), vec![E::Var(p0)])),
                        Box::new(E::Num(0.0)),
                    )),
                    Box::new(base),
                    Box::new(step),
                )
            }
            _ => self.gen(&ret, depth),
        };
        self.in_fn = false;
        self.locals.clear();
        self.self_sig = None;
        self.env.funs.push(sig);
        S::Fn(FnDef { name, params, ret, wheres, body })
    }

    /// an expression of type `ty` that contains at least one recursive call when the types allow it
    fn gen_step(&mut self, ty: &Ty, depth: u32, sig: &FnSig) -> E {
        let call = E::Call(sig.name.clone(), self.args_for(sig, 1));
        match ty {
            Ty::Num => {
                let other = self.gen(&Ty::Num, depth.saturating_sub(1));
                let op = *self.rng.pick(&[Bop::Add, Bop::Add, Bop::Sub, Bop::Mul]);
                if self.rng.chance(1, 2) {
                    E::Bin(op, Box::new(other), Box::new(call))
                } else {
                    E::Bin(op, Box::new(call), Box::new(other))
                }
            }
            Ty::Bool => E::Bin(Bop::Or, Box::new(self.gen(&Ty::Bool, 1)), Box::new(call)),
            Ty::Str => E::Str(vec![Part::Interp(self.leaf(&Ty::Num)), Part::Fixed(",".into()), Part::Interp(call)]),
            Ty::List(t) if self.env.preamble && !t.has_fun() => {
                let x = self.gen(t, 1);
                E::Call("cons".into(), vec![x, call])
            }
            _ => {
                let c = self.gen(&Ty::Bool, 1);
                let other = self.gen(ty, 1);
                E::If(Box::new(c), Box::new(call), Box::new(other))
            }
        }
    }

    fn gen_stmt(&mut self) -> S {
        self.in_fn = false;
        self.locals.clear();
        let r = self.rng.below(100);
        match r {
            0..=29 => {
                let t = self.simple_ty(1);
                let name = self.pick_str(VARS);
                let mut aliases = Vec::new();
                if self.rng.chance(1, 12) {
                    let a = self.pick_str(VARS);
                    if a != name {
                        aliases.push(a);
                    }
                }
                let d = 1 + self.rng.below(3) as u32;
                let e = self.gen(&t, d);
                let mut names = vec![name.clone()];
                names.extend(aliases.iter().cloned());
                self.env.globals.push((names, t));
                S::Let(name, aliases, e)
            }
            30..=54 => self.gen_fn(),
            55..=62 if self.env.structs.len() < STRUCTS.len() => {
                let name = STRUCTS[self.env.structs.len()].to_string();
                let n = self.rng.below(4);
                let mut fs: Vec<(String, Ty)> = Vec::new();
                for _ in 0..n {
                    let f = self.pick_str(FIELDS);
                    if fs.iter().any(|(g, _)| *g == f) {
                        continue;
                    }
                    let t = self.simple_ty(1);
                    fs.push((f, t));
                }
                self.env.structs.push((name.clone(), fs.clone()));
                S::Struct(name, fs)
            }
            63..=72 => {
                let t = loop {
                    let t = self.simple_ty(1);
                    if !matches!(t, Ty::Fun(..)) || self.rng.chance(1, 3) {
                        break t;
                    }
                };
                let d = 1 + self.rng.below(3) as u32;
                S::Print(self.gen(&t, d))
            }
            73..=75 => S::Assert(self.gen(&Ty::Bool, 2)),
            _ => {
                let t = self.simple_ty(1);
                let d = 1 + self.rng.below(4) as u32;
                let e = self.gen(&t, d);
                self.env.last_ty = Some(t);
                S::Expr(e)
            }
        }
    }

    fn gen_input(&mut self, first: bool) -> Input {
        let mut input = Vec::new();
        if first {
            input.push(S::Preamble);
            self.env.preamble = true;
        }
        let n = 1 + self.rng.below(6);
        for _ in 0..n {
            input.push(self.gen_stmt());
        }
        input
    }
}

/// replace the variable `name` by `by`
fn subst(e: &E, name: &str, by: &E) -> E {
    let s = |x: &E| Box::new(subst(x, name, by));
    let sv = |xs: &Vec<E>| xs.iter().map(|x| subst(x, name, by)).collect::<Vec<_>>();
    match e {
        E::Var(n) if n == name => by.clone(),
        E::Var(_) | E::Num(_) | E::Bool(_) => e.clone(),
        E::Str(ps) => E::Str(
            ps.iter()
                .map(|p| match p {
                    Part::Interp(x) => Part::Interp(subst(x, name, by)),
                    p => p.clone(),
                })
                .collect(),
        ),
        E::Neg(a) => E::Neg(s(a)),
        E::Not(a) => E::Not(s(a)),
        E::Fact(a) => E::Fact(s(a)),
        E::Bin(op, a, b) => E::Bin(*op, s(a), s(b)),
        E::If(a, b, c) => E::If(s(a), s(b), s(c)),
        E::Call(f, args) => E::Call(f.clone(), sv(args)),
        E::Pipe(x, f, args) => E::Pipe(s(x), f.clone(), sv(args)),
        E::CallE(c, args) => E::CallE(s(c), sv(args)),
        E::Mk(n, fs) => E::Mk(n.clone(), fs.iter().map(|(f, x)| (f.clone(), subst(x, name, by))).collect()),
        E::Field(a, f) => E::Field(s(a), f.clone()),
        E::List(es) => E::List(sv(es)),
    }
}

// ------------------------------------------------------------------ cases, shrinking, main

fn count_nodes(e: &E, out: &mut Out) {
    let k = match e {
        E::Num(_) => "e_num",
        E::Bool(_) => "e_bool",
        E::Str(ps) => {
            for p in ps {
                if let Part::Interp(x) = p {
                    out.count("e_interpolation");
                    count_nodes(x, out);
                }
            }
            "e_string"
        }
        E::Var(n) => {
            if n == "ans" || n == "_" {
                "e_last_result"
            } else {
                "e_identifier"
            }
        }
        E::Neg(a) => {
            count_nodes(a, out);
            "e_neg"
        }
        E::Not(a) => {
            count_nodes(a, out);
            "e_not"
        }
        E::Fact(a) => {
            count_nodes(a, out);
            "e_factorial"
        }
        E::Bin(op, a, b) => {
            count_nodes(a, out);
            count_nodes(b, out);
            out.count(&format!("op_{}", op.name()));
            "e_binary"
        }
        E::If(a, b, c) => {
            count_nodes(a, out);
            count_nodes(b, out);
            count_nodes(c, out);
            "e_if"
        }
        E::Call(_, args) => {
            args.iter().for_each(|a| count_nodes(a, out));
            "e_call"
        }
        E::Pipe(x, _, args) => {
            count_nodes(x, out);
            args.iter().for_each(|a| count_nodes(a, out));
            "e_pipe"
        }
        E::CallE(c, args) => {
            count_nodes(c, out);
            args.iter().for_each(|a| count_nodes(a, out));
            "e_call_of_expression"
        }
        E::Mk(_, fs) => {
            fs.iter().for_each(|(_, a)| count_nodes(a, out));
            "e_struct_literal"
        }
        E::Field(a, _) => {
            count_nodes(a, out);
            "e_field_access"
        }
        E::List(es) => {
            es.iter().for_each(|a| count_nodes(a, out));
            "e_list"
        }
    };
    out.count(k);
}

fn count_case(run: &CaseRun, out: &mut Out) {
    for input in &run.accepted {
        out.count("inputs_accepted");
        for s in input {
            match s {
                S::Preamble => out.count("s_preamble"),
                S::Expr(e) => {
                    out.count("s_expression");
                    count_nodes(e, out);
                }
                S::Let(_, al, e) => {
                    out.count("s_let");
                    if !al.is_empty() {
                        out.count("s_let_with_alias");
                    }
                    count_nodes(e, out);
                }
                S::Fn(d) => {
                    out.count("s_fn");
                    out.count(&format!("fn_params_{}", d.params.len()));
                    out.count(&format!("fn_wheres_{}", d.wheres.len().min(3)));
                    for (_, e) in &d.wheres {
                        count_nodes(e, out);
                    }
                    count_nodes(&d.body, out);
                }
                S::Struct(_, fs) => {
                    out.count("s_struct");
                    out.count(&format!("struct_fields_{}", fs.len()));
                }
                S::Print(e) => {
                    out.count("s_print");
                    count_nodes(e, out);
                }
                S::Assert(e) => {
                    out.count("s_assert");
                    count_nodes(e, out);
                }
            }
        }
    }
    for r in &run.records {
        // what the compiler received (the typed statements)
        for (pat, key) in [
            ("(callc ", "typed_callable_call"),
            ("(call ", "typed_function_call"),
            ("(if ", "typed_condition"),
            ("(mk ", "typed_struct_instantiation"),
            ("(fld ", "typed_field_access"),
            ("(interp ", "typed_interpolation"),
            ("(fn ", "typed_function_definition"),
        ] {
            let n = r.dump.matches(pat).count();
            if n > 0 {
                out.count_n(key, n as u64);
            }
        }
    }
    for n in &run.notes {
        if n.starts_with("REJECT") || n.starts_with("STUCK") {
            continue;
        }
        out.count(n);
    }
}

/// shadowing actually present: some name bound at least twice (global/parameter/where)
fn has_shadowing(p: &[Input]) -> bool {
    let mut names: Vec<String> = Vec::new();
    let mut dup = false;
    for s in p.iter().flatten() {
        match s {
            S::Let(n, al, _) => {
                for x in std::iter::once(n).chain(al.iter()) {
                    dup |= names.contains(x);
                    names.push(x.clone());
                }
            }
            S::Fn(d) => {
                for (x, _) in d.params.iter() {
                    dup |= names.contains(x);
                }
                for (x, _) in d.wheres.iter() {
                    dup |= names.contains(x) || d.params.iter().any(|(p, _)| p == x);
                }
                dup |= names.contains(&d.name);
                names.push(d.name.clone());
            }
            _ => {}
        }
    }
    dup
}

fn flatten(p: &[Input]) -> Vec<(usize, S)> {
    p.iter().enumerate().flat_map(|(i, inp)| inp.iter().map(move |s| (i, s.clone()))).collect()
}

fn regroup(fl: &[(usize, S)]) -> Vec<Input> {
    let mut out: Vec<Input> = Vec::new();
    let mut cur: Option<usize> = None;
    for (i, s) in fl {
        if cur != Some(*i) {
            out.push(Vec::new());
            cur = Some(*i);
        }
        out.last_mut().unwrap().push(s.clone());
    }
    out
}

fn emit_case(out: &mut Out, inputs: &[Input], count: bool) {
    let run = run_case(inputs);
    if !run.records.is_empty() && !run.outside_model {
        let (req, ans) = request_line(&run);
        out.line(&req, &ans);
    } else if run.outside_model {
        out.count("no_model_line_number_outside_fragment");
    }
    if count {
        count_case(&run, out);
        let text = sx_program(&run.accepted);
        let nontrivial = run.accepted.iter().flatten().filter(|s| !matches!(s, S::Preamble)).count() >= 2
            && (text.contains("(call ") || text.contains("(if ") || text.contains("(pipe ") || text.contains("(calle "));
        if has_shadowing(&run.accepted) {
            out.count("cases_with_shadowing");
        }
        if run.had_error {
            out.count("cases_with_rolled_back_input");
        }
        out.case(&text, nontrivial);
    }
    report_failures(out, inputs, &run);
}

fn report_failures(out: &mut Out, inputs: &[Input], run: &CaseRun) {
    let mut seen: Vec<String> = Vec::new();
    for (key, what) in &run.failures {
        if seen.contains(key) {
            continue;
        }
        seen.push(key.clone());
        if out.oracle_failures >= 25 {
            // enough minimised examples: report the rest as they are
            let src: Vec<String> = inputs.iter().map(|i| render_input(i).replace('\n', " ⏎ ")).collect();
            out.oracle_fail(key, &format!("case {}", sx_program(inputs)), &format!("{} [program: {}]", what, src.join(" ;; ")));
            continue;
        }
        // shrink: drop statements / inputs while the same kind of failure remains
        let fl = flatten(inputs);
        let small = shrink_seq(&fl, |c| run_case(&regroup(c)).failures.iter().any(|(k, _)| k == key));
        let small_inputs = regroup(&small);
        let r2 = run_case(&small_inputs);
        let w2 = r2.failures.iter().find(|(k, _)| k == key).map(|(_, w)| w.clone()).unwrap_or(what.clone());
        let src: Vec<String> = small_inputs.iter().map(|i| render_input(i).replace('\n', " ⏎ ")).collect();
        out.oracle_fail(key, &format!("case {}", sx_program(&small_inputs)), &format!("{} [program: {}]", w2, src.join(" ;; ")));
    }
}

/// `src <source> => <expected>` lines: hand-written shapes with the expected outcome given as text
fn emit_src(out: &mut Out, line: &str) {
    let (src, exp) = match line.split_once(" => ") {
        Some(x) => x,
        None => return,
    };
    let inputs: Vec<String> = src.split(" ;; ").map(|s| s.replace(" ⏎ ", "\n").replace('⏎', "\n")).collect();
    let expected: Vec<&str> = exp.split(" ;; ").collect();
    let mut ctx = Context::new(BuiltinModuleImporter::default());
    let procs = ctx.verif_c09_bytecode().vm.ffi_callables.clone();
    let mut dumps = Vec::new();
    let mut bs = Vec::new();
    let mut ss = Vec::new();
    let mut prev = structural(&ctx);
    for (k, code) in inputs.iter().enumerate() {
        let dump = match catch(std::panic::AssertUnwindSafe(|| ctx.verif_c09_typed_dump(code))) {
            Ok(Ok(d)) => d,
            _ => {
                out.oracle_fail(&format!("src-rejected:{}", src), &format!("src {}", line), "front end rejects the input");
                return;
            }
        };
        let printed = Arc::new(Mutex::new(Vec::<String>::new()));
        let p2 = printed.clone();
        let mut settings = InterpreterSettings { print_fn: Box::new(move |m| p2.lock().unwrap().push(m.to_string())) };
        let r = catch(std::panic::AssertUnwindSafe(|| match ctx.interpret_with_settings(&mut settings, code, CodeSource::Text) {
            Ok((_, InterpreterResult::Value(v))) => (ImplOutcome::Value(hook::value_canon(&v)), format!("value {}", v.pretty_print())),
            Ok((_, InterpreterResult::Continue)) => (ImplOutcome::Continue, "continue".to_string()),
            Err(e) => match *e {
                NumbatError::RuntimeError(re) => {
                    let k = hook::error_kind_name(&re.kind).to_string();
                    (ImplOutcome::Error(k.clone()), format!("error {}", k))
                }
                other => (ImplOutcome::Error("NotRuntime".into()), format!("error {}", other)),
            },
        }));
        let (outcome, pretty) = match r {
            Ok(x) => x,
            Err(p) => (ImplOutcome::Panic(p.clone()), format!("panic {}", p)),
        };
        let outp: Vec<String> = printed.lock().unwrap().clone();
        let panicked = matches!(outcome, ImplOutcome::Panic(_));
        let structure = if panicked { prev.clone() } else { structural(&ctx) };
        prev = structure.clone();
        dumps.push(dump);
        bs.push(canon_nan(&format!("{} {} ref={}", outcome_text(&outcome), out_text(&outp), if panicked { "skip" } else { "ok" })));
        ss.push(canon_nan(&structure));
        let want = expected.get(k).copied().unwrap_or("any");
        let shown = if outp.is_empty() { pretty.clone() } else { format!("{} printed {}", pretty, outp.join("|")) };
        if want != "any" && want != shown {
            out.oracle_fail(
                &format!("src-mismatch:{}", src),
                &format!("src {}", line),
                &format!("input {} gives `{}`, expected `{}`", k + 1, shown, want),
            );
        }
        if panicked {
            break;
        }
    }
    out.line(
        &format!("run procs={} {}", procs.join(","), dumps.join(" ;; ")),
        &format!("{} || {}", bs.join(" ;; "), ss.join(" ;; ")),
    );
    out.count("src_cases");
    out.case(src, true);
}

fn run_line(out: &mut Out, l: &str, count: bool) {
    if let Some(rest) = l.strip_prefix("case ") {
        if let Some(p) = program_of(rest) {
            emit_case(out, &p, count);
            if count {
                out.count("replayed_cases");
            }
        } else {
            out.oracle_fail("bad-replay-line", l, "cannot parse the case");
        }
    } else if let Some(rest) = l.strip_prefix("src ") {
        emit_src(out, rest);
    }
}

/// one generated case: inputs are generated one at a time against the live session
fn generate_case(rng: &mut Rng, out: &mut Out) {
    let mut runner = Runner::new();
    // (was `true` while function values were bound late — known finding C09-fnvalue-late-binding, since repaired in
    // numbat: inputs that are ill-typed only under the late-binding reading are given to the implementation again)
    runner.drop_undefined = false;
    let mut env = GenEnv::default();
    let n_inputs = 1 + rng.below(3);
    let mut offered: Vec<Input> = Vec::new();
    for k in 0..n_inputs {
        let (input, env_after) = {
            let mut g = Gen { rng, env: env.clone(), locals: vec![], in_fn: false, self_sig: None, allow_self: false, in_interp: false };
            let i = g.gen_input(k == 0);
            (i, g.env)
        };
        offered.push(input.clone());
        match runner.feed(&input) {
            Fed::Ok => env = env_after,
            Fed::Error => {
                // rolled back: later inputs must not use what this one defined
                if k == 0 {
                    // the preamble went with it: say it again next time
                    env.preamble = false;
                }
            }
            Fed::Dropped => {
                if k == 0 {
                    env.preamble = false;
                }
            }
            Fed::Panicked => break,
        }
        if !env.preamble {
            // keep the session usable: the next input starts with the preamble again
            let pre: Input = vec![S::Preamble];
            if runner.feed(&pre) == Fed::Ok {
                env.preamble = true;
                offered.push(pre);
            }
        }
    }
    let run = runner.run;
    if !run.records.is_empty() && !run.outside_model {
        let (req, ans) = request_line(&run);
        out.line(&req, &ans);
    } else if run.outside_model {
        out.count("no_model_line_number_outside_fragment");
    }
    count_case(&run, out);
    for n in &run.notes {
        if n.starts_with("REJECT") && out.histogram.get("rejected_samples_printed").copied().unwrap_or(0) < 12 {
            out.count("rejected_samples_printed");
            let k = format!("reject_sample_{}", out.histogram["rejected_samples_printed"]);
            out.extra.insert(k, n.clone());
        }
        if n.starts_with("STUCK") && out.histogram.get("stuck_samples_printed").copied().unwrap_or(0) < 12 {
            out.count("stuck_samples_printed");
            let k = format!("stuck_sample_{}", out.histogram["stuck_samples_printed"]);
            out.extra.insert(k, n.clone());
        }
    }
    let text = sx_program(&run.accepted);
    let nontrivial = run.accepted.iter().flatten().filter(|s| !matches!(s, S::Preamble)).count() >= 2
        && (text.contains("(call ") || text.contains("(if ") || text.contains("(pipe ") || text.contains("(calle "));
    if has_shadowing(&run.accepted) {
        out.count("cases_with_shadowing");
    }
    if run.had_error {
        out.count("cases_with_rolled_back_input");
    }
    out.count(&format!("inputs_per_case_{}", run.accepted.len()));
    out.case(&text, nontrivial);
    report_failures(out, &offered, &run);
}

/// What the implementation is working on right now (for the watchdog).
static CURRENT: Mutex<Option<(std::time::Instant, String, String)>> = Mutex::new(None);

/// The implementation has no step limit: a defect that makes compiled code loop would hang the whole check. A
/// watchdog thread reports the input as a failure of the property (key `hang`) and ends the process.
fn start_watchdog(dir: std::path::PathBuf) {
    std::thread::spawn(move || loop {
        std::thread::sleep(std::time::Duration::from_millis(250));
        let cur = CURRENT.lock().unwrap().clone();
        if let Some((t0, case, src)) = cur {
            if t0.elapsed().as_secs() >= 20 {
                use std::io::Write;
                // the main thread is stuck inside the implementation: what its buffered writers have put on
                // disk may end in the middle of a line. Keep complete lines only (the same number of request
                // and answer lines).
                let complete = |name: &str| -> Vec<String> {
                    let text = std::fs::read(dir.join(name)).map(|b| String::from_utf8_lossy(&b).to_string()).unwrap_or_default();
                    let upto = text.rfind('\n').map(|k| k + 1).unwrap_or(0);
                    text[..upto].lines().map(|l| l.to_string()).collect()
                };
                let (req, imp, orc) = (complete("req.txt"), complete("impl.txt"), complete("oracle.jsonl"));
                let n = req.len().min(imp.len());
                let join = |v: &[String]| v.iter().map(|l| format!("{}\n", l)).collect::<String>();
                let _ = std::fs::write(dir.join("req.txt"), join(&req[..n]));
                let _ = std::fs::write(dir.join("impl.txt"), join(&imp[..n]));
                let _ = std::fs::write(dir.join("oracle.jsonl"), join(&orc));
                if let Ok(mut f) = std::fs::OpenOptions::new().append(true).create(true).open(dir.join("oracle.jsonl")) {
                    let _ = writeln!(
                        f,
                        "{{\"key\":\"hang\",\"input\":{},\"what\":{}}}",
                        json_str(&case),
                        json_str(&format!("the implementation did not finish `{}` within 20 s", src.replace('\n', " ⏎ ")))
                    );
                }
                let _ = std::fs::write(
                    dir.join("stats.json"),
                    "{\n  \"evaluations\": 0,\n  \"distinct_nontrivial\": 0,\n  \"lines\": 0,\n  \"oracle_failures\": 1,\n  \"rule\": \"aborted by the watchdog\",\n  \"samples\": [],\n  \"extra\": {},\n  \"histogram\": {\"aborted_by_watchdog\": 1}\n}\n",
                );
                std::process::exit(0);
            }
        }
    });
}

fn main() {
    let args = Args::parse();
    start_watchdog(args.out.clone());
    let mut out = Out::new(&args);
    out.rule = "sessions of 1-3 inputs (1-6 statements each) of generated well-typed programs: let (with aliases), fn with 0-3 parameters and 0-3 where-variables, recursion on a number or a list, struct definitions, expression statements, print, assert; expressions over scalars, booleans, strings with interpolation, structs, lists, function values, `|>`, `ans`; names from small pools so that shadowing occurs at every level; an input that ends in a run-time error is rolled back and the session goes on. Inputs the front end rejects or whose expected value needs a number that is not an integer below 2^53 to be shown are dropped. distinct = S-expression of the accepted program; non-trivial = at least two statements besides the preamble and at least one call or conditional".into();

    if let Some(p) = &args.replay {
        for l in read_lines(p) {
            run_line(&mut out, &l, true);
        }
        out.finish();
        return;
    }

    if let Some(dir) = args.extra.get("corpus") {
        let mut files: Vec<_> = std::fs::read_dir(dir).map(|d| d.filter_map(|e| e.ok()).map(|e| e.path()).collect()).unwrap_or_default();
        files.sort();
        for f in files {
            for l in read_lines(&f) {
                if l.starts_with('#') || l.trim().is_empty() {
                    continue;
                }
                run_line(&mut out, &l, true);
                out.count("corpus_cases");
            }
        }
    }

    let mut rng = Rng::new(args.seed);
    let n = args.count(5000, 200000);
    for _ in 0..n {
        generate_case(&mut rng, &mut out);
    }
    out.finish();
}
