//! C10 — parsing follows the documented grammar and precedence table.
//!
//! Three input streams, all from the one `Rng`:
//!  * `tree`  random *surface* trees over all documented operators (every ASCII/Unicode spelling), literals
//!            (decimal, scientific, hex/oct/bin, underscores, NaN/inf), calls, field access, lists, structs,
//!            conditionals, `|>`, redundant parentheses and unary plus.  A tree is rendered with the minimal
//!            parentheses the *documented* table (book/src/basics/operations.md + the BNF of the parser's
//!            module documentation) demands, with random white space.  Oracle (independent of the model):
//!            the real parser must return exactly the tree that was rendered, and the real tokenizer exactly
//!            the tokens that were written.
//!  * `soup`  random token sequences and token-level mutations of rendered trees.  Oracle: an Earley
//!            recogniser for the documented BNF (the grammar as data, different technique from recursive
//!            descent) decides membership; the real parser must accept exactly the members.
//!  * corpus  lines `tree <src> => <sexpr>`, `accept <src>`, `reject <src>`, `src <src>` (run first).
//!
//! Model requests (answered by the Lean driver `drv_c10`, compared with the real code line by line):
//!     tok <chars>     answer  `ok Kind:hex Kind:hex …`  |  `err`  ` || ` error name
//!     parse <chars>   answer  `ok (expr …) …`           |  `err`  ` || ` error names
//!     cls <chars>     answer  identifier-start / identifier-continue bits per character
//! `<chars>` = code points in hex separated by blanks; a non-ASCII code point carries the `unicode-ident`
//! class bits as a suffix (`:s` XID_Start, `:c` XID_Continue, `:b` both) because that crate is a parameter of
//! the model.

use numbat::verif::c10 as hook;
use nvh::*;

// ------------------------------------------------------------------------------------------------ levels

const POSTFIX: u8 = 0;
const COND: u8 = 1;
const CONV: u8 = 2;
const OR: u8 = 3;
const AND: u8 = 4;
const NOT: u8 = 5;
const CMP: u8 = 6;
const TERM: u8 = 7;
const FACTOR: u8 = 8;
const PER: u8 = 9;
const UNARY: u8 = 10;
const IFACTOR: u8 = 11;
const POWER: u8 = 12;
const FACTORIAL: u8 = 13;
const UPOW: u8 = 14;
const CALL: u8 = 15;
const PRIMARY: u8 = 16;

const LEVEL_NAMES: [&str; 17] = [
    "postfix_apply", "condition", "conversion", "logical_or", "logical_and", "logical_neg", "comparison",
    "term", "factor", "per_factor", "unary", "ifactor", "power", "factorial", "unicode_power", "call", "primary",
];

#[derive(Clone, Copy, Debug, PartialEq, Eq)]
enum BinOp {
    Add, Sub, Mul, Div, Pow, ConvertTo, Lt, Gt, Le, Ge, Eq, Ne, And, Or,
}

impl BinOp {
    fn spellings(self) -> &'static [&'static str] {
        match self {
            BinOp::Add => &["+"],
            BinOp::Sub => &["-", "−"],
            BinOp::Mul => &["*", "·", "⋅", "×"],
            BinOp::Div => &["/", "÷"],
            BinOp::Pow => &["^", "**"],
            BinOp::ConvertTo => &["->", "→", "➞", "to"],
            BinOp::Lt => &["<"],
            BinOp::Gt => &[">"],
            BinOp::Le => &["<=", "≤"],
            BinOp::Ge => &[">=", "≥"],
            BinOp::Eq => &["==", "⩵"],
            BinOp::Ne => &["!=", "≠"],
            BinOp::And => &["&&"],
            BinOp::Or => &["||"],
        }
    }
    fn kind(self, spelling: &str) -> &'static str {
        match self {
            BinOp::Add => "Plus",
            BinOp::Sub => "Minus",
            BinOp::Mul => "Multiply",
            BinOp::Div => "Divide",
            BinOp::Pow => "Power",
            BinOp::ConvertTo => if spelling == "to" { "To" } else { "Arrow" },
            BinOp::Lt => "LessThan",
            BinOp::Gt => "GreaterThan",
            BinOp::Le => "LessOrEqual",
            BinOp::Ge => "GreaterOrEqual",
            BinOp::Eq => "EqualEqual",
            BinOp::Ne => "NotEqual",
            BinOp::And => "LogicalAnd",
            BinOp::Or => "LogicalOr",
        }
    }
    fn ast(self) -> &'static str {
        match self {
            BinOp::Add => "Add",
            BinOp::Sub => "Sub",
            BinOp::Mul => "Mul",
            BinOp::Div => "Div",
            BinOp::Pow => "Power",
            BinOp::ConvertTo => "ConvertTo",
            BinOp::Lt => "LessThan",
            BinOp::Gt => "GreaterThan",
            BinOp::Le => "LessOrEqual",
            BinOp::Ge => "GreaterOrEqual",
            BinOp::Eq => "Equal",
            BinOp::Ne => "NotEqual",
            BinOp::And => "LogicalAnd",
            BinOp::Or => "LogicalOr",
        }
    }
    /// (own level, level required of the left operand, of the right operand) — the documented table:
    /// all binary operators are left-associative except `^`.
    fn levels(self) -> (u8, u8, u8) {
        match self {
            BinOp::ConvertTo => (CONV, CONV, OR),
            BinOp::Or => (OR, OR, AND),
            BinOp::And => (AND, AND, NOT),
            BinOp::Lt | BinOp::Gt | BinOp::Le | BinOp::Ge | BinOp::Eq | BinOp::Ne => (CMP, CMP, TERM),
            BinOp::Add | BinOp::Sub => (TERM, TERM, FACTOR),
            BinOp::Mul | BinOp::Div => (FACTOR, FACTOR, PER),
            BinOp::Pow => (POWER, FACTORIAL, POWER),
        }
    }
}

/// surface syntax tree: the AST constructors plus the purely syntactic decorations `Paren`, `UPlus`, `Pipe`
#[derive(Clone, Debug, PartialEq)]
enum S {
    Num(String, u64),
    Id(String),
    Bool(bool),
    Str(String, String),
    Hole,
    Neg(usize, Box<S>),
    UPlus(Box<S>),
    Not(Box<S>),
    Fact(usize, Box<S>),
    Bin(BinOp, usize, Box<S>, Box<S>),
    Per(Box<S>, Box<S>),
    IMul(Box<S>, Box<S>),
    UPow(Box<S>, i32),
    Call(Box<S>, Vec<S>),
    Field(Box<S>, String),
    List(Vec<S>),
    Struct(String, Vec<(String, S)>),
    If(Box<S>, Box<S>, Box<S>),
    Paren(Box<S>),
    /// `x |> f` / `x |> f(args)`; the second component is `Id` or `Call`
    Pipe(Box<S>, Box<S>),
}

fn prec(s: &S) -> u8 {
    match s {
        S::Pipe(..) => POSTFIX,
        S::If(..) => COND,
        S::Bin(op, ..) => op.levels().0,
        S::Not(..) => NOT,
        S::Per(..) => PER,
        S::Neg(..) | S::UPlus(..) => UNARY,
        S::IMul(..) => IFACTOR,
        S::Fact(..) => FACTORIAL,
        S::UPow(..) => UPOW,
        S::Call(..) | S::Field(..) => CALL,
        S::Num(..) | S::Id(..) | S::Bool(..) | S::Str(..) | S::Hole | S::List(..) | S::Struct(..) | S::Paren(..) => PRIMARY,
    }
}

fn node_name(s: &S) -> &'static str {
    match s {
        S::Num(..) => "num",
        S::Id(..) => "ident",
        S::Bool(..) => "bool",
        S::Str(..) => "string",
        S::Hole => "hole",
        S::Neg(..) => "neg",
        S::UPlus(..) => "uplus",
        S::Not(..) => "not",
        S::Fact(..) => "factorial",
        S::Bin(op, ..) => op.ast(),
        S::Per(..) => "per",
        S::IMul(..) => "imul",
        S::UPow(..) => "unicode_exponent",
        S::Call(..) => "call",
        S::Field(..) => "field",
        S::List(..) => "list",
        S::Struct(..) => "struct",
        S::If(..) => "if",
        S::Paren(..) => "paren",
        S::Pipe(..) => "pipe",
    }
}

#[derive(Clone, Debug, PartialEq)]
struct Tok {
    text: String,
    kind: &'static str,
}

fn tok(text: &str, kind: &'static str) -> Tok {
    Tok { text: text.to_string(), kind }
}

fn num_kind(text: &str) -> &'static str {
    if text.starts_with("0x") {
        "IntegerWithBase16"
    } else if text.starts_with("0o") {
        "IntegerWithBase8"
    } else if text.starts_with("0b") {
        "IntegerWithBase2"
    } else if text == "NaN" {
        "NaN"
    } else if text == "inf" {
        "Inf"
    } else {
        "Number"
    }
}

const UEXP: [&str; 10] = ["", "¹", "²", "³", "⁴", "⁵", "⁶", "⁷", "⁸", "⁹"];

fn uexp_text(k: i32) -> String {
    if k < 0 {
        format!("⁻{}", UEXP[(-k) as usize])
    } else {
        UEXP[k as usize].to_string()
    }
}

/// tokens of `s` in a position that requires level `need` (parenthesised iff the documented level is lower)
fn render(s: &S, need: u8, out: &mut Vec<Tok>) {
    if prec(s) < need {
        out.push(tok("(", "LeftParen"));
        render_raw(s, out);
        out.push(tok(")", "RightParen"));
    } else {
        render_raw(s, out);
    }
}

fn render_list(items: &[S], out: &mut Vec<Tok>) {
    for (i, a) in items.iter().enumerate() {
        if i > 0 {
            out.push(tok(",", "Comma"));
        }
        render(a, POSTFIX, out);
    }
}

fn render_raw(s: &S, out: &mut Vec<Tok>) {
    match s {
        S::Num(t, _) => out.push(tok(t, num_kind(t))),
        S::Id(n) => out.push(tok(n, "Identifier")),
        S::Bool(b) => out.push(if *b { tok("true", "True") } else { tok("false", "False") }),
        S::Str(raw, _) => out.push(tok(raw, "StringFixed")),
        S::Hole => out.push(tok("?", "QuestionMark")),
        S::Neg(sp, x) => {
            out.push(tok(["-", "−"][*sp % 2], "Minus"));
            render(x, UNARY, out);
        }
        S::UPlus(x) => {
            out.push(tok("+", "Plus"));
            render(x, UNARY, out);
        }
        S::Not(x) => {
            out.push(tok("!", "ExclamationMark"));
            render(x, NOT, out);
        }
        S::Fact(n, x) => {
            render(x, UPOW, out);
            for _ in 0..*n {
                out.push(tok("!", "ExclamationMark"));
            }
        }
        S::Bin(BinOp::Pow, sp, l, r) => {
            render(l, FACTORIAL, out);
            let spell = BinOp::Pow.spellings()[*sp % 2];
            out.push(tok(spell, "Power"));
            match &**r {
                // documented: power ::= factorial ( "^" "-" ? power ) ?
                S::Neg(nsp, x) if (*sp / 2) % 2 == 0 => {
                    out.push(tok(["-", "−"][*nsp % 2], "Minus"));
                    render(x, POWER, out);
                }
                _ => render(r, POWER, out),
            }
        }
        S::Bin(op, sp, l, r) => {
            let (_, ll, rl) = op.levels();
            render(l, ll, out);
            let spell = op.spellings()[*sp % op.spellings().len()];
            out.push(tok(spell, op.kind(spell)));
            render(r, rl, out);
        }
        S::Per(l, r) => {
            render(l, PER, out);
            out.push(tok("per", "Per"));
            render(r, UNARY, out);
        }
        S::IMul(l, r) => {
            render(l, IFACTOR, out);
            render(r, POWER, out);
        }
        S::UPow(x, k) => {
            render(x, CALL, out);
            out.push(Tok { text: uexp_text(*k), kind: "UnicodeExponent" });
        }
        S::Call(f, args) => {
            render(f, CALL, out);
            out.push(tok("(", "LeftParen"));
            render_list(args, out);
            out.push(tok(")", "RightParen"));
        }
        S::Field(x, name) => {
            render(x, CALL, out);
            out.push(tok(".", "Period"));
            out.push(tok(name, "Identifier"));
        }
        S::List(items) => {
            out.push(tok("[", "LeftBracket"));
            render_list(items, out);
            out.push(tok("]", "RightBracket"));
        }
        S::Struct(name, fields) => {
            out.push(tok(name, "Identifier"));
            out.push(tok("{", "LeftCurly"));
            for (i, (f, e)) in fields.iter().enumerate() {
                if i > 0 {
                    out.push(tok(",", "Comma"));
                }
                out.push(tok(f, "Identifier"));
                out.push(tok(":", "Colon"));
                render(e, POSTFIX, out);
            }
            out.push(tok("}", "RightCurly"));
        }
        S::If(c, t, e) => {
            out.push(tok("if", "If"));
            render(c, CONV, out);
            out.push(tok("then", "Then"));
            render(t, COND, out);
            out.push(tok("else", "Else"));
            render(e, COND, out);
        }
        S::Paren(x) => {
            out.push(tok("(", "LeftParen"));
            render(x, POSTFIX, out);
            out.push(tok(")", "RightParen"));
        }
        S::Pipe(x, f) => {
            render(x, POSTFIX, out);
            out.push(tok("|>", "PostfixApply"));
            render(f, CALL, out);
        }
    }
}

fn scalar_sexpr(bits: u64) -> String {
    format!("(scalar {:016x})", bits)
}

/// the AST (in the hook's S-expression syntax) that the documentation says the rendered text denotes
fn expect(s: &S) -> String {
    match s {
        S::Num(_, bits) => scalar_sexpr(*bits),
        S::Id(n) => format!("(id {})", n),
        S::Bool(b) => format!("(bool {})", b),
        S::Str(_, v) => format!("(str (fixed {}))", hook::hex_text(v)),
        S::Hole => "(hole)".into(),
        S::Neg(_, x) => format!("(neg {})", expect(x)),
        S::UPlus(x) | S::Paren(x) => expect(x),
        S::Not(x) => format!("(not {})", expect(x)),
        S::Fact(n, x) => format!("(fact {} {})", n, expect(x)),
        S::Bin(op, _, l, r) => format!("({} {} {})", op.ast(), expect(l), expect(r)),
        S::Per(l, r) => format!("(Div {} {})", expect(l), expect(r)),
        S::IMul(l, r) => format!("(Mul~ {} {})", expect(l), expect(r)),
        S::UPow(x, k) => format!("(Power~ {} {})", expect(x), scalar_sexpr((*k as f64).to_bits())),
        S::Call(f, args) => {
            let mut t = format!("(call {}", expect(f));
            for a in args {
                t.push(' ');
                t.push_str(&expect(a));
            }
            t.push(')');
            t
        }
        S::Field(x, n) => format!("(field {} {})", expect(x), n),
        S::List(items) => {
            let mut t = "(list".to_string();
            for a in items {
                t.push(' ');
                t.push_str(&expect(a));
            }
            t.push(')');
            t
        }
        S::Struct(n, fields) => {
            let mut t = format!("(struct {}", n);
            for (f, e) in fields {
                t.push_str(&format!(" ({} {})", f, expect(e)));
            }
            t.push(')');
            t
        }
        S::If(c, t, e) => format!("(if {} {} {})", expect(c), expect(t), expect(e)),
        S::Pipe(x, f) => match &**f {
            S::Call(g, args) => {
                let mut t = format!("(call {}", expect(g));
                for a in args {
                    t.push(' ');
                    t.push_str(&expect(a));
                }
                t.push(' ');
                t.push_str(&expect(x));
                t.push(')');
                t
            }
            other => format!("(call {} {})", expect(other), expect(x)),
        },
    }
}

// ------------------------------------------------------------------------------------------------ lexical layer

fn is_wordy(c: char) -> bool {
    c.is_alphanumeric()
        || c == '_'
        || c == '.'
        || c == '%'
        || c == '$'
        || c == '°'
        || c == '€'
        || c == '£'
        || c == '¥'
        || c == '′'
        || c == '″'
        || c == '‰'
        || ('\u{2080}'..='\u{209C}').contains(&c)
}

/// must a blank separate the two lexemes (documented lexical rules: identifiers/numbers/keywords fuse, and the
/// multi-character operators `!= == <= >= -> ** || |> &&` must not be created by accident)
fn needs_blank(a: &Tok, b: &Tok) -> bool {
    let la = a.text.chars().last().unwrap();
    let fb = b.text.chars().next().unwrap();
    if a.kind == "Period" {
        return false; // "." identifier: no blank allowed at all
    }
    if b.kind == "Period" {
        // `2.x` would lex as the number `2.`; `a.x` is fine
        return la.is_ascii_digit() || la == '.' || matches!(a.kind, "Number" | "IntegerWithBase16" | "IntegerWithBase8" | "IntegerWithBase2");
    }
    if is_wordy(la) && is_wordy(fb) {
        return true;
    }
    matches!(
        (la, fb),
        ('!', '=') | ('<', '=') | ('>', '=') | ('=', '=') | ('-', '>') | ('*', '*') | ('|', '|') | ('|', '>') | ('&', '&')
    ) || (a.kind == "StringFixed" && b.kind == "StringFixed")
}

/// join tokens with random white space (blank where required, otherwise 0–2 blanks or a tab)
fn join(rng: &mut Rng, toks: &[Tok], style: u8) -> String {
    let mut s = String::new();
    if style == 2 && rng.chance(1, 3) {
        s.push(' ');
    }
    for (i, t) in toks.iter().enumerate() {
        if i > 0 {
            let a = &toks[i - 1];
            if a.kind == "Period" {
                // nothing
            } else if needs_blank(a, t) {
                s.push(' ');
                if style == 2 && rng.chance(1, 6) {
                    s.push(if rng.chance(1, 2) { ' ' } else { '\t' });
                }
            } else {
                match style {
                    0 => {
                        // tight
                    }
                    1 => {
                        // conventional: blanks around binary operators and keywords, none inside brackets/calls
                        let tight = matches!(t.kind, "RightParen" | "RightBracket" | "Comma" | "Period" | "UnicodeExponent" | "ExclamationMark" | "Colon")
                            || matches!(a.kind, "LeftParen" | "LeftBracket")
                            || (t.kind == "LeftParen" && matches!(a.kind, "Identifier" | "RightParen"));
                        if !tight {
                            s.push(' ');
                        }
                    }
                    _ => match rng.below(6) {
                        0 | 1 => {}
                        2 | 3 => s.push(' '),
                        4 => s.push_str("  "),
                        _ => s.push('\t'),
                    },
                }
            }
        }
        s.push_str(&t.text);
    }
    if style == 2 && rng.chance(1, 4) {
        s.push(' ');
    }
    s
}

// ------------------------------------------------------------------------------------------------ literals

/// exact value of a decimal literal when the classic fast path applies (mantissa < 2^53, |exp10| <= 22):
/// one correctly rounded IEEE operation on two exactly representable numbers
fn decimal_fast_path(mant: u64, exp10: i32) -> Option<f64> {
    if mant >= (1u64 << 53) || exp10.abs() > 22 {
        return None;
    }
    let p = 10f64.powi(exp10.abs());
    Some(if exp10 >= 0 { mant as f64 * p } else { mant as f64 / p })
}

fn with_underscores(rng: &mut Rng, digits: &str) -> String {
    if digits.len() < 2 || !rng.chance(1, 3) {
        return digits.to_string();
    }
    let mut s = String::new();
    for (i, c) in digits.chars().enumerate() {
        if i > 0 && rng.chance(1, 3) {
            s.push('_');
            if rng.chance(1, 8) {
                s.push('_');
            }
        }
        s.push(c);
    }
    s
}

fn gen_digits(rng: &mut Rng, max_len: usize) -> String {
    let n = 1 + rng.below(max_len);
    (0..n).map(|_| (b'0' + rng.below(10) as u8) as char).collect()
}

/// a number literal in one of the documented notations, with the f64 it denotes
fn gen_number(rng: &mut Rng, out: &mut Out) -> S {
    let form = rng.below(100);
    if form < 30 {
        // small integer
        let lim = if rng.chance(1, 2) { 10 } else { 1000 };
        let n = rng.below(lim);
        out.count("lit_integer");
        return S::Num(n.to_string(), (n as f64).to_bits());
    }
    if form < 40 {
        out.count("lit_nan_inf");
        return if rng.chance(1, 2) { S::Num("NaN".into(), f64::NAN.to_bits()) } else { S::Num("inf".into(), f64::INFINITY.to_bits()) };
    }
    if form < 60 {
        // hex / oct / bin
        let (prefix, radix, key) = *rng.pick(&[("0x", 16u32, "lit_hex"), ("0o", 8, "lit_oct"), ("0b", 2, "lit_bin")]);
        out.count(key);
        let len = if rng.chance(1, 10) { 20 + rng.below(15) } else { 1 + rng.below(8) };
        let mut digits = String::new();
        let mut value: u128 = 0;
        for _ in 0..len {
            let d = rng.below(radix as usize) as u32;
            if value.checked_mul(radix as u128).map(|v| v + d as u128 >= (1u128 << 127)).unwrap_or(true) {
                break;
            }
            value = value * radix as u128 + d as u128;
            let mut c = std::char::from_digit(d, radix).unwrap();
            if rng.chance(1, 2) {
                c = c.to_ascii_uppercase();
            }
            digits.push(c);
        }
        if digits.is_empty() {
            digits.push('0');
        }
        let text = format!("{}{}", prefix, with_underscores(rng, &digits));
        if text.contains('_') {
            out.count("lit_with_underscore");
        }
        return S::Num(text, (value as f64).to_bits());
    }
    // decimal, optionally with fraction and exponent
    let l1 = if rng.chance(1, 6) { 18 } else { 4 };
    let l2 = if rng.chance(1, 6) { 18 } else { 4 };
    let int_part = if rng.chance(1, 8) { String::new() } else { gen_digits(rng, l1) };
    let mut frac: Option<String> = if int_part.is_empty() || rng.chance(1, 2) {
        Some(if !int_part.is_empty() && rng.chance(1, 6) { String::new() } else { gen_digits(rng, l2) })
    } else {
        None
    };
    if int_part.is_empty() && frac.as_deref() == Some("") {
        frac = Some("5".into());
    }
    let exp: Option<(char, &str, String)> = if rng.chance(2, 5) {
        let e = if rng.chance(1, 2) { 'e' } else { 'E' };
        let sign = *rng.pick(&["", "+", "-"]);
        let d = if rng.chance(1, 10) { (300 + rng.below(60)).to_string() } else { rng.below(30).to_string() };
        Some((e, sign, d))
    } else {
        None
    };
    let mut text = with_underscores(rng, &int_part);
    let mut plain = int_part.clone();
    if let Some(f) = &frac {
        text.push('.');
        plain.push('.');
        text.push_str(&with_underscores(rng, f));
        plain.push_str(f);
        out.count("lit_decimal_point");
    }
    let mut e10: i32 = 0;
    if let Some((e, sign, d)) = &exp {
        text.push(*e);
        text.push_str(sign);
        text.push_str(&with_underscores(rng, d));
        plain.push('e');
        plain.push_str(sign);
        plain.push_str(d);
        e10 = d.parse::<i32>().unwrap() * if *sign == "-" { -1 } else { 1 };
        out.count("lit_scientific");
    }
    if text.contains('_') {
        out.count("lit_with_underscore");
    }
    // expected value: exact fast path where it applies, Rust's correctly rounded decimal conversion otherwise
    let all_digits = format!("{}{}", int_part, frac.clone().unwrap_or_default());
    let scale = e10 - frac.as_ref().map(|f| f.len() as i32).unwrap_or(0);
    let value = match all_digits.parse::<u64>().ok().and_then(|m| decimal_fast_path(m, scale)) {
        Some(v) => {
            out.count("lit_value_by_fast_path");
            v
        }
        None => plain.parse::<f64>().expect("literal text is a valid float"),
    };
    S::Num(text, value.to_bits())
}

const IDENTS: &[&str] = &[
    "a", "b", "c", "x", "y", "z", "m", "cm", "s", "kg", "foo", "bar", "f", "g", "sin", "x_1", "_t", "meter", "π", "α", "Ω", "ħ", "µ",
    "°", "°C", "€", "$", "%", "x₂", "m_e", "T₀", "e", "E", "pi", "tau", "h", "N", "k", "λ", "ångström", "‰", "£", "′", "″", "½",
];
const CALLEES: &[&str] = &["f", "g", "sin", "sqrt", "max", "base", "map", "sum", "round_in"];
const FIELDS: &[&str] = &["x", "y", "len", "re", "vₓ"];
const STRUCTS: &[&str] = &["Pt", "Vec2", "Color"];

fn gen_string(rng: &mut Rng) -> S {
    let pieces: &[(&str, &str)] = &[
        ("a", "a"), ("b c", "b c"), ("x=1", "x=1"), ("\\n", "\n"), ("\\\"", "\""), ("{{", "{"), ("}}", "}"), ("\\t", "\t"), ("→", "→"), ("\\\\", "\\"),
        ("#", "#"), ("1+2", "1+2"), (" ", " "),
    ];
    let n = rng.below(4);
    let mut raw = String::from("\"");
    let mut val = String::new();
    for _ in 0..n {
        let (r, v) = *rng.pick(pieces);
        raw.push_str(r);
        val.push_str(v);
    }
    raw.push('"');
    S::Str(raw, val)
}

fn gen_leaf(rng: &mut Rng, out: &mut Out) -> S {
    match rng.below(20) {
        0..=7 => gen_number(rng, out),
        8..=15 => S::Id(rng.pick(IDENTS).to_string()),
        16 => S::Bool(rng.chance(1, 2)),
        17 => gen_string(rng),
        18 => S::Hole,
        _ => S::Id(rng.pick(IDENTS).to_string()),
    }
}

fn first_kind(s: &S, need: u8) -> &'static str {
    let mut v = Vec::new();
    render(s, need, &mut v);
    v[0].kind
}

fn last_kind(s: &S, need: u8) -> &'static str {
    let mut v = Vec::new();
    render(s, need, &mut v);
    v[v.len() - 1].kind
}

/// juxtaposition `l r` is implicit multiplication only if `r` starts like a power expression can start
/// (number, identifier, `?`, `(`) and — for `(` — the parenthesis is not taken as a call of `l`
fn juxtaposable(l: &S, r: &S) -> bool {
    match first_kind(r, POWER) {
        "Number" | "Identifier" | "QuestionMark" => true,
        "LeftParen" => matches!(last_kind(l, IFACTOR), "ExclamationMark" | "UnicodeExponent"),
        _ => false,
    }
}

fn gen_args(rng: &mut Rng, out: &mut Out, depth: u32) -> Vec<S> {
    let n = match rng.below(10) {
        0 => 0,
        1..=5 => 1,
        6..=8 => 2,
        _ => 3,
    };
    (0..n).map(|_| gen_tree(rng, out, depth.saturating_sub(1))).collect()
}

fn gen_tree(rng: &mut Rng, out: &mut Out, depth: u32) -> S {
    if depth == 0 || rng.chance(1, 9) {
        return gen_leaf(rng, out);
    }
    let d = depth - 1;
    let sub = |rng: &mut Rng, out: &mut Out| Box::new(gen_tree(rng, out, d));
    let t = match rng.below(100) {
        0..=5 => S::Bin(BinOp::Add, rng.below(4), sub(rng, out), sub(rng, out)),
        6..=11 => S::Bin(BinOp::Sub, rng.below(4), sub(rng, out), sub(rng, out)),
        12..=18 => S::Bin(BinOp::Mul, rng.below(4), sub(rng, out), sub(rng, out)),
        19..=25 => S::Bin(BinOp::Div, rng.below(4), sub(rng, out), sub(rng, out)),
        26..=30 => S::Per(sub(rng, out), sub(rng, out)),
        31..=39 => {
            let l = sub(rng, out);
            let r = sub(rng, out);
            if juxtaposable(&l, &r) {
                S::IMul(l, r)
            } else {
                out.count("imul_not_juxtaposable_made_explicit");
                S::Bin(BinOp::Mul, rng.below(4), l, r)
            }
        }
        40..=47 => S::Bin(BinOp::Pow, rng.below(4), sub(rng, out), sub(rng, out)),
        48..=52 => S::UPow(sub(rng, out), {
            let k = 1 + rng.below(9) as i32;
            if rng.chance(1, 3) { -k } else { k }
        }),
        53..=58 => S::Neg(rng.below(2), sub(rng, out)),
        59..=60 => S::UPlus(sub(rng, out)),
        61..=64 => S::Fact(if rng.chance(1, 4) { 2 + rng.below(2) } else { 1 }, sub(rng, out)),
        65..=68 => S::Bin(BinOp::ConvertTo, rng.below(4), sub(rng, out), sub(rng, out)),
        69..=73 => {
            let op = *rng.pick(&[BinOp::Lt, BinOp::Gt, BinOp::Le, BinOp::Ge, BinOp::Eq, BinOp::Ne]);
            S::Bin(op, rng.below(4), sub(rng, out), sub(rng, out))
        }
        74..=76 => S::Bin(BinOp::And, 0, sub(rng, out), sub(rng, out)),
        77..=79 => S::Bin(BinOp::Or, 0, sub(rng, out), sub(rng, out)),
        80..=82 => S::Not(sub(rng, out)),
        83..=85 => {
            // conditionals nest without parentheses in both branches (`condition ::= if conversion then condition else condition`)
            let c = sub(rng, out);
            let mut t = sub(rng, out);
            let mut e = sub(rng, out);
            if rng.chance(1, 3) {
                t = Box::new(S::If(sub(rng, out), t, sub(rng, out)));
            }
            if rng.chance(1, 3) {
                e = Box::new(S::If(sub(rng, out), sub(rng, out), e));
            }
            S::If(c, t, e)
        }
        86..=89 => {
            let callee = if rng.chance(4, 5) { Box::new(S::Id(rng.pick(CALLEES).to_string())) } else { sub(rng, out) };
            S::Call(callee, gen_args(rng, out, d))
        }
        90..=91 => S::Field(sub(rng, out), rng.pick(FIELDS).to_string()),
        92..=93 => S::List(gen_args(rng, out, d)),
        94 => {
            let n = rng.below(3);
            S::Struct(rng.pick(STRUCTS).to_string(), (0..n).map(|_| (rng.pick(FIELDS).to_string(), gen_tree(rng, out, d))).collect())
        }
        95..=97 => {
            let target = if rng.chance(1, 2) {
                S::Id(rng.pick(CALLEES).to_string())
            } else {
                S::Call(Box::new(S::Id(rng.pick(CALLEES).to_string())), gen_args(rng, out, d))
            };
            S::Pipe(sub(rng, out), Box::new(target))
        }
        _ => S::Paren(sub(rng, out)),
    };
    t
}

/// wrap random subtrees in redundant parentheses
fn add_parens(rng: &mut Rng, s: &S, p: u32) -> S {
    let mut rec = |x: &S| Box::new(add_parens(rng, x, p));
    let t = match s {
        S::Neg(sp, x) => S::Neg(*sp, rec(x)),
        S::UPlus(x) => S::UPlus(rec(x)),
        S::Not(x) => S::Not(rec(x)),
        S::Fact(n, x) => S::Fact(*n, rec(x)),
        S::Bin(op, sp, l, r) => S::Bin(*op, *sp, rec(l), rec(r)),
        S::Per(l, r) => S::Per(rec(l), rec(r)),
        S::IMul(l, r) => {
            let (l2, r2) = (rec(l), rec(r));
            if juxtaposable(&l2, &r2) { S::IMul(l2, r2) } else { S::IMul(l.clone(), r.clone()) }
        }
        S::UPow(x, k) => S::UPow(rec(x), *k),
        S::Call(f, args) => S::Call(rec(f), args.iter().map(|a| *rec(a)).collect()),
        S::Field(x, n) => S::Field(rec(x), n.clone()),
        S::List(items) => S::List(items.iter().map(|a| *rec(a)).collect()),
        S::Struct(n, fs) => S::Struct(n.clone(), fs.iter().map(|(f, e)| (f.clone(), *rec(e))).collect()),
        S::If(c, t, e) => S::If(rec(c), rec(t), rec(e)),
        S::Paren(x) => S::Paren(rec(x)),
        S::Pipe(x, f) => S::Pipe(rec(x), f.clone()),
        leaf => leaf.clone(),
    };
    if rng.chance(p, 100) && !matches!(t, S::Pipe(..)) { S::Paren(Box::new(t)) } else { t }
}

fn children(s: &S) -> Vec<&S> {
    match s {
        S::Neg(_, x) | S::UPlus(x) | S::Not(x) | S::Fact(_, x) | S::UPow(x, _) | S::Field(x, _) | S::Paren(x) => vec![x],
        S::Bin(_, _, l, r) | S::Per(l, r) | S::IMul(l, r) | S::Pipe(l, r) => vec![l, r],
        S::Call(f, args) => {
            let mut v: Vec<&S> = vec![f];
            v.extend(args.iter());
            v
        }
        S::List(items) => items.iter().collect(),
        S::Struct(_, fs) => fs.iter().map(|(_, e)| e).collect(),
        S::If(c, t, e) => vec![c, t, e],
        _ => vec![],
    }
}

fn size(s: &S) -> usize {
    1 + children(s).iter().map(|c| size(c)).sum::<usize>()
}

fn with_child(s: &S, i: usize, new: S) -> S {
    let mut t = s.clone();
    {
        let slot: &mut S = match &mut t {
            S::Neg(_, x) | S::UPlus(x) | S::Not(x) | S::Fact(_, x) | S::UPow(x, _) | S::Field(x, _) | S::Paren(x) => &mut **x,
            S::Bin(_, _, l, r) | S::Per(l, r) | S::IMul(l, r) | S::Pipe(l, r) => if i == 0 { &mut **l } else { &mut **r },
            S::Call(f, args) => if i == 0 { &mut **f } else { &mut args[i - 1] },
            S::List(items) => &mut items[i],
            S::Struct(_, fs) => &mut fs[i].1,
            S::If(c, th, e) => match i { 0 => &mut **c, 1 => &mut **th, _ => &mut **e },
            _ => unreachable!(),
        };
        *slot = new;
    }
    t
}

/// a tree is admissible if every juxtaposition in it really is one and every pipe target is callable
fn admissible(s: &S) -> bool {
    let own = match s {
        S::IMul(l, r) => juxtaposable(l, r),
        S::Pipe(_, f) => matches!(&**f, S::Id(_) | S::Call(..)),
        _ => true,
    };
    own && children(s).iter().all(|c| admissible(c))
}

fn shrink_tree(s: &S, fails: &dyn Fn(&S) -> bool) -> S {
    let mut cur = s.clone();
    let mut budget = 400;
    'outer: while budget > 0 {
        budget -= 1;
        // a child instead of the whole tree
        for c in children(&cur) {
            if admissible(c) && fails(c) {
                cur = c.clone();
                continue 'outer;
            }
        }
        // a smaller child in place
        let n = children(&cur).len();
        for i in 0..n {
            let child = children(&cur)[i].clone();
            let mut cands: Vec<S> = children(&child).into_iter().cloned().collect();
            if size(&child) > 1 {
                cands.push(S::Id("x".into()));
                cands.push(S::Num("1".into(), 1f64.to_bits()));
            }
            for cand in cands {
                let t = with_child(&cur, i, cand);
                if admissible(&t) && fails(&t) {
                    cur = t;
                    continue 'outer;
                }
            }
        }
        // drop arguments / elements
        match &cur {
            S::Call(f, args) if !args.is_empty() => {
                for i in 0..args.len() {
                    let mut a = args.clone();
                    a.remove(i);
                    let t = S::Call(f.clone(), a);
                    if fails(&t) {
                        cur = t;
                        continue 'outer;
                    }
                }
            }
            S::List(items) if !items.is_empty() => {
                for i in 0..items.len() {
                    let mut a = items.clone();
                    a.remove(i);
                    let t = S::List(a);
                    if fails(&t) {
                        cur = t;
                        continue 'outer;
                    }
                }
            }
            _ => {}
        }
        break;
    }
    cur
}

// ------------------------------------------------------------------------------------------------ documented grammar (Earley)

#[derive(Clone, Debug, PartialEq)]
enum Sym {
    T(&'static str),
    N(&'static str),
}

struct Grammar {
    rules: Vec<(&'static str, Vec<Sym>)>,
}

/// The expression part of the BNF in the module documentation of numbat/src/parser.rs, as data.
/// Deviations from the literal text (all noted in notes/C10.md):
///  * `factor ::= per_factor ((*|/) per_factor)*` (the text's first operand `unary` would make `a per b * c` an
///    error, contradicting the precedence table of the book);
///  * `|>` is followed by a `call` (the book uses `x |> f(a)` throughout);
///  * `**`, `to`, `➞`, `−` … are token spellings, so they are not visible at this level;
///  * juxtaposition (`ifactor ::= power (" " power)*`): the juxtaposed `power` starts with a number, identifier,
///    `?` or `(` (the other primaries — strings, lists, booleans, based integers, NaN/inf — cannot be juxtaposed);
///  * a trailing comma is allowed in argument lists, list expressions and struct expressions.
fn grammar() -> Grammar {
    use Sym::{N, T};
    let mut r: Vec<(&'static str, Vec<Sym>)> = Vec::new();
    let mut add = |l: &'static str, rhs: Vec<Sym>| r.push((l, rhs));
    add("expression", vec![N("postfix_apply")]);
    add("postfix_apply", vec![N("condition")]);
    add("postfix_apply", vec![N("postfix_apply"), T("PostfixApply"), N("call")]);
    add("condition", vec![T("If"), N("conversion"), T("Then"), N("condition"), T("Else"), N("condition")]);
    add("condition", vec![N("conversion")]);
    add("conversion", vec![N("logical_or")]);
    add("conversion", vec![N("conversion"), T("Arrow"), N("logical_or")]);
    add("conversion", vec![N("conversion"), T("To"), N("logical_or")]);
    add("logical_or", vec![N("logical_and")]);
    add("logical_or", vec![N("logical_or"), T("LogicalOr"), N("logical_and")]);
    add("logical_and", vec![N("logical_neg")]);
    add("logical_and", vec![N("logical_and"), T("LogicalAnd"), N("logical_neg")]);
    add("logical_neg", vec![T("ExclamationMark"), N("logical_neg")]);
    add("logical_neg", vec![N("comparison")]);
    add("comparison", vec![N("term")]);
    for k in ["LessThan", "GreaterThan", "LessOrEqual", "GreaterOrEqual", "EqualEqual", "NotEqual"] {
        add("comparison", vec![N("comparison"), T(k), N("term")]);
    }
    add("term", vec![N("factor")]);
    add("term", vec![N("term"), T("Plus"), N("factor")]);
    add("term", vec![N("term"), T("Minus"), N("factor")]);
    add("factor", vec![N("per_factor")]);
    add("factor", vec![N("factor"), T("Multiply"), N("per_factor")]);
    add("factor", vec![N("factor"), T("Divide"), N("per_factor")]);
    add("per_factor", vec![N("unary")]);
    add("per_factor", vec![N("per_factor"), T("Per"), N("unary")]);
    add("unary", vec![T("Minus"), N("unary")]);
    add("unary", vec![T("Plus"), N("unary")]);
    add("unary", vec![N("ifactor")]);
    add("ifactor", vec![N("power")]);
    add("ifactor", vec![N("ifactor"), N("jpower")]);
    // the chain power … primary, and its copy whose first token is restricted (juxtaposed operand)
    for (pw, fa, up, ca, pr) in [("power", "factorial", "unicode_power", "call", "primary"), ("jpower", "jfactorial", "junicode_power", "jcall", "jprimary")] {
        add(pw, vec![N(fa)]);
        add(pw, vec![N(fa), T("Power"), N("power")]);
        add(pw, vec![N(fa), T("Power"), T("Minus"), N("power")]);
        add(fa, vec![N(up)]);
        add(fa, vec![N(fa), T("ExclamationMark")]);
        add(up, vec![N(ca)]);
        add(up, vec![N(ca), T("UnicodeExponent")]);
        add(ca, vec![N(pr)]);
        add(ca, vec![N(ca), T("LeftParen"), T("RightParen")]);
        add(ca, vec![N(ca), T("LeftParen"), N("arguments"), T("RightParen")]);
        add(ca, vec![N(ca), T("LeftParen"), N("arguments"), T("Comma"), T("RightParen")]);
        add(ca, vec![N(ca), T("Period"), T("Identifier")]);
        add(pr, vec![T("Number")]);
        add(pr, vec![T("Identifier")]);
        add(pr, vec![T("Identifier"), N("struct_expr")]);
        add(pr, vec![T("QuestionMark")]);
        add(pr, vec![T("LeftParen"), N("expression"), T("RightParen")]);
    }
    for k in ["True", "False", "StringFixed", "IntegerWithBase16", "IntegerWithBase8", "IntegerWithBase2", "NaN", "Inf"] {
        add("primary", vec![T(k)]);
    }
    add("primary", vec![N("list_expr")]);
    add("arguments", vec![N("expression")]);
    add("arguments", vec![N("arguments"), T("Comma"), N("expression")]);
    add("list_expr", vec![T("LeftBracket"), T("RightBracket")]);
    add("list_expr", vec![T("LeftBracket"), N("arguments"), T("RightBracket")]);
    add("list_expr", vec![T("LeftBracket"), N("arguments"), T("Comma"), T("RightBracket")]);
    add("struct_expr", vec![T("LeftCurly"), T("RightCurly")]);
    add("struct_expr", vec![T("LeftCurly"), N("fields"), T("RightCurly")]);
    add("struct_expr", vec![T("LeftCurly"), N("fields"), T("Comma"), T("RightCurly")]);
    add("fields", vec![N("field")]);
    add("fields", vec![N("fields"), T("Comma"), N("field")]);
    add("field", vec![T("Identifier"), T("Colon"), N("expression")]);
    Grammar { rules: r }
}

/// Earley recogniser (no nullable rules in this grammar): is `kinds` a sentence of `start`?
fn earley(g: &Grammar, start: &'static str, kinds: &[&str]) -> bool {
    // item = (rule, dot, origin)
    let n = kinds.len();
    let mut sets: Vec<Vec<(usize, usize, usize)>> = vec![Vec::new(); n + 1];
    let push = |set: &mut Vec<(usize, usize, usize)>, it: (usize, usize, usize)| {
        if !set.contains(&it) {
            set.push(it);
        }
    };
    for (ri, (l, _)) in g.rules.iter().enumerate() {
        if *l == start {
            push(&mut sets[0], (ri, 0, 0));
        }
    }
    for i in 0..=n {
        let mut j = 0;
        while j < sets[i].len() {
            let (ri, dot, origin) = sets[i][j];
            j += 1;
            let rhs = &g.rules[ri].1;
            if dot < rhs.len() {
                match &rhs[dot] {
                    Sym::N(nt) => {
                        for (rj, (l, _)) in g.rules.iter().enumerate() {
                            if l == nt {
                                let it = (rj, 0, i);
                                if !sets[i].contains(&it) {
                                    sets[i].push(it);
                                }
                            }
                        }
                    }
                    Sym::T(t) => {
                        if i < n && kinds[i] == *t {
                            let it = (ri, dot + 1, origin);
                            if !sets[i + 1].contains(&it) {
                                sets[i + 1].push(it);
                            }
                        }
                    }
                }
            } else {
                let lhs = g.rules[ri].0;
                let mut k = 0;
                while k < sets[origin].len() {
                    let (rk, dk, ok) = sets[origin][k];
                    k += 1;
                    let rhs2 = &g.rules[rk].1;
                    if dk < rhs2.len() && rhs2[dk] == Sym::N(lhs) {
                        let it = (rk, dk + 1, ok);
                        if !sets[i].contains(&it) {
                            sets[i].push(it);
                        }
                    }
                }
            }
        }
    }
    sets[n].iter().any(|(ri, dot, origin)| g.rules[*ri].0 == start && *dot == g.rules[*ri].1.len() && *origin == 0)
}

// ------------------------------------------------------------------------------------------------ running the real code

fn enc_input(src: &str) -> String {
    let mut parts = Vec::new();
    for c in src.chars() {
        let mut p = format!("{:x}", c as u32);
        if !c.is_ascii() {
            let (s, k) = (hook::is_xid_start(c), hook::is_xid_continue(c));
            p.push_str(match (s, k) {
                (true, true) => ":b",
                (true, false) => ":s",
                (false, true) => ":c",
                _ => "",
            });
        }
        parts.push(p);
    }
    parts.join(" ")
}

fn esc(src: &str) -> String {
    src.replace('\\', "\\\\").replace('\n', "\\n").replace('\t', "\\t").replace('\r', "\\r")
}

fn unesc(s: &str) -> String {
    let mut o = String::new();
    let mut it = s.chars();
    while let Some(c) = it.next() {
        if c == '\\' {
            match it.next() {
                Some('n') => o.push('\n'),
                Some('t') => o.push('\t'),
                Some('r') => o.push('\r'),
                Some('\\') => o.push('\\'),
                Some(x) => {
                    o.push('\\');
                    o.push(x)
                }
                None => o.push('\\'),
            }
        } else {
            o.push(c);
        }
    }
    o
}

struct Real {
    /// `ok Kind:hex …` or `err || Name`
    tok_line: String,
    kinds: Option<Vec<(String, String)>>,
    /// `ok (expr …) …` or `err || names`
    parse_line: String,
    accepted: bool,
    errors: Vec<String>,
}

fn run_real(src: &str) -> Result<Real, String> {
    let s = src.to_string();
    catch(move || {
        let toks = hook::tokens(&s);
        let tok_line = match &toks {
            Ok(ts) => format!("ok {}", ts.iter().map(|(k, l)| format!("{}:{}", k, hook::hex_text(l))).collect::<Vec<_>>().join(" ")),
            Err(e) => format!("err || {}", e),
        };
        let p = hook::parse(&s);
        let (parse_line, accepted, errors) = match p {
            hook::Parsed::Ok(stmts) => (format!("ok {}", stmts.join(" ")), true, vec![]),
            hook::Parsed::Err(_, errs) => (format!("err || {}", errs.join(" ")), false, errs),
        };
        Real { tok_line, kinds: toks.ok(), parse_line, accepted, errors }
    })
}

/// statement-level and string-interpolation syntax is outside the Lean parser model (the tokenizer model covers it)
fn parser_model_scope(real: &Real) -> bool {
    match &real.kinds {
        None => true,
        Some(ks) => !ks.iter().any(|(k, _)| {
            matches!(
                k.as_str(),
                "Let" | "Fn" | "Dimension" | "Unit" | "Use" | "Struct" | "At" | "StringInterpolationStart" | "StringInterpolationMiddle"
                    | "StringInterpolationEnd" | "StringInterpolationSpecifiers"
            )
        }),
    }
}

fn emit_lines(out: &mut Out, src: &str, real: &Result<Real, String>) {
    let e = enc_input(src);
    match real {
        Ok(r) => {
            out.line(&format!("tok {}", e), &r.tok_line);
            if parser_model_scope(r) {
                out.line(&format!("parse {}", e), &r.parse_line);
            } else {
                out.count("parse_outside_model_scope");
            }
        }
        Err(p) => {
            out.line(&format!("tok {}", e), &format!("panic {}", p));
        }
    }
}

/// error kinds that reject an input for a reason other than its shape (allowed when the grammar accepts)
fn semantic_rejection(errors: &[String]) -> bool {
    errors.iter().all(|e| matches!(e.as_str(), "OverflowInNumberLiteral" | "ExpectedIdentifierOrCallAfterPostfixApply"))
}

fn tree_case(rng: &mut Rng, out: &mut Out, tree: &S, style: u8, count: bool) {
    let mut toks = Vec::new();
    render(tree, POSTFIX, &mut toks);
    let src = join(rng, &toks, style);
    let want = format!("ok (expr {})", expect(tree));
    let real = run_real(&src);
    emit_lines(out, &src, &real);
    if count {
        out.case(&src, size(tree) >= 3);
        out.count(&format!("tree_size_{}", match size(tree) { 1 => "1", 2..=3 => "2-3", 4..=7 => "4-7", 8..=15 => "8-15", _ => "16+" }));
    }
    let fails = |t: &S| -> Option<String> {
        let mut tk = Vec::new();
        render(t, POSTFIX, &mut tk);
        // shrinking re-renders conventionally spaced
        let mut r2 = Rng::new(7);
        let s2 = join(&mut r2, &tk, 1);
        match run_real(&s2) {
            Err(p) => Some(format!("panic: {}", p)),
            Ok(r) => {
                let w = format!("ok (expr {})", expect(t));
                if r.parse_line != w { Some(format!("parsed as `{}`, documented reading is `{}`", r.parse_line, w)) } else { None }
            }
        }
    };
    match &real {
        Err(p) => {
            out.oracle_fail(&format!("panic:{}", esc(&src)), &format!("src {}", esc(&src)), &format!("the parser panicked: {}", p));
        }
        Ok(r) => {
            if r.parse_line != want {
                // shrink structurally; fall back to the original text if the shrunk rendering no longer fails
                let small = shrink_tree(tree, &|t| fails(t).is_some());
                let (s_src, s_want, what) = match fails(&small) {
                    Some(w) => {
                        let mut tk = Vec::new();
                        render(&small, POSTFIX, &mut tk);
                        let mut r2 = Rng::new(7);
                        (join(&mut r2, &tk, 1), format!("ok (expr {})", expect(&small)), w)
                    }
                    None => (src.clone(), want.clone(), format!("parsed as `{}`, documented reading is `{}`", r.parse_line, want)),
                };
                out.oracle_fail(
                    &format!("tree:{}", esc(&s_src)),
                    &format!("tree {} => {}", esc(&s_src), s_want.trim_start_matches("ok ")),
                    &format!("`{}` {}", s_src, what),
                );
            }
            // token oracle: the tokens that were written are the tokens that are read
            let intended: Vec<(String, String)> = toks.iter().map(|t| (t.kind.to_string(), t.text.clone())).chain(std::iter::once(("Eof".to_string(), String::new()))).collect();
            if r.kinds.as_ref() != Some(&intended) {
                let got = r.tok_line.clone();
                out.oracle_fail(
                    &format!("tokens:{}", esc(&src)),
                    &format!("tree {} => {}", esc(&src), want.trim_start_matches("ok ")),
                    &format!("`{}` was written as the tokens {:?} but read as {}", src, toks.iter().map(|t| t.text.as_str()).collect::<Vec<_>>(), got),
                );
            }
        }
    }
}

// ------------------------------------------------------------------------------------------------ soup

fn vocabulary() -> Vec<Tok> {
    let mut v = Vec::new();
    for op in [BinOp::Add, BinOp::Sub, BinOp::Mul, BinOp::Div, BinOp::Pow, BinOp::ConvertTo, BinOp::Lt, BinOp::Gt, BinOp::Le, BinOp::Ge, BinOp::Eq, BinOp::Ne, BinOp::And, BinOp::Or] {
        for s in op.spellings() {
            v.push(tok(s, op.kind(s)));
        }
    }
    for (t, k) in [
        ("(", "LeftParen"), (")", "RightParen"), ("(", "LeftParen"), (")", "RightParen"), ("[", "LeftBracket"), ("]", "RightBracket"),
        (",", "Comma"), ("!", "ExclamationMark"), ("!", "ExclamationMark"), ("per", "Per"), ("if", "If"), ("then", "Then"), ("else", "Else"),
        ("|>", "PostfixApply"), ("?", "QuestionMark"), ("true", "True"), ("false", "False"), ("NaN", "NaN"), ("inf", "Inf"),
        ("²", "UnicodeExponent"), ("⁻¹", "UnicodeExponent"), ("³", "UnicodeExponent"), ("{", "LeftCurly"), ("}", "RightCurly"), (":", "Colon"),
        ("\"s\"", "StringFixed"), ("0x1F", "IntegerWithBase16"), ("0b101", "IntegerWithBase2"), ("0o17", "IntegerWithBase8"),
        ("1", "Number"), ("2", "Number"), ("2.5", "Number"), ("1e3", "Number"), ("1_000", "Number"), (".5", "Number"),
        ("a", "Identifier"), ("b", "Identifier"), ("x", "Identifier"), ("f", "Identifier"), ("m", "Identifier"), ("kg", "Identifier"), ("π", "Identifier"), ("°", "Identifier"),
        ("1", "Number"), ("x", "Identifier"), ("a", "Identifier"), ("2", "Number"),
    ] {
        v.push(tok(t, k));
    }
    v
}

fn curly_balanced(toks: &[Tok]) -> bool {
    // the tokenizer itself rejects an unmatched `}`; keep soup inside what reaches the parser most of the time
    let mut d = 0i32;
    for t in toks {
        if t.kind == "LeftCurly" {
            d += 1
        }
        if t.kind == "RightCurly" {
            d -= 1;
            if d < 0 {
                return false;
            }
        }
    }
    true
}

/// text of a token sequence: one blank between tokens, except `.` which must touch its identifier
fn soup_text(toks: &[Tok]) -> String {
    let mut s = String::new();
    for (i, t) in toks.iter().enumerate() {
        if i > 0 && toks[i - 1].kind != "Period" {
            s.push(' ');
        }
        s.push_str(&t.text);
    }
    s
}

fn soup_verdict(g: &Grammar, toks: &[Tok], real: &Real) -> Option<String> {
    let kinds: Vec<&str> = toks.iter().map(|t| t.kind).collect();
    // a `.` not followed by an identifier does not lex as Period; such soups are only compared with the model
    for (i, t) in toks.iter().enumerate() {
        if t.kind == "Period" && toks.get(i + 1).map(|n| n.kind) != Some("Identifier") {
            return None;
        }
    }
    if !curly_balanced(toks) {
        return None;
    }
    let member = !kinds.is_empty() && earley(g, "expression", &kinds);
    if member && !real.accepted && !semantic_rejection(&real.errors) {
        return Some(format!("is in the documented grammar but was rejected ({})", real.errors.join(" ")));
    }
    if !member && real.accepted && !kinds.is_empty() {
        return Some(format!("is outside the documented grammar but was accepted as `{}`", real.parse_line));
    }
    None
}

fn soup_case(out: &mut Out, g: &Grammar, toks: &[Tok], count: bool, origin: &str) {
    let src = soup_text(toks);
    let real = run_real(&src);
    emit_lines(out, &src, &real);
    let kinds: Vec<&str> = toks.iter().map(|t| t.kind).collect();
    let member = !kinds.is_empty() && earley(g, "expression", &kinds);
    if count {
        out.case(&src, toks.len() >= 2);
        out.count(&format!("{}_{}", origin, if member { "in_grammar" } else { "outside_grammar" }));
        if let Ok(r) = &real {
            for e in r.errors.iter().take(1) {
                out.count(&format!("reject_{}", e));
            }
        }
    }
    match &real {
        Err(p) => out.oracle_fail(&format!("panic:{}", esc(&src)), &format!("src {}", esc(&src)), &format!("the parser panicked: {}", p)),
        Ok(r) => {
            if soup_verdict(g, toks, r).is_some() {
                let small = shrink_seq(toks, |c| match run_real(&soup_text(c)) {
                    Ok(rr) => soup_verdict(g, c, &rr).is_some(),
                    Err(_) => false,
                });
                let s2 = soup_text(&small);
                let r2 = run_real(&s2).ok();
                let what = r2.as_ref().and_then(|rr| soup_verdict(g, &small, rr)).unwrap_or_default();
                let kinds2: Vec<&str> = small.iter().map(|t| t.kind).collect();
                let member2 = earley(g, "expression", &kinds2);
                out.oracle_fail(
                    &format!("soup:{}", esc(&s2)),
                    &format!("{} {}", if member2 { "accept" } else { "reject" }, esc(&s2)),
                    &format!("`{}` {}", s2, what),
                );
            }
        }
    }
}

fn mutate(rng: &mut Rng, vocab: &[Tok], toks: &mut Vec<Tok>) {
    if toks.is_empty() {
        toks.push(rng.pick(vocab).clone());
        return;
    }
    let i = rng.below(toks.len());
    match rng.below(5) {
        0 => {
            toks.remove(i);
        }
        1 => {
            let t = toks[i].clone();
            toks.insert(i, t);
        }
        2 => {
            if i + 1 < toks.len() {
                toks.swap(i, i + 1);
            }
        }
        3 => toks[i] = rng.pick(vocab).clone(),
        _ => toks.insert(i, rng.pick(vocab).clone()),
    }
}

// ------------------------------------------------------------------------------------------------ corpus / replay lines

/// `tree <src> => <sexpr>` | `accept <src>` | `reject <src>` | `src <src>`
fn run_line(out: &mut Out, line: &str) {
    let line = line.trim_end_matches(['\r', '\n']);
    if line.is_empty() || line.starts_with('#') {
        return;
    }
    let (cmd, rest) = match line.split_once(' ') {
        Some(x) => x,
        None => (line, ""),
    };
    match cmd {
        "tree" => {
            let (src, want) = match rest.rsplit_once(" => ") {
                Some(x) => x,
                None => return,
            };
            let src = unesc(src);
            let real = run_real(&src);
            emit_lines(out, &src, &real);
            out.case(&src, true);
            out.count("corpus_tree");
            match real {
                Err(p) => out.oracle_fail(&format!("panic:{}", esc(&src)), &format!("src {}", esc(&src)), &format!("the parser panicked: {}", p)),
                Ok(r) => {
                    let w = format!("ok {}", want);
                    if r.parse_line != w {
                        out.oracle_fail(&format!("tree:{}", esc(&src)), line, &format!("`{}` parsed as `{}`, documented reading is `{}`", src, r.parse_line, w));
                    }
                }
            }
        }
        "accept" | "reject" => {
            let src = unesc(rest);
            let real = run_real(&src);
            emit_lines(out, &src, &real);
            out.case(&src, true);
            out.count(if cmd == "accept" { "corpus_accept" } else { "corpus_reject" });
            match real {
                Err(p) => out.oracle_fail(&format!("panic:{}", esc(&src)), &format!("src {}", esc(&src)), &format!("the parser panicked: {}", p)),
                Ok(r) => {
                    if cmd == "accept" && !r.accepted && !semantic_rejection(&r.errors) {
                        out.oracle_fail(&format!("soup:{}", esc(&src)), line, &format!("`{}` is in the documented grammar but was rejected ({})", src, r.errors.join(" ")));
                    }
                    if cmd == "reject" && r.accepted {
                        out.oracle_fail(&format!("soup:{}", esc(&src)), line, &format!("`{}` is outside the documented grammar but was accepted as `{}`", src, r.parse_line));
                    }
                }
            }
        }
        "src" => {
            let src = unesc(rest);
            let real = run_real(&src);
            emit_lines(out, &src, &real);
            out.case(&src, true);
            out.count("corpus_src");
            if let Err(p) = real {
                out.oracle_fail(&format!("panic:{}", esc(&src)), &format!("src {}", esc(&src)), &format!("the parser panicked: {}", p));
            }
        }
        _ => {}
    }
}

/// character classes: model vs tokenizer on a sweep of code points
fn class_sweep(out: &mut Out, rng: &mut Rng, n: usize) {
    let mut cps: Vec<u32> = Vec::new();
    cps.extend(0x20..0x7f);
    cps.extend(0xa0..0x100);
    cps.extend(0x2070..0x20d0); // superscripts, subscripts, currency
    cps.extend(0x2150..0x2190); // number forms
    cps.extend([0x2190, 0x2192, 0x2212, 0x2264, 0x2265, 0x2260, 0x279e, 0x2a75, 0x22c5, 0x00b7, 0x2032, 0x2033, 0x2030, 0x0e3f, 0x209c, 0x209d, 0x209cf, 0x20a0, 0x20cf, 0x20d0]);
    for _ in 0..n {
        cps.push(match rng.below(4) {
            0 => rng.below(0x3000) as u32,
            1 => 0x2000 + rng.below(0x1000) as u32,
            2 => rng.below(0x11000) as u32,
            _ => 0x370 + rng.below(0x400) as u32,
        });
    }
    for chunk in cps.chunks(64) {
        let cs: String = chunk.iter().filter_map(|c| char::from_u32(*c)).collect();
        let ans: String = cs
            .chars()
            .map(|c| {
                let (s, k) = hook::identifier_char_class(c);
                match (s, k) {
                    (true, true) => 'b',
                    (true, false) => 's',
                    (false, true) => 'c',
                    _ => '-',
                }
            })
            .collect();
        out.line(&format!("cls {}", enc_input(&cs)), &ans);
        out.count_n("char_class_queries", cs.chars().count() as u64);
    }
}

fn count_nodes(out: &mut Out, s: &S, parent: Option<&S>, pairs: &mut std::collections::BTreeSet<(u8, u8)>) {
    out.count(&format!("node_{}", node_name(s)));
    if let Some(p) = parent {
        pairs.insert((prec(p), prec(s)));
    }
    if let S::Bin(op, sp, ..) = s {
        let spell = op.spellings()[*sp % op.spellings().len()];
        if !spell.is_ascii() {
            out.count("unicode_operator_spellings");
        }
    }
    for c in children(s) {
        count_nodes(out, c, Some(s), pairs);
    }
}

fn main() {
    let args = Args::parse();
    let mut out = Out::new(&args);
    out.rule = "tree: random surface trees (depth <= 5) over every documented operator and spelling, literals, calls, fields, lists, structs, if, |>, redundant parentheses, unary plus; rendered with the minimal parentheses of the documented table and tight / conventional / random white space; distinct = distinct source text; non-trivial = at least 3 nodes. soup: random token sequences (1..8 tokens) and 1-3 token mutations of rendered trees, classified by an Earley recogniser of the documented BNF; non-trivial = at least 2 tokens. lex: 1..7 lexical atoms glued without blanks (number/identifier/string/interpolation/comment edge cases; model correspondence + no panic). multi: 1..3 statements / procedure calls with separators and newlines inside brackets (model correspondence + no panic).".into();
    let g = grammar();

    if let Some(p) = &args.replay {
        for l in read_lines(p) {
            run_line(&mut out, &l);
        }
        out.finish();
        return;
    }

    if let Some(dir) = args.extra.get("corpus") {
        let mut files: Vec<_> = std::fs::read_dir(dir).map(|d| d.filter_map(|e| e.ok()).map(|e| e.path()).collect()).unwrap_or_default();
        files.sort();
        for f in files {
            for l in read_lines(&f) {
                run_line(&mut out, &l);
            }
        }
    }

    let mut rng = Rng::new(args.seed);
    let mut pairs = std::collections::BTreeSet::new();

    // character classes
    class_sweep(&mut out, &mut rng, if args.tier == "quick" { 2000 } else { 40000 });

    // trees
    let n_tree = args.count(4000, 200_000);
    for i in 0..n_tree {
        let depth = 1 + (i % 5) as u32;
        let base = gen_tree(&mut rng, &mut out, depth);
        let tree = if i % 3 == 2 { add_parens(&mut rng, &base, 15) } else { base };
        if !admissible(&tree) {
            out.count("tree_not_admissible_skipped");
            continue;
        }
        count_nodes(&mut out, &tree, None, &mut pairs);
        let style = (i % 4).min(2) as u8;
        out.count(&format!("whitespace_style_{}", ["tight", "conventional", "random"][style as usize]));
        tree_case(&mut rng, &mut out, &tree, style, true);
    }
    // which (parent level, child level) pairs were exercised
    let mut missing = Vec::new();
    for p in 0..17u8 {
        for c in 0..17u8 {
            if p <= CALL && p != PRIMARY && !pairs.contains(&(p, c)) {
                missing.push(format!("{}>{}", LEVEL_NAMES[p as usize], LEVEL_NAMES[c as usize]));
            }
        }
    }
    out.extra.insert("level_pairs_covered".into(), format!("{} of {}", pairs.len(), 17 * 17));
    out.extra.insert("level_pairs_missing".into(), missing.join(" "));

    // soup
    let vocab = vocabulary();
    let n_soup = args.count(4000, 200_000);
    for i in 0..n_soup {
        if i % 2 == 0 {
            let len = 1 + rng.below(8);
            let toks: Vec<Tok> = (0..len).map(|_| rng.pick(&vocab).clone()).collect();
            soup_case(&mut out, &g, &toks, true, "soup_random");
        } else {
            let tree = gen_tree(&mut rng, &mut out, 1 + (i % 4) as u32);
            if !admissible(&tree) {
                continue;
            }
            let mut toks = Vec::new();
            render(&tree, POSTFIX, &mut toks);
            let k = 1 + rng.below(3);
            for _ in 0..k {
                mutate(&mut rng, &vocab, &mut toks);
            }
            // lexically awkward neighbours are left to the tree stream: soups are blank-separated
            soup_case(&mut out, &g, &toks, true, "soup_mutated");
        }
    }

    // lexical soup: atoms glued together without separators (numbers, strings, interpolation, comments, scopes)
    let atoms: Vec<&str> = vec![
        "0", "1", "2", "7", "8", "9", "_", ".", "..", "...", "…", "e", "E", "+", "-", "x", "o", "b", "f", "F", "0x", "0o", "0b", "1e", "1_", "1.", ".5",
        "a", "m", "kg", "a.", ".b", "x₂", "₂", "ₜ", "m→", "→", "➞", "≤", "≥", "≠", "⩵", "−", "·", "⋅", "×", "÷", "⁻", "²", "⁻¹", "¹", "½", "⅞", "%", "‰", "$", "€", "฿", "°", "′", "″",
        "\"", "{", "}", "{{", "}}", ":", "::", "\\", "\\\"", "\\n", "\"a{", "}b\"", "}{", ":.2f", "\"s\"",
        "#c", "#", "\n", " ", "\t", "\r", ";", "per", "to", "let", "fn", "unit", "use", "struct", "dimension", "NaN", "inf", "true", "if", "then", "else", "print", "assert_eq", "type", "Bool", "where", "and", "long", "short", "both", "none", "false", "assert", "String", "DateTime", "Fn", "List", "@", "?", "=",
        "==", "!=", "!", "&", "&&", "|", "||", "|>", "*", "**", "^", "<", "<=", ">", ">=", "->", "/", ",", "(", ")", "[", "]", "π", "µ", "Ω", "ℓ", "ⅹ", "٣", "᠐", "\u{200b}", "\u{feff}", "\u{a0}", "\u{301}",
    ];
    let n_lex = args.count(3000, 150_000);
    for _ in 0..n_lex {
        let len = 1 + rng.below(7);
        let src: String = (0..len).map(|_| *rng.pick(&atoms)).collect();
        let real = run_real(&src);
        emit_lines(&mut out, &src, &real);
        out.case(&src, src.chars().count() >= 2);
        match &real {
            Err(p) => out.oracle_fail(&format!("panic:{}", esc(&src)), &format!("src {}", esc(&src)), &format!("the parser panicked: {}", p)),
            Ok(r) => {
                out.count(if r.kinds.is_some() { "lex_tokenized" } else { "lex_tokenizer_error" });
                if let Some(e) = r.tok_line.strip_prefix("err || ") {
                    out.count(&format!("lex_error_{}", e));
                }
            }
        }
    }

    // every ordered pair of documented operator lexemes glued together between two operands (exhaustive, both tiers).
    // Oracle independent of the model: the documented lexemes are matched longest-first (`-` `>` glued is the
    // documented `->`, `*` `*` is `**`, …); any other fusion or split is a token the documentation does not know.
    {
        let documented: &[(&str, &str)] = &[
            ("+", "Plus"), ("-", "Minus"), ("−", "Minus"), ("*", "Multiply"), ("·", "Multiply"), ("⋅", "Multiply"), ("×", "Multiply"),
            ("/", "Divide"), ("÷", "Divide"), ("^", "Power"), ("**", "Power"), ("->", "Arrow"), ("→", "Arrow"), ("➞", "Arrow"),
            ("<", "LessThan"), (">", "GreaterThan"), ("<=", "LessOrEqual"), ("≤", "LessOrEqual"), (">=", "GreaterOrEqual"), ("≥", "GreaterOrEqual"),
            ("==", "EqualEqual"), ("⩵", "EqualEqual"), ("!=", "NotEqual"), ("≠", "NotEqual"), ("&&", "LogicalAnd"), ("||", "LogicalOr"),
            ("|>", "PostfixApply"), ("!", "ExclamationMark"), ("=", "Equal"), (",", "Comma"), ("(", "LeftParen"), (")", "RightParen"),
        ];
        let munch = |text: &str| -> Vec<&'static str> {
            let mut kinds = Vec::new();
            let mut rest = text;
            while !rest.is_empty() {
                let mut best: Option<(&str, &'static str)> = None;
                for (lx, k) in documented {
                    if rest.starts_with(lx) && best.map(|b| lx.len() > b.0.len()).unwrap_or(true) {
                        best = Some((lx, k));
                    }
                }
                match best {
                    Some((lx, k)) => { kinds.push(k); rest = &rest[lx.len()..]; }
                    None => { kinds.push("?"); break; }
                }
            }
            kinds
        };
        let mut n_pairs = 0u64;
        for (l1, _) in documented {
            for (l2, _) in documented {
                let glued = format!("{}{}", l1, l2);
                let src = format!("a {} b", glued);
                let real = run_real(&src);
                emit_lines(&mut out, &src, &real);
                out.case(&src, true);
                n_pairs += 1;
                if let Ok(r) = &real {
                    if let Some(kinds) = &r.kinds {
                        let mid: Vec<String> = if kinds.len() >= 3 { kinds[1..kinds.len() - 2].iter().map(|k| k.0.clone()).collect() } else { vec![] };
                        let want: Vec<String> = munch(&glued).iter().map(|k| k.to_string()).collect();
                        if mid != want {
                            out.oracle_fail(&format!("glue:{}", esc(&src)), &format!("src {}", esc(&src)), &format!("`{}` between two operands is lexed as {:?}; the documented lexemes give {:?}", glued, mid, want));
                        }
                    }
                }
            }
        }
        out.count_n("glued_operator_pairs", n_pairs);
    }

    // several statements, newlines where the parser skips them, procedure calls (correspondence with the model only)
    let n_multi = args.count(1000, 50_000);
    for _ in 0..n_multi {
        let k = 1 + rng.below(3);
        let mut src = String::new();
        for j in 0..k {
            if j > 0 {
                src.push_str(*rng.pick(&["; ", "\n", "\n\n", " ;", "\n  ", ";;", " = ", " "]));
            }
            let dd = 1 + rng.below(3) as u32;
            let tree = gen_tree(&mut rng, &mut out, dd);
            if !admissible(&tree) {
                continue;
            }
            let mut toks = Vec::new();
            render(&tree, POSTFIX, &mut toks);
            let mut piece = String::new();
            if rng.chance(1, 5) {
                piece.push_str(*rng.pick(&["print(", "assert_eq(", "assert(", "type(", "print (", "print"]));
            }
            for (i, t) in toks.iter().enumerate() {
                if i > 0 && toks[i - 1].kind != "Period" {
                    let prev = toks[i - 1].kind;
                    let nl_ok = matches!(prev, "LeftParen" | "LeftBracket" | "Comma" | "Then" | "Else" | "LeftCurly" | "Colon" | "PostfixApply")
                        || matches!(t.kind, "Then" | "Else" | "RightBracket" | "RightCurly");
                    if rng.chance(1, 4) && (nl_ok || rng.chance(1, 10)) {
                        piece.push('\n');
                    } else {
                        piece.push(' ');
                    }
                }
                piece.push_str(&t.text);
            }
            if piece.starts_with("print(") || piece.starts_with("assert") || piece.starts_with("type(") || piece.starts_with("print (") {
                if rng.chance(1, 3) {
                    piece.push_str(", 1");
                }
                if rng.chance(9, 10) {
                    piece.push(')');
                }
            }
            if rng.chance(1, 12) {
                piece.push_str(" # comment");
            }
            src.push_str(&piece);
        }
        if rng.chance(1, 6) {
            src.push('\n');
        }
        let real = run_real(&src);
        emit_lines(&mut out, &src, &real);
        out.case(&src, true);
        match &real {
            Err(p) => out.oracle_fail(&format!("panic:{}", esc(&src)), &format!("src {}", esc(&src)), &format!("the parser panicked: {}", p)),
            Ok(r) => out.count(if r.accepted { "multi_accepted" } else { "multi_rejected" }),
        }
    }
    out.finish();
}
