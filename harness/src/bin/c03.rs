//! C03 — quantity arithmetic agrees with dimensional analysis of unit definitions.
//!
//! Type-directed random expression trees over numbers, all prelude units in any alias spelling and accepted
//! prefix, `+ - * /`, negation and powers.  The tree is given to the *real interpreter* as source text
//! (`let r = <expr>`), the raw value of `r` is read back (hook) and must equal, bit for bit, what the Lean
//! model computes for the same tree (`eval <sexpr>`).  Oracle independent of the model: the tree's value by
//! plain dimensional arithmetic from the units' direct definitions (f64 with a propagated error bound), and
//! its dimension by exponent vectors.

use numbat::resolver::CodeSource;
use numbat::verif::c03::{show_quantity, FactorDesc};
use nvh::qty::*;
use nvh::*;
use std::collections::BTreeMap;

#[derive(Clone, Debug)]
enum E {
    Num(f64),
    Unit(usize, (bool, i32), String), // row, prefix, spelling
    Neg(Box<E>),
    Add(Box<E>, Box<E>),
    Sub(Box<E>, Box<E>),
    Mul(Box<E>, Box<E>),
    Div(Box<E>, Box<E>),
    Pow(Box<E>, i128, i128),
}

type Dim = BTreeMap<String, (i128, i128)>;

fn gcd(a: i128, b: i128) -> i128 { if b == 0 { a.abs() } else { gcd(b, a % b) } }
fn radd(a: (i128, i128), b: (i128, i128)) -> (i128, i128) {
    let (n, d) = (a.0 * b.1 + b.0 * a.1, a.1 * b.1);
    let g = gcd(n, d).max(1);
    (n / g, d / g)
}
fn rmul(a: (i128, i128), b: (i128, i128)) -> (i128, i128) {
    let (mut n, mut d) = (a.0 * b.0, a.1 * b.1);
    if d < 0 { n = -n; d = -d; }
    let g = gcd(n, d).max(1);
    (n / g, d / g)
}
fn dim_mul(a: &Dim, b: &Dim, sign: i128) -> Dim {
    let mut m = a.clone();
    for (k, v) in b {
        let e = m.entry(k.clone()).or_insert((0, 1));
        *e = radd(*e, (v.0 * sign, v.1));
    }
    m.retain(|_, v| v.0 != 0);
    m
}

impl E {
    fn src(&self) -> String {
        match self {
            E::Num(v) => num_src(*v),
            E::Unit(_, _, s) => s.clone(),
            E::Neg(a) => format!("(-{})", a.src()),
            E::Add(a, b) => format!("({} + {})", a.src(), b.src()),
            E::Sub(a, b) => format!("({} - {})", a.src(), b.src()),
            E::Mul(a, b) => format!("({} * {})", a.src(), b.src()),
            E::Div(a, b) => format!("({} / {})", a.src(), b.src()),
            E::Pow(a, n, d) => if *d == 1 { format!("({}^({}))", a.src(), n) } else { format!("({}^({}/{}))", a.src(), n, d) },
        }
    }
    fn sexpr(&self, units: &Units) -> String {
        match self {
            E::Num(v) => format!("(num {})", fb(*v)),
            E::Unit(i, p, _) => format!("(unit {}:{}{}:1/1)", units.rows[*i].name, if p.0 { "b" } else { "m" }, p.1),
            E::Neg(a) => format!("(neg {})", a.sexpr(units)),
            E::Add(a, b) => format!("(add {} {})", a.sexpr(units), b.sexpr(units)),
            E::Sub(a, b) => format!("(sub {} {})", a.sexpr(units), b.sexpr(units)),
            E::Mul(a, b) => format!("(mul {} {})", a.sexpr(units), b.sexpr(units)),
            E::Div(a, b) => format!("(div {} {})", a.sexpr(units), b.sexpr(units)),
            E::Pow(a, n, d) => format!("(pow {} {}/{})", a.sexpr(units), n, d),
        }
    }
    /// all trees obtained by replacing one subtree by one of its children
    fn reductions(&self) -> Vec<E> {
        let mut v = Vec::new();
        match self {
            E::Num(_) | E::Unit(..) => {}
            E::Neg(a) | E::Pow(a, _, _) => {
                v.push((**a).clone());
                for r in a.reductions() {
                    v.push(match self { E::Neg(_) => E::Neg(Box::new(r)), E::Pow(_, n, d) => E::Pow(Box::new(r), *n, *d), _ => unreachable!() });
                }
            }
            E::Add(a, b) | E::Sub(a, b) | E::Mul(a, b) | E::Div(a, b) => {
                v.push((**a).clone());
                v.push((**b).clone());
                let mk = |x: E, y: E| match self { E::Add(..) => E::Add(Box::new(x), Box::new(y)), E::Sub(..) => E::Sub(Box::new(x), Box::new(y)), E::Mul(..) => E::Mul(Box::new(x), Box::new(y)), _ => E::Div(Box::new(x), Box::new(y)) };
                for r in a.reductions() { v.push(mk(r, (**b).clone())); }
                for r in b.reductions() { v.push(mk((**a).clone(), r)); }
            }
        }
        v
    }
    fn size(&self) -> usize {
        match self {
            E::Num(_) | E::Unit(..) => 1,
            E::Neg(a) | E::Pow(a, _, _) => 1 + a.size(),
            E::Add(a, b) | E::Sub(a, b) | E::Mul(a, b) | E::Div(a, b) => 1 + a.size() + b.size(),
        }
    }
    /// does the tree raise something to a power of magnitude >= 2 (magnitudes can then leave the range of f64 in the
    /// unit numbat works in although the result is representable in base units)?
    fn has_big_pow(&self) -> bool {
        match self {
            E::Num(_) | E::Unit(..) => false,
            E::Pow(a, n, d) => (*n as f64 / *d as f64).abs() >= 2.0 || a.has_big_pow(),
            E::Neg(a) => a.has_big_pow(),
            E::Add(a, b) | E::Sub(a, b) | E::Mul(a, b) | E::Div(a, b) => a.has_big_pow() || b.has_big_pow(),
        }
    }
    /// independent oracle: (physical value in base units, absolute error bound estimate, dimension)
    fn oracle(&self, units: &Units) -> Option<(f64, f64, Dim)> {
        let eps = f64::EPSILON;
        Some(match self {
            E::Num(v) => (*v, 0.0, Dim::new()),
            E::Unit(i, p, _) => {
                let f = vec![units.factor(*i, *p, 1, 1)];
                let v = units.oracle_factor(&f);
                (v, 8.0 * eps * v.abs(), units.oracle_dimension(&f))
            }
            E::Neg(a) => { let (v, e, d) = a.oracle(units)?; (-v, e, d) }
            E::Add(a, b) | E::Sub(a, b) => {
                let (va, ea, da) = a.oracle(units)?;
                let (vb, eb, _) = b.oracle(units)?;
                let r = if matches!(self, E::Add(..)) { va + vb } else { va - vb };
                (r, ea + eb + 16.0 * eps * (va.abs() + vb.abs()), da)
            }
            E::Mul(a, b) => {
                let (va, ea, da) = a.oracle(units)?;
                let (vb, eb, db) = b.oracle(units)?;
                (va * vb, va.abs() * eb + vb.abs() * ea + ea * eb + 8.0 * eps * (va * vb).abs(), dim_mul(&da, &db, 1))
            }
            E::Div(a, b) => {
                let (va, ea, da) = a.oracle(units)?;
                let (vb, eb, db) = b.oracle(units)?;
                if vb == 0.0 || eb >= vb.abs() / 2.0 { return None; }
                let r = va / vb;
                (r, ea / vb.abs() + r.abs() * eb / vb.abs() * 2.0 + 8.0 * eps * r.abs(), dim_mul(&da, &db, -1))
            }
            E::Pow(a, n, d) => {
                let (va, ea, da) = a.oracle(units)?;
                let x = *n as f64 / *d as f64;
                if va == 0.0 || ea >= va.abs() / 2.0 { return None; }
                let r = va.powf(x);
                let mut dm = Dim::new();
                for (k, v) in &da { dm.insert(k.clone(), rmul(*v, (*n, *d))); }
                dm.retain(|_, v| v.0 != 0);
                (r, r.abs() * x.abs() * (ea / va.abs()) * 2.0 + 16.0 * eps * r.abs(), dm)
            }
        })
    }
}

struct Gen<'a> {
    units: &'a Units,
    dims: Vec<&'a String>,
    ctx: &'a numbat::Context,
    /// pairs of dimension classes (d1, d2, product?) whose product / quotient is again the dimension of a named
    /// unit (`N * m` = energy): results the registry-based simplification may rename
    named_results: Vec<(String, String, bool)>,
}

fn named_results(units: &Units, dims: &[&String]) -> Vec<(String, String, bool)> {
    let vec_of = |d: &String| -> Dim { units.oracle_dimension(&[units.factor(units.by_dim[d][0], (false, 0), 1, 1)]) };
    let vs: Vec<(String, Dim)> = dims.iter().map(|d| ((*d).clone(), vec_of(d))).collect();
    let mut out = Vec::new();
    for (d1, v1) in &vs {
        for (d2, v2) in &vs {
            for mul in [true, false] {
                let r = dim_mul(v1, v2, if mul { 1 } else { -1 });
                let mut r = r;
                r.retain(|_, e| e.0 != 0);
                if !r.is_empty() && !v1.is_empty() && !v2.is_empty() && vs.iter().any(|(_, v)| *v == r) {
                    out.push((d1.clone(), d2.clone(), mul));
                }
            }
        }
    }
    out
}

impl<'a> Gen<'a> {
    fn leaf_unit(&self, rng: &mut Rng, dim: &String) -> E {
        let rows = &self.units.by_dim[dim];
        let i = *rng.pick(rows);
        let ps = self.units.prefixes(i);
        let mut p = if rng.chance(2, 5) { (false, 0) } else { *rng.pick(&ps) };
        let mut sp = self.units.spellings(i, p);
        if sp.is_empty() {
            p = (false, 0);
            sp = self.units.spellings(i, p);
        }
        E::Unit(i, p, rng.pick(&sp).clone())
    }
    fn number(&self, rng: &mut Rng) -> f64 {
        match rng.below(10) {
            0 => 0.0,
            1 => 2f64.powi(rng.range(-40, 40) as i32),
            2 => rng.range(-20, 20) as f64,
            3 => 40.5,
            4 => 10f64.powi(rng.range(-12, 12) as i32) * (1.0 + rng.below(9) as f64),
            _ => ((rng.unit_f64() * 200.0 - 100.0) * 64.0).round() / 64.0,
        }
    }
    /// expression of the dimension of class `dim`
    fn of_dim(&self, rng: &mut Rng, dim: &String, depth: usize) -> E {
        if depth == 0 || rng.chance(1, 3) {
            return E::Mul(Box::new(E::Num(self.number(rng))), Box::new(self.leaf_unit(rng, dim)));
        }
        match rng.below(7) {
            0 | 1 => E::Add(Box::new(self.of_dim(rng, dim, depth - 1)), Box::new(self.of_dim(rng, dim, depth - 1))),
            2 | 3 => E::Sub(Box::new(self.of_dim(rng, dim, depth - 1)), Box::new(self.of_dim(rng, dim, depth - 1))),
            4 => E::Neg(Box::new(self.of_dim(rng, dim, depth - 1))),
            5 => E::Mul(Box::new(self.scalar(rng, depth - 1)), Box::new(self.of_dim(rng, dim, depth - 1))),
            _ => E::Div(Box::new(self.of_dim(rng, dim, depth - 1)), Box::new(self.scalar(rng, depth - 1))),
        }
    }
    fn scalar(&self, rng: &mut Rng, depth: usize) -> E {
        if depth == 0 || rng.chance(1, 2) {
            return E::Num(self.number(rng));
        }
        let d = *rng.pick(&self.dims);
        E::Div(Box::new(self.of_dim(rng, d, depth - 1)), Box::new(self.of_dim(rng, d, depth - 1)))
    }
    /// expression of any dimension
    fn any(&self, rng: &mut Rng, depth: usize) -> E {
        if depth == 0 {
            let d = *rng.pick(&self.dims);
            return self.of_dim(rng, d, 0);
        }
        match rng.below(10) {
            0 | 1 | 2 => E::Mul(Box::new(self.any(rng, depth - 1)), Box::new(self.any(rng, depth - 1))),
            3 | 4 => E::Div(Box::new(self.any(rng, depth - 1)), Box::new(self.any(rng, depth - 1))),
            5 | 6 => {
                let (n, d) = *rng.pick(&[(2, 1), (3, 1), (-1, 1), (-2, 1), (1, 2), (1, 3), (2, 3), (-1, 2), (0, 1), (1, 1)]);
                // only exponents that `Rational::from_f64` recovers exactly
                let e = n as f64 / d as f64;
                if numbat::Context::verif_rational_from_f64(e.to_bits()) != Some((n, d)) {
                    return self.any(rng, depth - 1);
                }
                E::Pow(Box::new(self.any(rng, depth - 1)), n, d)
            }
            7 => E::Neg(Box::new(self.any(rng, depth - 1))),
            9 if !self.named_results.is_empty() && rng.chance(1, 2) => {
                // a product / quotient of two prefixed leaves whose dimension has a named unit (`pN * nm`): what the
                // registry-based simplification of displayed results renames
                let (d1, d2, mul) = rng.pick(&self.named_results).clone();
                let a = E::Mul(Box::new(E::Num(self.number(rng))), Box::new(self.leaf_unit(rng, &d1)));
                let b = self.leaf_unit(rng, &d2);
                if mul { E::Mul(Box::new(a), Box::new(b)) } else { E::Div(Box::new(a), Box::new(b)) }
            }
            8 => {
                // sum / difference of equal powers of two leaves of one dimension, the second one often the same
                // unit with another prefix (`3 m^2 + 5 cm^2`)
                let d = *rng.pick(&self.dims);
                let (n, dd) = *rng.pick(&[(2, 1), (3, 1), (-1, 1), (-2, 1), (1, 2)]);
                let e = n as f64 / dd as f64;
                if numbat::Context::verif_rational_from_f64(e.to_bits()) != Some((n, dd)) {
                    return self.any(rng, depth - 1);
                }
                let a = self.leaf_unit(rng, d);
                let b = match (&a, rng.chance(2, 3)) {
                    (E::Unit(i, p, _), true) => {
                        let ps = self.units.prefixes(*i);
                        let q = *rng.pick(&ps);
                        let sp = self.units.spellings(*i, q);
                        if sp.is_empty() || q == *p { self.leaf_unit(rng, d) } else { E::Unit(*i, q, rng.pick(&sp).clone()) }
                    }
                    _ => self.leaf_unit(rng, d),
                };
                let pa = E::Mul(Box::new(E::Num(self.number(rng))), Box::new(E::Pow(Box::new(a), n, dd)));
                let pb = E::Mul(Box::new(E::Num(self.number(rng))), Box::new(E::Pow(Box::new(b), n, dd)));
                if rng.chance(1, 2) { E::Add(Box::new(pa), Box::new(pb)) } else { E::Sub(Box::new(pa), Box::new(pb)) }
            }
            _ => {
                let d = *rng.pick(&self.dims);
                self.of_dim(rng, d, depth)
            }
        }
    }
}

/// evaluates one tree; returns the oracle's complaint, if any (`emit` = also write the lines and counts)
fn run_expr_inner(g: &Gen, out: &mut Out, e: &E, from_text: Option<&str>, emit: bool) -> Option<(String, String, String)> {
    let units = g.units;
    let src = e.src();
    let sx = e.sexpr(units);
    let input = from_text.map(|s| s.to_string()).unwrap_or_else(|| format!("eval {} ## {}", sx, src));
    let mut c = g.ctx.clone();
    let code = format!("let r = {}", src);
    let res = catch(std::panic::AssertUnwindSafe(|| c.interpret(&code, CodeSource::Internal)));
    let ans = match res {
        Err(p) => format!("panic {}", p),
        Ok(Ok(_)) => match c.verif_raw_global_quantity("r") {
            Some(q) => show_quantity(&q),
            None => "no-value".into(),
        },
        Ok(Err(err)) => match *err {
            numbat::NumbatError::RuntimeError(ref r) => {
                let t = format!("{}", r);
                if t.contains("Division by zero") { "err divzero".into() }
                else if t.contains("can not be converted") { "err incompatible".into() }
                else if t.contains("Non-rational") { "err nonrational".into() }
                else { format!("err runtime {}", t) }
            }
            numbat::NumbatError::TypeCheckError(ref t) => format!("err type {}", t).replace('\n', " "),
            ref o => format!("err other {}", o).replace('\n', " "),
        },
    };
    let ans = canon_nan(&ans);
    if ans.starts_with("err type") || ans.starts_with("err other") {
        // the generator produced something the checker rejects (e.g. exponent not const-evaluable): not a case
        if emit { out.count("generator_rejected"); }
        return None;
    }
    if emit {
        out.line(&format!("eval {}", sx), &ans);
        out.case(&sx, e.size() >= 3);
        out.count(&format!("size_{}", (e.size() / 4) * 4));
    }
    let key = format!("eval:{}", sx);
    let mut complaint: Option<String> = None;
    if ans.starts_with("panic") {
        complaint = Some(ans.clone());
    } else if ans == "err incompatible" || ans == "err nonrational" || ans.starts_with("err runtime") {
        complaint = Some(format!("accepted expression fails at run time: {}", ans));
    } else if let Some((v, unit)) = parse_answer(&ans) {
        if emit { out.count("result_ok"); }
        let fs = parse_unit(&unit)?;
        if let Some((want, err, dim)) = e.oracle(units) {
            // dimension by exponent vectors
            let got_dim = units.oracle_dimension(&fs);
            if got_dim != dim && v != 0.0 {
                complaint = Some(format!("result unit {} has dimension {:?}, dimensional analysis gives {:?}", unit, got_dim, dim));
            }
            // the oracle's own conversion factor must be representable (`zSt^18` is 1e-450)
            let of = units.oracle_factor(&fs);
            // a value that left the range of f64 in the unit numbat works in (`1e-351 zbps^-9`) is the floating-point
            // range, not the arithmetic: only trees with powers can get there
            let out_of_range = (!v.is_normal() || !(want / of).is_normal()) && e.has_big_pow();
            if out_of_range && emit { out.count("oracle_value_skipped_range"); }
            let phys = if of.is_normal() && !out_of_range { v * of } else { f64::NAN };
            if want.is_finite() && phys.is_finite() && want.abs() < 1e280 && (want == 0.0 || want.abs() > 1e-280) && err.is_finite() {
                if emit { out.count("oracle_value_checked"); }
                let tol = 64.0 * err + 64.0 * f64::EPSILON * want.abs() + 1e-300;
                if (phys - want).abs() > tol && complaint.is_none() {
                    complaint = Some(format!("result {:e} (in base units) differs from dimensional arithmetic {:e} (tolerance {:e})", phys, want, tol));
                }
            } else if emit {
                out.count("oracle_value_skipped_extreme");
            }
        } else if emit {
            out.count("oracle_value_skipped_singular");
        }
    } else if emit {
        out.count(&format!("result_{}", ans.replace(' ', "_")));
    }
    // the same expression as a statement: the *displayed* result (after numbat's automatic simplification) must
    // denote the same quantity
    if complaint.is_none() && parse_answer(&ans).is_some() {
        if let Some((want, err, dim)) = e.oracle(units) {
            let mut c2 = g.ctx.clone();
            let shown = match catch(std::panic::AssertUnwindSafe(|| c2.interpret(&src, CodeSource::Internal))) {
                Ok(Ok((_, numbat::InterpreterResult::Value(v)))) => numbat::verif::c03::describe_value(&v).map(|d| canon_nan(&show_quantity(&d))),
                Err(p) => Some(format!("panic {}", p)),
                _ => None,
            };
            if let Some(shown) = shown {
                if shown.starts_with("panic") {
                    complaint = Some(format!("evaluating the expression as a statement: {}", shown));
                } else if let Some((v, unit)) = parse_answer(&shown) {
                    if let Some(fs) = parse_unit(&unit) {
                        if emit { out.count("displayed_result_checked"); }
                        let got_dim = units.oracle_dimension(&fs);
                        let of = units.oracle_factor(&fs);
                        let out_of_range = (!v.is_normal() || !(want / of).is_normal()) && e.has_big_pow();
                        let phys = if of.is_normal() && !out_of_range { v * of } else { f64::NAN };
                        if got_dim != dim && v != 0.0 {
                            complaint = Some(format!("displayed result {} has dimension {:?}, dimensional analysis gives {:?}", shown, got_dim, dim));
                        } else if want.is_finite() && phys.is_finite() && want.abs() < 1e280 && (want == 0.0 || want.abs() > 1e-280) && err.is_finite() {
                            let tol = 64.0 * err + 256.0 * f64::EPSILON * want.abs() + 1e-300;
                            if (phys - want).abs() > tol {
                                complaint = Some(format!("displayed result {} = {:e} (in base units) differs from dimensional arithmetic {:e} (tolerance {:e})", shown, phys, want, tol));
                            }
                        }
                    }
                }
            }
        }
    }
    complaint.map(|c| (key, input, c))
}

fn run_expr(g: &Gen, out: &mut Out, e: &E, from_text: Option<&str>) {
    if let Some((key, input, what)) = run_expr_inner(g, out, e, from_text, true) {
        // shrink: replace subtrees by their children while the oracle still complains
        let mut cur = e.clone();
        let (mut k, mut i, mut w) = (key, input, what);
        let mut budget = 400;
        'outer: loop {
            for cand in cur.reductions() {
                if budget == 0 { break 'outer; }
                budget -= 1;
                if let Some((k2, i2, w2)) = run_expr_inner(g, out, &cand, None, false) {
                    cur = cand; k = k2; i = i2; w = w2;
                    continue 'outer;
                }
            }
            break;
        }
        out.oracle_fail(&k, &i, &w);
    }
}

/// parse the S-expression back (for replay / corpus): `eval <sexpr> ## <source>`
fn parse_sexpr(units: &Units, toks: &mut std::iter::Peekable<std::vec::IntoIter<String>>) -> Option<E> {
    if toks.next()? != "(" { return None; }
    let head = toks.next()?;
    let e = match head.as_str() {
        "num" => E::Num(bits_f(&toks.next()?)),
        "unit" => {
            let f: FactorDesc = parse_factor(&toks.next()?)?;
            let i = *units.index.get(&f.unit)?;
            let p = (f.binary, f.prefix_exp);
            let sp = units.spellings(i, p);
            E::Unit(i, p, sp.first()?.clone())
        }
        "neg" => E::Neg(Box::new(parse_sexpr(units, toks)?)),
        "pow" => {
            let a = parse_sexpr(units, toks)?;
            let r = toks.next()?;
            let (n, d) = r.split_once('/')?;
            E::Pow(Box::new(a), n.parse().ok()?, d.parse().ok()?)
        }
        op => {
            let a = Box::new(parse_sexpr(units, toks)?);
            let b = Box::new(parse_sexpr(units, toks)?);
            match op { "add" => E::Add(a, b), "sub" => E::Sub(a, b), "mul" => E::Mul(a, b), "div" => E::Div(a, b), _ => return None }
        }
    };
    if toks.next()? != ")" { return None; }
    Some(e)
}

fn parse_line(units: &Units, line: &str) -> Option<E> {
    let body = line.strip_prefix("eval ")?;
    let body = body.split(" ## ").next()?;
    let spaced = body.replace('(', " ( ").replace(')', " ) ");
    let toks: Vec<String> = spaced.split_whitespace().map(|s| s.to_string()).collect();
    parse_sexpr(units, &mut toks.into_iter().peekable())
}

fn main() {
    let args = Args::parse();
    let mut out = Out::new(&args);
    out.rule = "type-directed random expression trees (depth <= 5) over numbers (0, 2^k, small integers, 40.5, decimals, multiples of 1/64), every prelude unit in a random alias spelling with a random accepted prefix (short or long form as the alias accepts), + - * / negation and powers with exponents {2,3,-1,-2,1/2,1/3,2/3,-1/2,0,1}; operands of + and - are generated in the same dimension class; evaluated by the real interpreter as `let r = <expr>` and read back raw. distinct = S-expression; non-trivial = at least 3 nodes".into();
    let ctx = prelude_ctx();
    let units = Units::load(&ctx);
    units.emit(&mut out);
    let dims: Vec<&String> = units.by_dim.keys().collect();
    let named = named_results(&units, &dims);
    out.count_n("generator_named_result_pairs", named.len() as u64);
    let g = Gen { units: &units, dims, ctx: &ctx, named_results: named };
    let run_file = |p: &std::path::Path, out: &mut Out| {
        for l in read_lines(p) {
            if let Some(e) = parse_line(&units, &l) {
                run_expr(&g, out, &e, Some(&l));
            }
        }
    };
    if let Some(p) = &args.replay {
        run_file(p, &mut out);
        out.finish();
        return;
    }
    if let Some(dir) = args.extra.get("corpus") {
        let mut files: Vec<_> = std::fs::read_dir(dir).map(|d| d.filter_map(|e| e.ok()).map(|e| e.path()).collect()).unwrap_or_default();
        files.sort();
        for f in files {
            run_file(&f, &mut out);
        }
    }
    let mut rng = Rng::new(args.seed);
    let n = args.count(2000, 60000);
    // make sure every (unit, alias, prefix) spelling is used at least once in the thorough tier
    if args.tier == "thorough" {
        let mut cnt = 0u64;
        for i in 0..units.rows.len() {
            for p in units.prefixes(i) {
                for sp in units.spellings(i, p) {
                    let e = E::Mul(Box::new(E::Num(2.5)), Box::new(E::Unit(i, p, sp)));
                    run_expr(&g, &mut out, &e, None);
                    cnt += 1;
                }
            }
        }
        out.count_n("every_spelling_once", cnt);
    }
    for i in 0..n {
        let depth = 1 + i % 5;
        let e = g.any(&mut rng, depth);
        run_expr(&g, &mut out, &e, None);
    }
    out.finish();
}
