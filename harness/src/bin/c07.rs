//! C07 — incremental, batched and replayed sessions agree; a copied session evolves independently.
//!
//! One case = a list of statements that each succeed when submitted one at a time, a split mask (which
//! statements start a new input in the "partition" run) and two different continuations for the clone test.
//! One-line encoding (replay / corpus):
//!     `session7 <mask of 0/1> ||| stmt;;stmt;;... ||| k1;;k1 ||| k2;;k2`
//!
//! Oracle on the implementation (independent of the model), all on clones of a prelude-loaded `Context`:
//!   A  one statement per input                       (reference)
//!   B  statements joined with `\n` at the split points of the mask
//!   C  all statements joined into a single input
//!   D  the inputs of B (some with surrounding blanks) and a few failing lines are pushed to numbat's real
//!      `SessionHistory` through `CommandRunner::push_to_history`; the real command `save <file>` writes the
//!      file; the file's content is what a fresh session evaluates (as a file, i.e. as one input)
//!   must all succeed and give equal `verif_session_digest()`, equal concatenated `print` output, and the result
//!   of a joined input must be the last value produced by its statements in run A.
//!   Clone: X = A's context, Y = X.clone(); continuing X with k1 must not change Y's digest, continuing Y with
//!   k2 must not change X's, and X / Y must equal fresh sessions that ran stmts++k1 / stmts++k2.
//!
//! Correspondence (driver `drv_c07`, same protocol as C06): per run `new`, per input
//! `in ok <n> <item>...`; answer = names known to each component relative to the prelude, ` || ` counters.

#[path = "../sess_common.rs"]
mod sess;

use numbat::command::{CommandControlFlow, CommandRunner};
use numbat::resolver::CodeSource;
use numbat::Context;
use nvh::*;
use sess::*;

#[derive(Clone, Debug)]
struct Case {
    stmts: Vec<String>,
    /// mask[i] = statement i starts a new input in run B (mask[0] is irrelevant)
    mask: Vec<bool>,
    k1: Vec<String>,
    k2: Vec<String>,
    tags: Vec<&'static str>,
}

fn encode(c: &Case) -> String {
    format!(
        "{} ||| {} ||| {} ||| {}",
        c.mask.iter().map(|b| if *b { '1' } else { '0' }).collect::<String>(),
        c.stmts.join(SEP),
        c.k1.join(SEP),
        c.k2.join(SEP)
    )
}

fn decode(text: &str) -> Option<Case> {
    let parts: Vec<&str> = text.split(" ||| ").collect();
    if parts.len() != 4 {
        return None;
    }
    let list = |s: &str| -> Vec<String> {
        if s.trim().is_empty() {
            vec![]
        } else {
            s.split(SEP).map(|x| x.to_string()).collect()
        }
    };
    let stmts = list(parts[1]);
    let mut mask: Vec<bool> = parts[0].trim().chars().map(|c| c == '1').collect();
    mask.resize(stmts.len(), true);
    Some(Case { stmts, mask, k1: list(parts[2]), k2: list(parts[3]), tags: vec![] })
}

fn partition(c: &Case) -> Vec<Vec<String>> {
    let mut inputs: Vec<Vec<String>> = Vec::new();
    for (i, s) in c.stmts.iter().enumerate() {
        if i == 0 || c.mask[i] {
            inputs.push(vec![s.clone()]);
        } else {
            inputs.last_mut().unwrap().push(s.clone());
        }
    }
    inputs
}

/// last value among the outcomes (the result a joined input must report)
fn last_value(os: &[Outcome]) -> String {
    os.iter()
        .rev()
        .map(|o| o.value.clone())
        .find(|v| v != "-")
        .unwrap_or_else(|| "-".to_string())
}

struct Failure {
    /// classifier used as the key prefix for known-finding matching
    class: &'static str,
    what: String,
}

fn fail(class: &'static str, what: String) -> Option<Failure> {
    Some(Failure { class, what })
}

/// do two print transcripts differ only in the readable type that `inspect` appends (`    [..]`)?
fn differs_only_in_inspect_type(a: &[String], b: &[String]) -> bool {
    if a.len() != b.len() {
        return false;
    }
    let mut any = false;
    for (x, y) in a.iter().zip(b.iter()) {
        if x == y {
            continue;
        }
        let cut = |s: &str| s.rfind("    [").map(|i| s[..i].to_string());
        if x.starts_with("inspect: ") && y.starts_with("inspect: ") && cut(x).is_some() && cut(x) == cut(y) {
            any = true;
        } else {
            return false;
        }
    }
    any
}

fn compare_prints(label: &str, reference: &[String], got: &[String]) -> Option<Failure> {
    if reference == got {
        return None;
    }
    let class = if differs_only_in_inspect_type(reference, got) {
        "c07-inspect-readable-type"
    } else {
        "c07-session"
    };
    let (x, y) = reference
        .iter()
        .zip(got.iter())
        .find(|(x, y)| x != y)
        .map(|(x, y)| (x.clone(), y.clone()))
        .unwrap_or_else(|| (format!("{} lines", reference.len()), format!("{} lines", got.len())));
    fail(
        class,
        format!("printed output of run {} differs from one-at-a-time evaluation: incremental prints `{}`, {} prints `{}`", label, x, label, y),
    )
}

/// writes the history file with numbat's real `save` command and returns its content
fn save_with_real_command(ctx: &mut Context, inputs: &[String], noise: &[(usize, String)], path: &std::path::Path) -> Result<String, String> {
    let mut runner = CommandRunner::<()>::new().enable_save(numbat::session_history::SessionHistory::new());
    for (i, inp) in inputs.iter().enumerate() {
        for (pos, bad) in noise {
            if *pos == i {
                runner.push_to_history(bad, Err(()));
            }
        }
        // every third input is surrounded by blanks, which `save` trims
        if i % 3 == 1 {
            runner.push_to_history(&format!("  {}  ", inp), Ok(()));
        } else {
            runner.push_to_history(inp, Ok(()));
        }
    }
    let line = format!("save {}", path.to_string_lossy());
    match runner.try_run_command(&line, ctx, &mut ()) {
        Ok(CommandControlFlow::Continue) => {}
        Ok(_) => return Err("`save` was not recognised as a command".into()),
        Err(_) => return Err("`save` failed".into()),
    }
    std::fs::read_to_string(path).map_err(|e| format!("saved file unreadable: {e}"))
}

struct Runs {
    a: Vec<Outcome>,
    b: Vec<Outcome>,
    c: Outcome,
    ctx_a: Context,
    ctx_b: Context,
    ctx_c: Context,
}

fn run_abc(base: &Context, case: &Case) -> Runs {
    let mut ctx_a = base.clone();
    let a: Vec<Outcome> = case.stmts.iter().map(|s| run_input(&mut ctx_a, s)).collect();
    let mut ctx_b = base.clone();
    let b: Vec<Outcome> = partition(case)
        .iter()
        .map(|inp| run_input(&mut ctx_b, &inp.join("\n")))
        .collect();
    let mut ctx_c = base.clone();
    let c = run_input(&mut ctx_c, &case.stmts.join("\n"));
    Runs { a, b, c, ctx_a, ctx_b, ctx_c }
}

/// the property, evaluated on the real interpreter
fn oracle(base: &Context, case: &Case, scratch: &std::path::Path) -> Option<Failure> {
    if case.stmts.is_empty() {
        return None;
    }
    let r = run_abc(base, case);
    // the quantifier: every input succeeds on its own
    if let Some((i, o)) = r.a.iter().enumerate().find(|(_, o)| !o.ok()) {
        // not a case of the property (shrinking may produce such lists): no verdict
        let _ = (i, o);
        return None;
    }
    let prints_a: Vec<String> = r.a.iter().flat_map(|o| o.prints.clone()).collect();
    let da = digest(&r.ctx_a);

    // B: partition
    let parts = partition(case);
    let mut idx = 0;
    for (inp, o) in parts.iter().zip(r.b.iter()) {
        let slice = &r.a[idx..idx + inp.len()];
        idx += inp.len();
        if !o.ok() {
            return fail("c07-session", format!("joined input `{}` fails ({}: {}) although each statement succeeds alone", inp.join(NL), o.stage, o.err));
        }
        if o.value != last_value(slice) {
            return fail("c07-session", format!("joined input `{}` reports `{}` but one-at-a-time evaluation last produced `{}`", inp.join(NL), o.value, last_value(slice)));
        }
    }
    let prints_b: Vec<String> = r.b.iter().flat_map(|o| o.prints.clone()).collect();
    if let Some(f) = compare_prints("B (joined at the split points)", &prints_a, &prints_b) {
        return Some(f);
    }
    if digest(&r.ctx_b) != da {
        return fail("c07-session", format!("state after the joined inputs differs from one-at-a-time evaluation: {}", digest_diff(&r.ctx_b, &r.ctx_a)));
    }
    // C: single batch
    if !r.c.ok() {
        return fail("c07-session", format!("the single joined input fails ({}: {})", r.c.stage, r.c.err));
    }
    if r.c.value != last_value(&r.a) {
        return fail("c07-session", format!("the single joined input reports `{}` but one-at-a-time evaluation last produced `{}`", r.c.value, last_value(&r.a)));
    }
    if let Some(f) = compare_prints("C (one joined input)", &prints_a, &r.c.prints) {
        return Some(f);
    }
    if digest(&r.ctx_c) != da {
        return fail("c07-session", format!("state after the single joined input differs: {}", digest_diff(&r.ctx_c, &r.ctx_a)));
    }
    // A': the same inputs one at a time with the inspection commands `info <name>` and `list` run in between (through
    // the real command runner): commands are not inputs — they are not saved and must leave the session as it is
    {
        let mut ctx_i = base.clone();
        let mut runner = CommandRunner::<()>::new().print_with(|_| {});
        let mut known: Vec<String> = Vec::new();
        for (i, st) in case.stmts.iter().enumerate() {
            let o = run_input(&mut ctx_i, st);
            if !o.ok() || o.value != r.a[i].value || o.prints != r.a[i].prints {
                return fail("c07-session", format!("input {} `{}` gives `{}` (ok={}) after inspection commands, `{}` without them", i, st.replace('\n', NL), o.value, o.ok(), r.a[i].value));
            }
            for e in st.lines().flat_map(intro_of) {
                if let Some(n) = e.strip_prefix("var:").or_else(|| e.strip_prefix("unit:")).or_else(|| e.strip_prefix("fn:")) {
                    known.push(n.to_string());
                }
            }
            if i % 2 == 0 {
                if let Some(n) = known.get(i % known.len().max(1)) {
                    let cmd = format!("info {}", n);
                    match catch(std::panic::AssertUnwindSafe(|| runner.try_run_command(&cmd, &mut ctx_i, &mut ()).is_ok())) {
                        Ok(_) => {}
                        Err(p) => return fail("c07-session", format!("`{}` panics: {}", cmd, p)),
                    }
                }
                if i % 6 == 0 {
                    let _ = catch(std::panic::AssertUnwindSafe(|| runner.try_run_command("list", &mut ctx_i, &mut ()).is_ok()));
                }
            }
        }
        if digest(&ctx_i) != da {
            return fail("c07-session", format!("state after the inputs with `info`/`list` commands in between differs from the state without them: {}", digest_diff(&ctx_i, &r.ctx_a)));
        }
    }
    // D: replay of the file written by the real `save`
    let inputs: Vec<String> = parts.iter().map(|p| p.join("\n")).collect();
    let noise = vec![(0usize, "1 m + 1 s".to_string()), (inputs.len() / 2, "  zzz_unknown  ".to_string())];
    let mut ctx_cmd = r.ctx_b.clone();
    let saved = match save_with_real_command(&mut ctx_cmd, &inputs, &noise, scratch) {
        Ok(s) => s,
        Err(e) => return fail("c07-session", e),
    };
    // the file must hold exactly the successful inputs, in order (blanks around lines are immaterial)
    let norm = |s: &str| -> Vec<String> { s.lines().map(|l| l.trim().to_string()).filter(|l| !l.is_empty()).collect() };
    let expected: String = inputs.iter().map(|i| format!("{}\n", i)).collect();
    // (the saved text need not be the inputs verbatim — the property is about what replaying it yields — so a
    // textual difference is only recorded; the replay below decides)
    let _saved_verbatim = norm(&saved) == norm(&expected);
    let mut ctx_d = base.clone();
    let d = run_input_src(&mut ctx_d, &saved, CodeSource::File(scratch.to_path_buf()));
    if !d.ok() {
        return fail("c07-session", format!("replaying the saved history fails ({}: {})", d.stage, d.err));
    }
    if d.value != last_value(&r.a) {
        return fail("c07-session", format!("replaying the saved history reports `{}`, the session last produced `{}`", d.value, last_value(&r.a)));
    }
    if let Some(f) = compare_prints("D (replay of the saved history)", &prints_a, &d.prints) {
        return Some(f);
    }
    if digest(&ctx_d) != da {
        return fail("c07-session", format!("state after replaying the saved history differs: {}", digest_diff(&ctx_d, &r.ctx_a)));
    }
    // clone independence
    let mut x = r.ctx_a;
    let mut y = x.clone();
    let dy0 = digest(&y);
    let ox: Vec<Outcome> = case.k1.iter().map(|s| run_input(&mut x, s)).collect();
    if digest(&y) != dy0 {
        return fail("c07-session", "continuing the original session changed its copy".to_string());
    }
    let dx1 = digest(&x);
    let oy: Vec<Outcome> = case.k2.iter().map(|s| run_input(&mut y, s)).collect();
    if digest(&x) != dx1 {
        return fail("c07-session", "continuing the copy changed the original session".to_string());
    }
    for (k, o_clone, ctx_clone, who) in [(&case.k1, &ox, &x, "original"), (&case.k2, &oy, &y, "copy")] {
        let mut f = base.clone();
        for s in &case.stmts {
            let _ = run_input(&mut f, s);
        }
        let of: Vec<Outcome> = k.iter().map(|s| run_input(&mut f, s)).collect();
        let t1: Vec<String> = o_clone.iter().map(|o| o.text()).collect();
        let t2: Vec<String> = of.iter().map(|o| o.text()).collect();
        if t1 != t2 {
            return fail("c07-session", format!("the {} answers {:?} to its continuation, a session without a copy answers {:?}", who, t1, t2));
        }
        if digest(&f) != digest(ctx_clone) {
            return fail("c07-session", format!("the {} ends in a different state than a session without a copy: {}", who, digest_diff(ctx_clone, &f)));
        }
    }
    None
}

fn shrink_case(base: &Context, case: &Case, class: &'static str, scratch: &std::path::Path) -> Case {
    let fails = |c: &Case| oracle(base, c, scratch).map(|f| f.class == class).unwrap_or(false);
    let pairs: Vec<(String, bool)> = case.stmts.iter().cloned().zip(case.mask.iter().cloned()).collect();
    let mk = |p: &[(String, bool)], k1: &[String], k2: &[String]| Case {
        stmts: p.iter().map(|x| x.0.clone()).collect(),
        mask: p.iter().map(|x| x.1).collect(),
        k1: k1.to_vec(),
        k2: k2.to_vec(),
        tags: vec![],
    };
    let mut k1 = case.k1.clone();
    let mut k2 = case.k2.clone();
    if fails(&mk(&pairs, &[], &[])) {
        k1.clear();
        k2.clear();
    }
    // no prefix truncation here: a statement list must keep succeeding one at a time
    let mut cur = pairs;
    let mut i = 0;
    while i < cur.len() {
        let mut cand = cur.clone();
        cand.remove(i);
        if !cand.is_empty() && fails(&mk(&cand, &k1, &k2)) {
            cur = cand;
        } else {
            i += 1;
        }
    }
    // fewest split points
    for j in 0..cur.len() {
        if cur[j].1 {
            let mut cand = cur.clone();
            cand[j].1 = false;
            if fails(&mk(&cand, &k1, &k2)) {
                cur = cand;
            }
        }
    }
    mk(&cur, &k1, &k2)
}

struct Tables {
    base: Context,
    base_summary: Summary,
    base_counters: (usize, usize, usize),
}

/// the statement without its trailing comment (a `#` outside string literals starts a comment)
fn strip_comment(line: &str) -> &str {
    let mut in_str = false;
    let mut prev = ' ';
    for (i, c) in line.char_indices() {
        if c == '"' && prev != '\\' { in_str = !in_str; }
        if c == '#' && !in_str { return line[..i].trim_end(); }
        prev = c;
    }
    line
}

fn item_of(line: &str) -> String {
    let line = strip_comment(line);
    if let Some(m) = use_of(line) {
        return format!("use:{}", m.replace(' ', ""));
    }
    let intro = intro_of(line);
    if intro.is_empty() {
        "x".into()
    } else {
        format!("def:{}", intro.join("+"))
    }
}

fn emit_tables(out: &mut Out, t: &Tables) {
    out.setup(&format!("base {}", t.base_summary.mods.iter().cloned().collect::<Vec<_>>().join(",")));
    let mut todo: Vec<String> = MODULES.iter().map(|m| m.0.to_string()).collect();
    let mut done: Vec<String> = Vec::new();
    while let Some(m) = todo.pop() {
        if done.contains(&m) || t.base_summary.mods.contains(&m) {
            continue;
        }
        let deps = match module_deps(&m) {
            Some(d) => d,
            None => continue,
        };
        let mut ctx = t.base.clone();
        for d in &deps {
            let _ = run_input(&mut ctx, &format!("use {}", d));
        }
        let s0 = summary(&ctx);
        let _ = run_input(&mut ctx, &format!("use {}", m));
        let s1 = summary(&ctx).minus(&s0);
        let mut names: std::collections::BTreeSet<String> = s1.tr.clone();
        names.extend(s1.tc.iter().cloned());
        names.extend(s1.vm.iter().cloned());
        out.setup(&format!(
            "mod {} {} {}",
            m,
            if deps.is_empty() { "-".to_string() } else { deps.join(",") },
            if names.is_empty() { "-".to_string() } else { names.into_iter().collect::<Vec<_>>().join(",") }
        ));
        for d in deps {
            todo.push(d);
        }
        done.push(m);
    }
}

fn emit_run(out: &mut Out, t: &Tables, inputs: &[Vec<String>]) {
    out.setup("new");
    let mut ctx = t.base.clone();
    for inp in inputs {
        let o = run_input(&mut ctx, &inp.join("\n"));
        let s = summary(&ctx).minus(&t.base_summary);
        let (text_n, _i, files_n) = ctx.verif_session_counters();
        let items: Vec<String> = inp.iter().map(|l| item_of(l)).collect();
        out.line(
            &format!("in {} {} {}", o.stage, inp.len(), items.join(" ")),
            &format!("{} {} || files={} text={}", o.stage, s.text(), files_n - t.base_counters.2, text_n - t.base_counters.0),
        );
    }
}

fn emit(out: &mut Out, t: &Tables, case: &Case, scratch: &std::path::Path) {
    let text = encode(case);
    // correspondence: the three ways of submitting the same statements
    let single: Vec<Vec<String>> = case.stmts.iter().map(|s| vec![s.clone()]).collect();
    emit_run(out, t, &single);
    emit_run(out, t, &partition(case));
    emit_run(out, t, &[case.stmts.clone()]);

    let parts = partition(case);
    out.count_n("statements_total", case.stmts.len() as u64);
    out.count_n("joined_inputs_total", parts.len() as u64);
    out.count_n("joined_inputs_multi_statement", parts.iter().filter(|p| p.len() > 1).count() as u64);
    for tg in &case.tags {
        out.count(&format!("stmt_{}", tg));
    }
    let has_join = parts.iter().any(|p| p.len() > 1);
    out.case(&text, case.stmts.len() >= 3 && has_join);

    match catch(std::panic::AssertUnwindSafe(|| oracle(&t.base, case, scratch))) {
        Ok(None) => {}
        Ok(Some(f)) => {
            let small = shrink_case(&t.base, case, f.class, scratch);
            let w = oracle(&t.base, &small, scratch).map(|f| f.what).unwrap_or(f.what);
            let st = encode(&small);
            out.oracle_fail(&format!("{}:{}", f.class, st), &format!("session7 {}", st), &w);
        }
        Err(p) => {
            out.oracle_fail(&format!("c07-panic:{}", text), &format!("session7 {}", text), &format!("panic {}", p));
        }
    }
}

fn gen_case(rng: &mut Rng, base: &Context, n: usize) -> Case {
    let mut env = Env::default();
    let mut probe = base.clone();
    let mut stmts = Vec::new();
    let mut tags = Vec::new();
    let mut tries = 0;
    while stmts.len() < n && tries < 4 * n {
        tries += 1;
        let mut scratch = env.clone();
        let s = gen_ok_stmt(&mut scratch, rng, true);
        let o = run_input(&mut probe, &s.text);
        if o.ok() {
            scratch.apply(&s.eff);
            env = scratch;
            // comments are part of an input (and of the saved history): a trailing comment on some statements, and now
            // and then a statement whose string literal contains `#`
            let text = if rng.chance(1, 4) && !s.text.contains('\n') { format!("{}  # note {}", s.text, stmts.len()) } else { s.text.clone() };
            stmts.push(text.clone());
            tags.push(s.tag);
            // now and then the user enters the very same line again (`let x = x * 2`, `ans * 3`, a print): it runs
            // twice, so the saved history has to contain it twice
            if rng.chance(1, 6) && run_input(&mut probe, &text).ok() {
                stmts.push(text);
                tags.push("repeated-line");
            }
            if rng.chance(1, 8) {
                let extra = format!("print(\"item #{} of {{{} + 1}}\")", stmts.len(), stmts.len());
                if run_input(&mut probe, &extra).ok() {
                    stmts.push(extra);
                    tags.push("print-hash");
                }
            }
        } else {
            env.n = scratch.n;
            if o.stage == "panic" {
                // a crash may leave the probe half-updated: rebuild it from the accepted statements
                probe = base.clone();
                for st in &stmts {
                    let _ = run_input(&mut probe, st);
                }
            }
        }
    }
    let mask: Vec<bool> = (0..stmts.len()).map(|_| rng.chance(2, 5)).collect();
    // two continuations from the same environment: the same fresh names get different definitions
    let cont = |rng: &mut Rng, probe: &Context, env: &Env| -> Vec<String> {
        let mut p = probe.clone();
        let mut e = env.clone();
        let mut v = Vec::new();
        for _ in 0..3 {
            let mut sc = e.clone();
            let s = gen_ok_stmt(&mut sc, rng, true);
            if run_input(&mut p, &s.text).ok() {
                sc.apply(&s.eff);
                e = sc;
                v.push(s.text);
            }
        }
        v
    };
    let k1 = cont(rng, &probe, &env);
    let k2 = cont(rng, &probe, &env);
    Case { stmts, mask, k1, k2, tags }
}

fn main() {
    let args = Args::parse();
    let mut out = Out::new(&args);
    out.rule = "random lists of 6-20 statements that each succeed when submitted alone (let incl. redefinition with another dimension, fn incl. redefinition, units with aliases, base and derived dimensions incl. aliases of unnamed dimensions, structs, use of 11 small std modules and calls into them, expressions, ans/_, print with interpolation, inspect, type, assert_eq), generated adaptively against the real interpreter; each list is evaluated one statement per input, joined at random split points (40% per position), as one input, and replayed from the file written by the real `save` command; two different 3-statement continuations for the clone test. distinct = distinct case text; non-trivial = at least 3 statements and at least one multi-statement input".into();

    let base = prelude_ctx();
    let t = Tables { base_summary: summary(&base), base_counters: base.verif_session_counters(), base };
    emit_tables(&mut out, &t);
    let scratch_dir = std::env::temp_dir().join(format!("C07_{}", std::process::id()));
    std::fs::create_dir_all(&scratch_dir).expect("scratch dir");
    let scratch = scratch_dir.join("history.nbt");

    if let Some(p) = &args.replay {
        for l in read_lines(p) {
            if let Some(c) = l.strip_prefix("session7 ").and_then(decode) {
                emit(&mut out, &t, &c, &scratch);
            }
        }
        let _ = std::fs::remove_dir_all(&scratch_dir);
        out.finish();
        return;
    }

    if let Some(dir) = args.extra.get("corpus") {
        let mut files: Vec<_> = std::fs::read_dir(dir)
            .map(|d| d.filter_map(|e| e.ok()).map(|e| e.path()).collect())
            .unwrap_or_default();
        files.sort();
        for f in files {
            for l in read_lines(&f) {
                if let Some(c) = l.strip_prefix("session7 ").and_then(decode) {
                    emit(&mut out, &t, &c, &scratch);
                    out.count("corpus_cases");
                }
            }
        }
    }

    let mut rng = Rng::new(args.seed);
    let n = args.count(120, 4000);
    for _ in 0..n {
        let len = 6 + rng.below(15);
        let case = gen_case(&mut rng, &t.base, len);
        emit(&mut out, &t, &case, &scratch);
    }
    let _ = std::fs::remove_dir_all(&scratch_dir);
    out.finish();
}
