//! C13 — standard-library unit names and prefixes resolve correctly and uniquely.
//!
//! Request lines (answered by the Lean driver `drv_c13`, state = one model `PrefixParser` + named marks):
//!   reset | mark <name> | restore <name>                          -> ok
//!   unit <alias> <s><l><m><b> <full>     (PrefixParser::add_unit)  -> ok | reserved | clash || <ident>
//!   other <ident> | shadow <ident>       (add_other_identifier / add_shadowing_identifier)   -> same
//!   parse <ident>                        (PrefixParser::parse)     -> plain | unit <M|B><exp> <alias> <full>
//!   text <M|B><exp> <canon> <s><l>       (Display for UnitFactor)  -> the text
//!   defunit <name> <m><b> <alias>:<s|l|b|n|d>,...|-   (unit definition through the language; rolled back on error)
//!                                        -> ok canon=<name>:<s><l> | reserved | clash || <ident>
//!   let <ident> | fn <ident> <p1,p2,..|->                          -> ok | reserved | clash || <ident>
//!   genprefix <i> | genrow <i>           (rows of the regenerated Gen/PrefixTable.lean)      -> the row
//!   genregister                          (registerRows on the regenerated table)             -> ok <number of aliases>
//!   ptext <M|B><exp> <0|1>               (Prefix::as_string_long / as_string_short)          -> the text
//!
//! Replayable inputs (`--replay FILE`, `corpus/C13/*.txt`), one per line:
//!   resolve <prelude|all> <ident>        the resolution oracle for one identifier of a session
//!   show <prelude|all> <ident>           the displayed text of the unit `ident` denotes must read back
//!   declared <prelude|all>               the registered table equals the declarations in the .nbt files
//!   replay <prelude|all>                 the registered table is accepted again by a fresh parser
//!   seq <op>;<op>;...                    ops `unit a slmb full`, `other x`, `shadow x`, `?x` on a fresh parser
//!   lang <op>;<op>;...                   ops `defunit ..`, `let x`, `fn f p,q`, `?x` on top of the prelude
//!
//! The oracle on the implementation is independent of the Lean model: the table of readings
//! (alias, bare or with an accepted prefix string) is computed by brute force from the declarations.

use numbat::module_importer::BuiltinModuleImporter;
use numbat::resolver::CodeSource;
use numbat::verif::c13::{prefix_rows, AddError, AliasRow, Parser, PrefixRow, PrefixV, Resolved};
use numbat::{Context, NameResolutionError, NumbatError};
use nvh::*;
use std::collections::{BTreeMap, BTreeSet, HashMap, HashSet};

const MODULES: &str = "/repo/numbat/modules";

// ------------------------------------------------------------------------------------------- formatting

fn fmt_prefix(p: PrefixV) -> String {
    format!("{}{}", if p.binary { "B" } else { "M" }, p.exp)
}

fn fmt_resolved(r: &Resolved) -> String {
    match r {
        Resolved::Plain => "plain".into(),
        Resolved::Unit { prefix, alias, full_name } => format!("unit {} {} {}", fmt_prefix(*prefix), alias, full_name),
    }
}

fn fmt_add(r: &Result<(), AddError>) -> String {
    match r {
        Ok(()) => "ok".into(),
        Err(AddError::Reserved) => "reserved".into(),
        Err(AddError::Clash(n)) => format!("clash || {}", n),
    }
}

fn b(x: bool) -> char {
    if x { '1' } else { '0' }
}

fn flags(r: &AliasRow) -> String {
    format!("{}{}{}{}", b(r.short), b(r.long), b(r.metric), b(r.binary))
}

fn unit_line(r: &AliasRow) -> String {
    format!("unit {} {} {}", r.alias, flags(r), r.full_name)
}

fn wire_ok(s: &str) -> bool {
    !s.is_empty() && !s.chars().any(|c| c.is_whitespace() || c == ';' || c == ',' || c == ':' || c == '|')
}

// ------------------------------------------------------------------------------------------- readings (oracle)

#[derive(Clone, Debug, PartialEq, Eq)]
struct Reading {
    prefix: PrefixV,
    alias: String,
    full: String,
}

/// the documented prefixes: (long name, short spellings, binary?, exponent)
fn documented_prefix_rows() -> Vec<PrefixRow> {
    let metric: &[(&str, &[&str], i32)] = &[
        ("quecto", &["q"], -30), ("ronto", &["r"], -27), ("yocto", &["y"], -24), ("zepto", &["z"], -21), ("atto", &["a"], -18),
        ("femto", &["f"], -15), ("pico", &["p"], -12), ("nano", &["n"], -9), ("micro", &["µ", "μ", "u"], -6), ("milli", &["m"], -3),
        ("centi", &["c"], -2), ("deci", &["d"], -1), ("deca", &["da"], 1), ("hecto", &["h"], 2), ("kilo", &["k"], 3), ("mega", &["M"], 6),
        ("giga", &["G"], 9), ("tera", &["T"], 12), ("peta", &["P"], 15), ("exa", &["E"], 18), ("zetta", &["Z"], 21), ("yotta", &["Y"], 24),
        ("ronna", &["R"], 27), ("quetta", &["Q"], 30),
    ];
    let binary: &[(&str, &[&str], i32)] = &[
        ("kibi", &["Ki"], 10), ("mebi", &["Mi"], 20), ("gibi", &["Gi"], 30), ("tebi", &["Ti"], 40), ("pebi", &["Pi"], 50),
        ("exbi", &["Ei"], 60), ("zebi", &["Zi"], 70), ("yobi", &["Yi"], 80), ("robi", &["Ri"], 90), ("quebi", &["Qi"], 100),
    ];
    let mut v = Vec::new();
    for (tbl, bin) in [(metric, false), (binary, true)] {
        for (long, shorts, exp) in tbl {
            v.push(PrefixRow {
                long: long.to_string(),
                shorts: shorts.iter().map(|s| s.to_string()).collect(),
                prefix: PrefixV { binary: bin, exp: *exp },
                text_short: shorts[0].to_string(),
                text_long: long.to_string(),
            });
        }
    }
    v
}

fn none_prefix() -> PrefixV {
    PrefixV { binary: false, exp: 0 }
}

fn kind_ok(r: &AliasRow, p: &PrefixRow) -> bool {
    (!p.prefix.binary && r.metric) || (p.prefix.binary && r.binary)
}

/// every (string, reading) the declarations give rise to: the bare alias, and each accepted prefix string + alias
fn all_readings(rows: &[AliasRow], prefixes: &[PrefixRow]) -> Vec<(String, Reading)> {
    let mut v = Vec::new();
    for r in rows {
        v.push((r.alias.clone(), Reading { prefix: none_prefix(), alias: r.alias.clone(), full: r.full_name.clone() }));
        for p in prefixes {
            if !kind_ok(r, p) {
                continue;
            }
            if r.long {
                v.push((format!("{}{}", p.long, r.alias), Reading { prefix: p.prefix, alias: r.alias.clone(), full: r.full_name.clone() }));
            }
            if r.short {
                for s in &p.shorts {
                    v.push((format!("{}{}", s, r.alias), Reading { prefix: p.prefix, alias: r.alias.clone(), full: r.full_name.clone() }));
                }
            }
        }
    }
    v
}

struct ReadingMap {
    map: HashMap<String, Reading>,
    /// identifiers with two different readings
    collisions: Vec<(String, Reading, Reading)>,
}

fn reading_map(rows: &[AliasRow], prefixes: &[PrefixRow]) -> ReadingMap {
    let mut map: HashMap<String, Reading> = HashMap::new();
    let mut collisions = Vec::new();
    for (s, r) in all_readings(rows, prefixes) {
        match map.get(&s) {
            Some(old) if *old != r => collisions.push((s, old.clone(), r)),
            Some(_) => collisions.push((s.clone(), r.clone(), r)), // the same alias registered twice
            None => {
                map.insert(s, r);
            }
        }
    }
    ReadingMap { map, collisions }
}

fn expected(rm: &ReadingMap, others: &HashSet<String>, ident: &str) -> Resolved {
    if others.contains(ident) {
        return Resolved::Plain;
    }
    match rm.map.get(ident) {
        Some(r) => Resolved::Unit { prefix: r.prefix, alias: r.alias.clone(), full_name: r.full.clone() },
        None => Resolved::Plain,
    }
}

// ------------------------------------------------------------------------------------------- sessions

struct Session {
    name: &'static str,
    ctx: Context,
    /// the table the prefix parser holds (hook), registration order
    rows: Vec<AliasRow>,
    /// the table the module files declare (plain-text reading of the .nbt files), statement order;
    /// the oracle's readings are computed from this one
    decl: Vec<AliasRow>,
    others: Vec<String>,
    other_set: HashSet<String>,
    rm: ReadingMap,
}

fn load_ctx(all: bool) -> Result<Context, String> {
    Context::use_test_exchange_rates();
    let mut ctx = Context::new(BuiltinModuleImporter::default());
    let src = if all { "use all" } else { "use prelude" };
    let r = match catch(std::panic::AssertUnwindSafe(|| ctx.interpret(src, CodeSource::Internal).map(|_| ()).map_err(|e| e.to_string()))) {
        Ok(r) => r,
        Err(p) => Err(format!("panic {}", p)),
    };
    r.map(|_| ctx)
}

fn session(name: &'static str, prefixes: &[PrefixRow]) -> Session {
    let ctx = load_ctx(name == "all").expect("the standard library loads (checked at start-up)");
    let rows = ctx.verif_prefix_table();
    let others = ctx.verif_other_identifiers();
    let other_set = others.iter().cloned().collect();
    let mut seen = Vec::new();
    let mut decl = Vec::new();
    declared_rows(if name == "all" { "all" } else { "prelude" }, &mut seen, &mut decl);
    let rm = reading_map(if decl.is_empty() { &rows } else { &decl }, prefixes);
    Session { name, ctx, rows, decl, others, other_set, rm }
}

/// what the driver currently holds
struct ModelState {
    marks: HashSet<String>,
}

/// make the driver hold the table of the session (replaying it through the model and, in step, through a fresh
/// real parser: every call must succeed on both) and leave a mark to come back to
fn ensure_loaded(out: &mut Out, ms: &mut ModelState, s: &Session) {
    if ms.marks.contains(s.name) {
        out.setup(&format!("restore {}", s.name));
        return;
    }
    out.setup("reset");
    let mut real = Parser::new();
    for r in &s.rows {
        let res = real.add_unit(&r.alias, r.short, r.long, r.metric, r.binary, &r.full_name);
        out.line(&unit_line(r), &fmt_add(&res));
    }
    for o in &s.others {
        let res = real.add_other_identifier(o);
        out.line(&format!("other {}", o), &fmt_add(&res));
    }
    out.setup(&format!("mark {}", s.name));
    ms.marks.insert(s.name.to_string());
}

// ------------------------------------------------------------------------------------------- checks on a session

/// the table registered by loading the modules is accepted again, call by call, by a fresh real parser, in two
/// orders (units then other identifiers; other identifiers then units), and reproduces the same table
fn check_replay(out: &mut Out, s: &Session) {
    for order in 0..2 {
        out.setup("reset");
        let mut real = Parser::new();
        let mut bad: Option<String> = None;
        let mut do_units = |out: &mut Out, real: &mut Parser, bad: &mut Option<String>| {
            for r in &s.rows {
                let res = real.add_unit(&r.alias, r.short, r.long, r.metric, r.binary, &r.full_name);
                out.line(&unit_line(r), &fmt_add(&res));
                if res.is_err() && bad.is_none() {
                    *bad = Some(format!("add_unit({}) for unit {}: {}", r.alias, r.full_name, fmt_add(&res)));
                }
            }
        };
        let mut do_others = |out: &mut Out, real: &mut Parser, bad: &mut Option<String>| {
            for o in &s.others {
                let res = real.add_other_identifier(o);
                out.line(&format!("other {}", o), &fmt_add(&res));
                if res.is_err() && bad.is_none() {
                    *bad = Some(format!("add_other_identifier({}): {}", o, fmt_add(&res)));
                }
            }
        };
        if order == 0 {
            do_units(out, &mut real, &mut bad);
            do_others(out, &mut real, &mut bad);
        } else {
            do_others(out, &mut real, &mut bad);
            do_units(out, &mut real, &mut bad);
        }
        out.count_n("replayed_definition_calls", (s.rows.len() + s.others.len()) as u64);
        if bad.is_none() && (real.units() != s.rows || real.others() != s.others) {
            bad = Some("the replayed parser holds a different table than the session".into());
        }
        if let Some(w) = bad {
            out.oracle_fail(
                &format!("replay:{}:{}", s.name, order),
                &format!("replay {}", s.name),
                &format!("the table registered by loading `{}` is not accepted again by a fresh prefix parser (order {}): {}", s.name, order, w),
            );
        }
    }
    out.case(&format!("replay {}", s.name), true);
}

/// one identifier of a session: implementation vs brute-force reading table (oracle) and vs model (line)
fn check_resolve(out: &mut Out, s: &Session, ident: &str, bucket: &str) -> bool {
    let got = match catch(std::panic::AssertUnwindSafe(|| s.ctx.verif_resolve(ident))) {
        Ok(g) => g,
        Err(p) => {
            out.oracle_fail(&format!("resolve-panic:{}:{}", s.name, ident), &format!("resolve {} {}", s.name, ident), &format!("panic {}", p));
            return false;
        }
    };
    if wire_ok(ident) {
        out.line(&format!("parse {}", ident), &fmt_resolved(&got));
    }
    out.count(bucket);
    let want = expected(&s.rm, &s.other_set, ident);
    if got != want {
        out.oracle_fail(
            &format!("resolve:{}:{}", s.name, ident),
            &format!("resolve {} {}", s.name, ident),
            &format!(
                "`{}` resolves to [{}] but the declarations of the standard library say [{}]",
                ident,
                fmt_resolved(&got),
                fmt_resolved(&want)
            ),
        );
        return false;
    }
    true
}

fn check_collisions(out: &mut Out, s: &Session) {
    for (id, a, c) in &s.rm.collisions {
        out.oracle_fail(
            &format!("collision:{}:{}", s.name, id),
            &format!("resolve {} {}", s.name, id),
            &format!("identifier `{}` has two readings: {:?} and {:?}", id, a, c),
        );
    }
    for (id, r) in &s.rm.map {
        if s.other_set.contains(id) {
            out.oracle_fail(
                &format!("collision-other:{}:{}", s.name, id),
                &format!("resolve {} {}", s.name, id),
                &format!("identifier `{}` is both a variable/function and the unit reading {:?}", id, r),
            );
        }
    }
    out.count_n("identifiers_checked_pairwise", (s.rm.map.len() + s.others.len()) as u64);
}

/// EXHAUSTIVE: every alias × every prefix string (long and every short spelling) — accepted or not — plus the
/// bare alias, near misses, every other identifier, every variable/function name
fn check_exhaustive(out: &mut Out, s: &Session, prefixes: &[PrefixRow]) {
    let mut n = 0u64;
    let mut all_rows: Vec<AliasRow> = s.decl.clone();
    for r in &s.rows {
        if !all_rows.iter().any(|d| d.alias == r.alias) {
            all_rows.push(r.clone());
        }
    }
    for r in &all_rows {
        check_resolve(out, s, &r.alias, "combo_bare_alias");
        n += 1;
        for p in prefixes {
            let k = kind_ok(r, p);
            let id = format!("{}{}", p.long, r.alias);
            check_resolve(out, s, &id, if k && r.long { "combo_long_accepted" } else { "combo_long_not_accepted" });
            n += 1;
            for sh in &p.shorts {
                let id = format!("{}{}", sh, r.alias);
                check_resolve(out, s, &id, if k && r.short { "combo_short_accepted" } else { "combo_short_not_accepted" });
                n += 1;
            }
        }
        out.case(&format!("alias {} of {} in {}", r.alias, r.full_name, s.name), r.metric || r.binary);
    }
    // near misses around every alias: doubled prefix, prefix alone, alias with a letter more or less, case flipped
    for r in &all_rows {
        let a = &r.alias;
        let mut near: Vec<String> = vec![format!("kilokilo{}", a), format!("kk{}", a), format!("{}s", a), format!("{}k", a), format!("kilo_{}", a), format!("m{}m", a)];
        let cs: Vec<char> = a.chars().collect();
        if cs.len() > 1 {
            near.push(cs[..cs.len() - 1].iter().collect());
            near.push(cs[1..].iter().collect());
            near.push(format!("k{}", cs[1..].iter().collect::<String>()));
        }
        let flipped: String = cs.iter().map(|c| if c.is_lowercase() { c.to_uppercase().next().unwrap() } else { c.to_lowercase().next().unwrap() }).collect();
        near.push(flipped.clone());
        near.push(format!("k{}", flipped));
        near.push(format!("Kilo{}", a));
        near.push(format!("K{}", a));
        near.push(format!("ki{}", a));
        for id in near {
            check_resolve(out, s, &id, "near_miss");
            n += 1;
        }
    }
    for p in prefixes {
        check_resolve(out, s, &p.long, "prefix_alone");
        for sh in &p.shorts {
            check_resolve(out, s, sh, "prefix_alone");
        }
    }
    for o in &s.others {
        check_resolve(out, s, o, "other_identifier");
        n += 1;
    }
    // names of variables (with their aliases) and functions must not be read as units
    let names: BTreeSet<String> = s.ctx.variable_names().chain(s.ctx.function_names()).map(|x| x.to_string()).collect();
    for v in &names {
        let got = s.ctx.verif_resolve(v);
        out.count("variable_or_function_name");
        if got != Resolved::Plain {
            out.oracle_fail(
                &format!("name-is-unit:{}:{}", s.name, v),
                &format!("resolve {} {}", s.name, v),
                &format!("`{}` is the name of a variable or function of the standard library and is read as [{}]", v, fmt_resolved(&got)),
            );
        }
    }
    out.count_n(&format!("exhaustive_lookups_{}", s.name), n);
}

// ---- declarations in the .nbt files

fn module_file(path: &str) -> String {
    format!("{}/{}.nbt", MODULES, path.replace("::", "/"))
}

/// A plain-text reading of the unit declarations of a module and, in place, of the modules it `use`s (each module
/// once, depth first — the order in which the resolver inlines them): decorators directly above a `unit` line.
fn declared_rows(module: &str, seen: &mut Vec<String>, res: &mut Vec<AliasRow>) {
    if seen.iter().any(|m| m == module) {
        return;
    }
    seen.push(module.to_string());
    let text = std::fs::read_to_string(module_file(module)).unwrap_or_default();
    let mut metric = false;
    let mut binary = false;
    let mut aliases: Vec<(String, Option<&'static str>)> = Vec::new();
    for line in text.lines() {
        let t = line.trim();
        if let Some(rest) = t.strip_prefix("use ") {
            declared_rows(rest.trim(), seen, res);
        } else if t.starts_with("@metric_prefixes") {
            metric = true;
        } else if t.starts_with("@binary_prefixes") {
            binary = true;
        } else if let Some(rest) = t.strip_prefix("@aliases(") {
            let inner = rest.trim_end().trim_end_matches(')');
            for item in inner.split(',') {
                let item = item.trim();
                if item.is_empty() {
                    continue;
                }
                let (n, f) = match item.split_once(':') {
                    Some((n, f)) => (
                        n.trim().to_string(),
                        Some(match f.trim() {
                            "short" => "short",
                            "long" => "long",
                            "both" => "both",
                            "none" => "none",
                            _ => "?",
                        }),
                    ),
                    None => (item.to_string(), None),
                };
                aliases.push((n, f));
            }
        } else if t.starts_with('@') {
            // other decorators
        } else if let Some(rest) = t.strip_prefix("unit ") {
            let name: String = rest.chars().take_while(|c| !(c.is_whitespace() || *c == ':' || *c == '=')).collect();
            let form = |f: Option<&str>| match f {
                None | Some("long") => (false, true),
                Some("short") => (true, false),
                Some("both") => (true, true),
                _ => (false, false),
            };
            let mut list: Vec<(String, (bool, bool))> = vec![(name.clone(), (false, true))];
            for (a, f) in &aliases {
                if *a == name {
                    list[0].1 = form(*f);
                } else {
                    list.push((a.clone(), form(*f)));
                }
            }
            for (a, (sh, lo)) in list {
                res.push(AliasRow { alias: a, short: sh, long: lo, metric, binary, full_name: name.clone() });
            }
            metric = false;
            binary = false;
            aliases.clear();
        } else if t.is_empty() || t.starts_with('#') {
            // blank lines and comments do not separate decorators from their statement
        } else {
            metric = false;
            binary = false;
            aliases.clear();
        }
    }
}

fn row_key(r: &AliasRow) -> (String, bool, bool, bool, bool, String) {
    (r.alias.clone(), r.short, r.long, r.metric, r.binary, r.full_name.clone())
}

/// the registered table says exactly what the module files declare
fn check_declared(out: &mut Out, s: &Session) {
    out.count_n("declared_aliases_in_nbt_files", s.decl.len() as u64);
    if s.decl == s.rows {
        out.count("declared_equals_registered_in_order");
    }
    let d: BTreeSet<_> = s.decl.iter().map(row_key).collect();
    let r: BTreeSet<_> = s.rows.iter().map(row_key).collect();
    for x in d.difference(&r).take(3) {
        out.oracle_fail(
            &format!("declared-not-registered:{}:{}", s.name, x.0),
            &format!("declared {}", s.name),
            &format!("the module files declare {:?} (alias, short, long, metric, binary, unit), the prefix parser has no such entry (it has {:?})", x, s.rows.iter().find(|q| q.alias == x.0)),
        );
    }
    for x in r.difference(&d).take(3) {
        out.oracle_fail(
            &format!("registered-not-declared:{}:{}", s.name, x.0),
            &format!("declared {}", s.name),
            &format!("the prefix parser holds {:?} (alias, short, long, metric, binary, unit), which no module file declares", x),
        );
    }
    out.case(&format!("declared {}", s.name), true);
}

// ---- display and denotation through the whole language

/// the echoed (pretty-printed, prefix-transformed and type-checked) form of an expression entered through
/// `Context::interpret`: identifiers that the session reads as units are echoed as long prefix + unit name
fn echo(ctx: &mut Context, src: &str) -> Result<String, String> {
    use numbat::pretty_print::PrettyPrint;
    match catch(std::panic::AssertUnwindSafe(|| match ctx.interpret(src, CodeSource::Text) {
        Ok((stmts, _)) => Ok(stmts.iter().map(|st| st.pretty_print().to_string()).collect::<Vec<_>>().join(" ; ")),
        Err(e) => Err(format!("error: {}", e.to_string().replace('\n', " "))),
    })) {
        Ok(r) => r,
        Err(p) => Err(format!("panic {}", p)),
    }
}

/// `ident` is an accepted reading (prefix, alias of unit): entered through the language it must denote that prefix
/// and unit; the text the prefixed unit is displayed with must resolve to the same prefix and unit, both for the
/// session's prefix parser and when entered through the language again
fn check_show(out: &mut Out, s: &Session, lang: &mut Context, ident: &str, canon: &HashMap<String, (String, bool, bool)>) {
    let want = match expected(&s.rm, &s.other_set, ident) {
        Resolved::Unit { prefix, full_name, .. } => (prefix, full_name),
        Resolved::Plain => return,
    };
    // what the language makes of the identifier
    let want_echo = format!("{}{}", want.0.text(false), want.1);
    let got_echo = echo(lang, ident);
    out.count("denotation_through_language");
    if got_echo.as_deref() != Ok(want_echo.as_str()) {
        out.oracle_fail(
            &format!("lang-denote:{}:{}", s.name, ident),
            &format!("show {} {}", s.name, ident),
            &format!(
                "`{}` is declared to be {} {} but entered as an expression it is read as `{}`",
                ident,
                fmt_prefix(want.0),
                want.1,
                match &got_echo {
                    Ok(e) => e.clone(),
                    Err(e) => e.clone(),
                }
            ),
        );
    }
    let text = match catch(std::panic::AssertUnwindSafe(|| s.ctx.verif_prefixed_unit_text(ident))) {
        Ok(Some(t)) => t,
        Ok(None) => {
            out.oracle_fail(&format!("show-none:{}:{}", s.name, ident), &format!("show {} {}", s.name, ident), "the identifier is an accepted unit reading but no unit value exists for it");
            return;
        }
        Err(p) => {
            out.oracle_fail(&format!("show-panic:{}:{}", s.name, ident), &format!("show {} {}", s.name, ident), &format!("panic {}", p));
            return;
        }
    };
    out.count("displayed_units");
    if let Some((c, cs, cl)) = canon.get(&want.1) {
        if wire_ok(c) && wire_ok(&text) {
            out.line(&format!("text {} {} {}{}", fmt_prefix(want.0), c, b(*cs), b(*cl)), &text);
        }
    }
    let back = s.ctx.verif_resolve(&text);
    let ok = matches!(&back, Resolved::Unit { prefix, full_name, .. } if *prefix == want.0 && *full_name == want.1);
    if !ok {
        out.oracle_fail(
            &format!("show:{}:{}", s.name, ident),
            &format!("show {} {}", s.name, ident),
            &format!(
                "`{}` is {} {} and is displayed as `{}`, which reads back as [{}]",
                ident,
                fmt_prefix(want.0),
                want.1,
                text,
                fmt_resolved(&back)
            ),
        );
    }
    // the displayed text entered through the language again
    if text != ident {
        let back_echo = echo(lang, &text);
        out.count("displayed_units_reentered_through_language");
        if back_echo.as_deref() != Ok(want_echo.as_str()) {
            out.oracle_fail(
                &format!("show-lang:{}:{}", s.name, text),
                &format!("show {} {}", s.name, ident),
                &format!(
                    "`{}` is {} {} and is displayed as `{}`; entered again, `{}` is read as `{}`",
                    ident,
                    fmt_prefix(want.0),
                    want.1,
                    text,
                    text,
                    match &back_echo {
                        Ok(e) => e.clone(),
                        Err(e) => e.clone(),
                    }
                ),
            );
        }
    }
}

fn canon_map(s: &Session) -> HashMap<String, (String, bool, bool)> {
    s.ctx.verif_canonical_names().into_iter().map(|(n, c, cs, cl, _, _, _)| (n, (c, cs, cl))).collect()
}

fn check_display(out: &mut Out, s: &Session) {
    let canon = canon_map(s);
    let mut lang = s.ctx.clone();
    let mut ids: Vec<&String> = s.rm.map.keys().collect();
    ids.sort();
    for id in ids {
        check_show(out, s, &mut lang, id, &canon);
    }
    out.case(&format!("display {}", s.name), true);
}

// ------------------------------------------------------------------------------------------- random definition sequences

#[derive(Clone, Debug, PartialEq)]
enum Op {
    Unit(AliasRow),
    Other(String),
    Shadow(String),
    Query(String),
}

impl Op {
    fn text(&self) -> String {
        match self {
            Op::Unit(r) => unit_line(r),
            Op::Other(x) => format!("other {}", x),
            Op::Shadow(x) => format!("shadow {}", x),
            Op::Query(x) => format!("?{}", x),
        }
    }
    fn parse(s: &str) -> Option<Op> {
        let s = s.trim();
        if let Some(q) = s.strip_prefix('?') {
            return Some(Op::Query(q.to_string()));
        }
        let w: Vec<&str> = s.split_whitespace().collect();
        match w.as_slice() {
            ["unit", a, f, full] if f.len() == 4 => {
                let c: Vec<bool> = f.chars().map(|c| c == '1').collect();
                Some(Op::Unit(AliasRow { alias: a.to_string(), short: c[0], long: c[1], metric: c[2], binary: c[3], full_name: full.to_string() }))
            }
            ["other", x] => Some(Op::Other(x.to_string())),
            ["shadow", x] => Some(Op::Shadow(x.to_string())),
            _ => None,
        }
    }
}

const STEMS: &[&str] = &[
    "m", "g", "s", "a", "in", "at", "eter", "x", "da", "am", "illim", "ilo", "i", "B", "b", "it", "ar", "bar", "min", "cd", "Pa", "T", "h", "d", "k", "u", "µ", "μ", "ol", "mol", "zq", "xw", "vv", "qx", "ibi", "ibit",
    "ega", "eci", "eca", "e", "ca", "bi", "icro", "ico", "etta", "o", "to", "ans", "_", "meter", "byte", "ebi", "obi",
];

fn random_name(rng: &mut Rng, prefixes: &[PrefixRow]) -> String {
    let mut s = String::new();
    let np = match rng.below(10) {
        0..=3 => 0,
        4..=8 => 1,
        _ => 2,
    };
    for _ in 0..np {
        let p = rng.pick(prefixes);
        if rng.chance(1, 2) {
            s.push_str(&p.long);
        } else {
            { let x: &String = rng.pick(&p.shorts); s.push_str(x); }
        }
    }
    { let x: &&str = rng.pick(STEMS); s.push_str(x); }
    s
}

fn random_seq(rng: &mut Rng, prefixes: &[PrefixRow], len: usize) -> Vec<Op> {
    let mut ops = Vec::new();
    let mut names: Vec<String> = Vec::new();
    for _ in 0..len {
        let name = if !names.is_empty() && rng.chance(1, 5) { rng.pick(&names).clone() } else { random_name(rng, prefixes) };
        names.push(name.clone());
        let op = match rng.below(100) {
            0..=64 => {
                let (short, long) = *rng.pick(&[(true, false), (false, true), (true, true), (false, false), (true, false), (false, true)]);
                let (metric, binary) = *rng.pick(&[(true, false), (true, false), (true, true), (false, true), (false, false)]);
                let full = if rng.chance(1, 3) && !names.is_empty() { rng.pick(&names).clone() } else { name.clone() };
                Op::Unit(AliasRow { alias: name, short, long, metric, binary, full_name: full })
            }
            65..=84 => Op::Other(name),
            85..=91 => Op::Shadow(name),
            _ => Op::Query(name),
        };
        ops.push(op);
    }
    ops
}

struct SeqRun {
    /// (request, implementation answer)
    lines: Vec<(String, String)>,
    oracle: Option<String>,
    accepted_units: usize,
    rejected: usize,
}

/// runs the ops on a fresh real parser; afterwards asks about every identifier the accepted definitions can form
/// (and the rejected ones); the oracle is the brute-force reading table of the *accepted* definitions
fn run_seq(ops: &[Op], prefixes: &[PrefixRow]) -> SeqRun {
    let mut real = Parser::new();
    let mut lines = vec![("reset".to_string(), "ok".to_string())];
    let mut accepted: Vec<AliasRow> = Vec::new();
    let mut others: HashSet<String> = HashSet::new();
    let mut shadowed: HashSet<String> = HashSet::new();
    let mut oracle: Option<String> = None;
    let mut rejected = 0;
    let mut queries: Vec<String> = Vec::new();
    let check_query = |real: &Parser, accepted: &[AliasRow], others: &HashSet<String>, shadowed: &HashSet<String>, q: &str, lines: &mut Vec<(String, String)>, oracle: &mut Option<String>| {
        let got = real.parse(q);
        lines.push((format!("parse {}", q), fmt_resolved(&got)));
        let rm = reading_map(accepted, prefixes);
        if let Some((id, a, c)) = rm.collisions.first() {
            if oracle.is_none() {
                *oracle = Some(format!("accepted definitions give `{}` two readings: {:?} and {:?}", id, a, c));
            }
        }
        for id in rm.map.keys() {
            if others.contains(id) && !shadowed.contains(id) && oracle.is_none() {
                *oracle = Some(format!("`{}` is both an accepted non-shadowing identifier and a unit reading", id));
            }
        }
        let all_others: HashSet<String> = others.union(shadowed).cloned().collect();
        let want = expected(&rm, &all_others, q);
        if got != want && oracle.is_none() {
            *oracle = Some(format!("`{}` resolves to [{}] but the accepted definitions say [{}]", q, fmt_resolved(&got), fmt_resolved(&want)));
        }
    };
    for op in ops {
        match op {
            Op::Unit(r) => {
                let res = real.add_unit(&r.alias, r.short, r.long, r.metric, r.binary, &r.full_name);
                lines.push((unit_line(r), fmt_add(&res)));
                if res.is_ok() {
                    accepted.push(r.clone());
                    for (s, _) in all_readings(std::slice::from_ref(r), prefixes) {
                        queries.push(s);
                    }
                } else {
                    rejected += 1;
                    queries.push(r.alias.clone());
                    queries.push(format!("k{}", r.alias));
                    queries.push(format!("kilo{}", r.alias));
                }
            }
            Op::Other(x) => {
                let res = real.add_other_identifier(x);
                lines.push((format!("other {}", x), fmt_add(&res)));
                if res.is_ok() {
                    others.insert(x.clone());
                } else {
                    rejected += 1;
                }
                queries.push(x.clone());
            }
            Op::Shadow(x) => {
                let res = real.add_shadowing_identifier(x);
                lines.push((format!("shadow {}", x), fmt_add(&res)));
                if res.is_ok() {
                    shadowed.insert(x.clone());
                } else {
                    rejected += 1;
                }
                queries.push(x.clone());
            }
            Op::Query(q) => {
                check_query(&real, &accepted, &others, &shadowed, q, &mut lines, &mut oracle);
            }
        }
    }
    queries.sort();
    queries.dedup();
    // the state check at the end: every formable identifier
    let rm = reading_map(&accepted, prefixes);
    if let Some((id, a, c)) = rm.collisions.first() {
        if oracle.is_none() {
            oracle = Some(format!("accepted definitions give `{}` two readings: {:?} and {:?}", id, a, c));
        }
    }
    let all_others: HashSet<String> = others.union(&shadowed).cloned().collect();
    for q in &queries {
        let got = real.parse(q);
        lines.push((format!("parse {}", q), fmt_resolved(&got)));
        let want = expected(&rm, &all_others, q);
        if got != want && oracle.is_none() {
            oracle = Some(format!("`{}` resolves to [{}] but the accepted definitions say [{}]", q, fmt_resolved(&got), fmt_resolved(&want)));
        }
        if others.contains(q) && !shadowed.contains(q) && rm.map.contains_key(q) && oracle.is_none() {
            oracle = Some(format!("`{}` is both an accepted non-shadowing identifier and a unit reading", q));
        }
    }
    SeqRun { lines, oracle, accepted_units: accepted.len(), rejected }
}

fn run_seq_guarded(ops: &[Op], prefixes: &[PrefixRow]) -> SeqRun {
    match catch(std::panic::AssertUnwindSafe(|| run_seq(ops, prefixes))) {
        Ok(r) => r,
        Err(p) => SeqRun { lines: vec![], oracle: Some(format!("panic {}", p)), accepted_units: 0, rejected: 0 },
    }
}

fn emit_seq(out: &mut Out, ops: &[Op], prefixes: &[PrefixRow], ms: &mut ModelState) {
    let r = run_seq_guarded(ops, prefixes);
    let _ = ms;
    for (q, a) in &r.lines {
        if q.split(' ').skip(1).all(|w| wire_ok(w)) {
            out.line(q, a);
        }
    }
    let text = ops.iter().map(|o| o.text()).collect::<Vec<_>>().join(";");
    out.count_n("seq_units_accepted", r.accepted_units as u64);
    out.count_n("seq_definitions_rejected", r.rejected as u64);
    out.count_n("seq_queries", r.lines.iter().filter(|(q, _)| q.starts_with("parse")).count() as u64);
    for (_, a) in &r.lines {
        if a.starts_with("clash") {
            out.count("seq_result_clash");
        } else if a == "reserved" {
            out.count("seq_result_reserved");
        } else if a.starts_with("unit") {
            out.count("seq_parse_unit");
        } else if a == "plain" {
            out.count("seq_parse_plain");
        }
    }
    out.case(&format!("seq {}", text), r.accepted_units >= 2 && r.rejected >= 1);
    if r.oracle.is_some() {
        let small = shrink_seq(ops, |c| run_seq_guarded(c, prefixes).oracle.is_some());
        let w = run_seq_guarded(&small, prefixes).oracle.unwrap_or_default();
        let t = small.iter().map(|o| o.text()).collect::<Vec<_>>().join(";");
        out.oracle_fail(&format!("seq:{}", t), &format!("seq {}", t), &w);
    }
}

// ---- through the language, on top of the prelude

#[derive(Clone, Debug, PartialEq)]
enum LOp {
    /// name, metric, binary, aliases with annotation (s l b n d)
    DefUnit(String, bool, bool, Vec<(String, char)>),
    Let(String),
    Fn(String, Vec<String>),
    Query(String),
}

impl LOp {
    fn text(&self) -> String {
        match self {
            LOp::DefUnit(n, m, bi, al) => format!(
                "defunit {} {}{} {}",
                n,
                b(*m),
                b(*bi),
                if al.is_empty() { "-".to_string() } else { al.iter().map(|(a, c)| format!("{}:{}", a, c)).collect::<Vec<_>>().join(",") }
            ),
            LOp::Let(x) => format!("let {}", x),
            LOp::Fn(f, ps) => format!("fn {} {}", f, if ps.is_empty() { "-".to_string() } else { ps.join(",") }),
            LOp::Query(x) => format!("?{}", x),
        }
    }
    fn parse(s: &str) -> Option<LOp> {
        let s = s.trim();
        if let Some(q) = s.strip_prefix('?') {
            return Some(LOp::Query(q.to_string()));
        }
        let w: Vec<&str> = s.split_whitespace().collect();
        match w.as_slice() {
            ["defunit", n, f, al] if f.len() == 2 => {
                let c: Vec<bool> = f.chars().map(|c| c == '1').collect();
                let mut v = Vec::new();
                if *al != "-" {
                    for item in al.split(',') {
                        let (a, k) = item.rsplit_once(':')?;
                        v.push((a.to_string(), k.chars().next()?));
                    }
                }
                Some(LOp::DefUnit(n.to_string(), c[0], c[1], v))
            }
            ["let", x] => Some(LOp::Let(x.to_string())),
            ["fn", f, ps] => Some(LOp::Fn(f.to_string(), if *ps == "-" { vec![] } else { ps.split(',').map(|p| p.to_string()).collect() })),
            _ => None,
        }
    }
    fn source(&self) -> String {
        match self {
            LOp::DefUnit(n, m, bi, al) => {
                let mut s = String::new();
                if *m {
                    s.push_str("@metric_prefixes\n");
                }
                if *bi {
                    s.push_str("@binary_prefixes\n");
                }
                if !al.is_empty() {
                    let items: Vec<String> = al
                        .iter()
                        .map(|(a, c)| match c {
                            's' => format!("{}: short", a),
                            'l' => format!("{}: long", a),
                            'b' => format!("{}: both", a),
                            'n' => format!("{}: none", a),
                            _ => a.clone(),
                        })
                        .collect();
                    s.push_str(&format!("@aliases({})\n", items.join(", ")));
                }
                s.push_str(&format!("unit {} = 7", n));
                s
            }
            LOp::Let(x) => format!("let {} = 7", x),
            LOp::Fn(f, ps) => format!("fn {}({}) = 7", f, ps.join(", ")),
            LOp::Query(_) => String::new(),
        }
    }
}

fn form_of(c: char) -> (bool, bool) {
    match c {
        's' => (true, false),
        'b' => (true, true),
        'n' => (false, false),
        _ => (false, true),
    }
}

const LANG_STEMS: &[&str] = &[
    "zq", "xw", "vv", "qx", "zqs", "m", "g", "s", "in", "eter", "illim", "ar", "bar", "min", "cd", "Pa", "it", "B", "yte", "ol", "at", "am", "ilo", "ibit", "wvu", "uvw", "kz", "Kiz", "mz", "dz", "daz", "az",
    "z", "Z", "zz", "ton", "tonne", "hour", "eV", "cal", "Wh", "pi", "foo", "bar", "baz",
];

fn lang_name(rng: &mut Rng, prefixes: &[PrefixRow]) -> String {
    let mut s = String::new();
    if rng.chance(2, 5) {
        let p = rng.pick(prefixes);
        if rng.chance(1, 2) {
            s.push_str(&p.long);
        } else {
            let sh = rng.pick(&p.shorts);
            // µ and μ are fine in identifiers
            s.push_str(sh);
        }
    }
    { let x: &&str = rng.pick(LANG_STEMS); s.push_str(x); }
    s
}

fn random_lang(rng: &mut Rng, prefixes: &[PrefixRow], len: usize) -> Vec<LOp> {
    let mut ops = Vec::new();
    let mut names: Vec<String> = Vec::new();
    for _ in 0..len {
        let mut fresh = |rng: &mut Rng, names: &mut Vec<String>| {
            let n = if !names.is_empty() && rng.chance(1, 6) { rng.pick(names).clone() } else { lang_name(rng, prefixes) };
            names.push(n.clone());
            n
        };
        let op = match rng.below(100) {
            0..=59 => {
                let n = fresh(rng, &mut names);
                let (m, bi) = *rng.pick(&[(true, false), (true, false), (true, true), (false, true), (false, false)]);
                let na = rng.below(4);
                let mut al = Vec::new();
                for _ in 0..na {
                    let a = if rng.chance(1, 6) { n.clone() } else { fresh(rng, &mut names) };
                    al.push((a, *rng.pick(&['s', 'l', 'b', 'n', 'd', 'd', 's'])));
                }
                LOp::DefUnit(n, m, bi, al)
            }
            60..=74 => LOp::Let(fresh(rng, &mut names)),
            75..=86 => {
                let f = fresh(rng, &mut names);
                let np = rng.below(3);
                let mut ps = Vec::new();
                for _ in 0..np {
                    let p = if rng.chance(1, 2) { rng.pick(&["km", "h", "m", "meter", "kilometer", "zq", "kzq"]).to_string() } else { fresh(rng, &mut names) };
                    if !ps.contains(&p) {
                        ps.push(p);
                    }
                }
                LOp::Fn(f, ps)
            }
            _ => LOp::Query(fresh(rng, &mut names)),
        };
        ops.push(op);
    }
    ops
}

struct LangRun {
    lines: Vec<(String, String)>,
    oracle: Option<String>,
    accepted: usize,
    rejected: usize,
    later_errors: usize,
}

/// the statements run through `Context::interpret` on a clone of the prelude session
fn run_lang(ops: &[LOp], base: &Session, prefixes: &[PrefixRow]) -> LangRun {
    let mut ctx = base.ctx.clone();
    let mut lines = vec![(format!("restore {}", base.name), "ok".to_string())];
    let mut rows: Vec<AliasRow> = if base.decl.is_empty() { base.rows.clone() } else { base.decl.clone() };
    let mut others: HashSet<String> = base.other_set.clone();
    let mut oracle: Option<String> = None;
    let (mut accepted, mut rejected, mut later_errors) = (0, 0, 0);
    let mut queries: Vec<String> = Vec::new();
    for op in ops {
        if let LOp::Query(q) = op {
            queries.push(q.clone());
            continue;
        }
        let src = op.source();
        let res = ctx.interpret(&src, CodeSource::Text);
        // the declaration, read independently of the implementation
        let decl: Vec<AliasRow> = match op {
            LOp::DefUnit(n, m, bi, al) => {
                let mut list: Vec<(String, (bool, bool))> = vec![(n.clone(), (false, true))];
                for (a, c) in al {
                    if a == n {
                        list[0].1 = form_of(*c);
                    } else {
                        list.push((a.clone(), form_of(*c)));
                    }
                }
                list.into_iter().map(|(a, (s, l))| AliasRow { alias: a, short: s, long: l, metric: *m, binary: *bi, full_name: n.clone() }).collect()
            }
            _ => vec![],
        };
        let answer = match &res {
            Ok(_) => {
                accepted += 1;
                match op {
                    LOp::DefUnit(n, ..) => {
                        let canon = ctx.verif_canonical_names().into_iter().find(|x| x.0 == *n);
                        for d in &decl {
                            for (s, _) in all_readings(std::slice::from_ref(d), prefixes) {
                                queries.push(s);
                            }
                        }
                        rows.extend(decl.iter().cloned());
                        match canon {
                            Some((_, c, cs, cl, ..)) => format!("ok canon={}:{}{}", c, b(cs), b(cl)),
                            None => "ok canon=?".to_string(),
                        }
                    }
                    LOp::Let(x) => {
                        others.insert(x.clone());
                        queries.push(x.clone());
                        "ok".to_string()
                    }
                    LOp::Fn(f, ps) => {
                        others.insert(f.clone());
                        queries.push(f.clone());
                        queries.extend(ps.iter().cloned());
                        "ok".to_string()
                    }
                    LOp::Query(_) => unreachable!(),
                }
            }
            Err(e) => match &**e {
                NumbatError::NameResolutionError(NameResolutionError::ReservedIdentifier(_)) => {
                    rejected += 1;
                    "reserved".to_string()
                }
                NumbatError::NameResolutionError(NameResolutionError::IdentifierClash { conflicting_identifier, .. }) => {
                    rejected += 1;
                    queries.push(conflicting_identifier.clone());
                    format!("clash || {}", conflicting_identifier)
                }
                other => {
                    later_errors += 1;
                    format!("later-error {}", other.to_string().replace('\n', " ").chars().take(60).collect::<String>())
                }
            },
        };
        lines.push((op.text(), answer));
    }
    queries.sort();
    queries.dedup();
    let rm = reading_map(&rows, prefixes);
    if let Some((id, a, c)) = rm.collisions.first() {
        oracle = Some(format!("after the accepted definitions `{}` has two readings: {:?} and {:?}", id, a, c));
    }
    {
        // what the accepted statements added to the registered table is exactly what they declare
        let have = ctx.verif_prefix_table();
        let have_new: Vec<AliasRow> = have.iter().skip(base.rows.len()).cloned().collect();
        let want_new: Vec<AliasRow> = rows.iter().skip(if base.decl.is_empty() { base.rows.len() } else { base.decl.len() }).cloned().collect();
        if (have_new != want_new || have.len() < base.rows.len()) && oracle.is_none() {
            let extra: Vec<&AliasRow> = have_new.iter().filter(|r| !want_new.contains(r)).take(3).collect();
            let missing: Vec<&AliasRow> = want_new.iter().filter(|r| !have_new.contains(r)).take(3).collect();
            oracle = Some(format!("the registered table differs from the accepted declarations: extra {:?}, missing {:?}", extra, missing));
        }
    }
    for q in &queries {
        let got = ctx.verif_resolve(q);
        lines.push((format!("parse {}", q), fmt_resolved(&got)));
        let want = expected(&rm, &others, q);
        if got != want && oracle.is_none() {
            oracle = Some(format!("`{}` resolves to [{}] but the accepted declarations say [{}]", q, fmt_resolved(&got), fmt_resolved(&want)));
        }
        if others.contains(q) && rm.map.contains_key(q) && oracle.is_none() {
            oracle = Some(format!("`{}` is both a variable/function and a unit reading", q));
        }
        // displayed form of a freshly defined prefixed unit reads back
        if let Resolved::Unit { prefix, full_name, .. } = &want {
            if let Some(text) = ctx.verif_prefixed_unit_text(q) {
                let back = ctx.verif_resolve(&text);
                let ok = matches!(&back, Resolved::Unit { prefix: p2, full_name: f2, .. } if p2 == prefix && f2 == full_name);
                if !ok {
                    lines.push((format!("# display {} -> {}", q, text), "skip".into()));
                }
            }
        }
    }
    LangRun { lines, oracle, accepted, rejected, later_errors }
}

fn run_lang_guarded(ops: &[LOp], base: &Session, prefixes: &[PrefixRow]) -> LangRun {
    match catch(std::panic::AssertUnwindSafe(|| run_lang(ops, base, prefixes))) {
        Ok(r) => r,
        Err(p) => LangRun { lines: vec![], oracle: Some(format!("panic {}", p)), accepted: 0, rejected: 0, later_errors: 0 },
    }
}

fn emit_lang(out: &mut Out, ops: &[LOp], base: &Session, prefixes: &[PrefixRow], ms: &mut ModelState) {
    ensure_loaded(out, ms, base);
    let r = run_lang_guarded(ops, base, prefixes);
    for (q, a) in &r.lines {
        if q.starts_with('#') {
            out.count("lang_user_unit_display_does_not_read_back");
            continue;
        }
        if a.starts_with("later-error") {
            // the statement failed after the prefix transformer: the session was rolled back; tell the model nothing
            out.count("lang_later_error");
            continue;
        }
        out.line(q, a);
    }
    out.count_n("lang_definitions_accepted", r.accepted as u64);
    out.count_n("lang_definitions_rejected", r.rejected as u64);
    out.count_n("lang_queries", r.lines.iter().filter(|(q, _)| q.starts_with("parse")).count() as u64);
    let text = ops.iter().map(|o| o.text()).collect::<Vec<_>>().join(";");
    out.case(&format!("lang {}", text), r.accepted >= 1 && r.rejected >= 1);
    let _ = r.later_errors;
    if r.oracle.is_some() {
        let small = shrink_seq(ops, |c| run_lang_guarded(c, base, prefixes).oracle.is_some());
        let w = run_lang_guarded(&small, base, prefixes).oracle.unwrap_or_default();
        let t = small.iter().map(|o| o.text()).collect::<Vec<_>>().join(";");
        out.oracle_fail(&format!("lang:{}", t), &format!("lang {}", t), &w);
    }
}

// ------------------------------------------------------------------------------------------- generated-table tie and dump

struct UnitGroup {
    full: String,
    canon: String,
    cs: bool,
    cl: bool,
    metric: bool,
    binary: bool,
    aliases: Vec<(String, bool, bool)>,
}

/// the session's table grouped by unit (consecutive aliases of one unit), with the registry's canonical name
fn unit_groups(s: &Session) -> Vec<UnitGroup> {
    let canon = s.ctx.verif_canonical_names();
    let cm: HashMap<&str, &(String, String, bool, bool, bool, bool, Vec<(String, bool, bool)>)> = canon.iter().map(|c| (c.0.as_str(), c)).collect();
    let mut v: Vec<UnitGroup> = Vec::new();
    for r in &s.rows {
        let same = v.last().map(|g| g.full == r.full_name && g.metric == r.metric && g.binary == r.binary).unwrap_or(false);
        if !same {
            let (c, cs, cl) = match cm.get(r.full_name.as_str()) {
                Some(c) => (c.1.clone(), c.2, c.3),
                None => ("?".to_string(), false, false),
            };
            v.push(UnitGroup { full: r.full_name.clone(), canon: c, cs, cl, metric: r.metric, binary: r.binary, aliases: vec![] });
        }
        v.last_mut().unwrap().aliases.push((r.alias.clone(), r.short, r.long));
    }
    v
}

fn group_text(g: &UnitGroup) -> String {
    format!(
        "{} canon={}:{}{} {}{} {}",
        g.full,
        g.canon,
        b(g.cs),
        b(g.cl),
        b(g.metric),
        b(g.binary),
        g.aliases.iter().map(|(a, s, l)| format!("{}:{}{}", a, b(*s), b(*l))).collect::<Vec<_>>().join(",")
    )
}

fn prefix_text(p: &PrefixRow) -> String {
    format!("{} {} {} {} {}", p.long, p.shorts.join(","), fmt_prefix(p.prefix), p.text_short, p.text_long)
}

fn dump_table(path: &str) {
    let prefixes = prefix_rows();
    let s = session("all", &prefixes);
    let mut t = String::new();
    for p in &prefixes {
        t.push_str(&format!("P\t{}\t{}\t{}\t{}\t{}\t{}\n", p.long, p.shorts.join(","), if p.prefix.binary { "B" } else { "M" }, p.prefix.exp, p.text_short, p.text_long));
    }
    for g in unit_groups(&s) {
        t.push_str(&format!(
            "U\t{}\t{}\t{}{}\t{}{}\t{}\n",
            g.full,
            g.canon,
            b(g.cs),
            b(g.cl),
            b(g.metric),
            b(g.binary),
            g.aliases.iter().map(|(a, s, l)| format!("{}:{}{}", a, b(*s), b(*l))).collect::<Vec<_>>().join(",")
        ));
    }
    std::fs::write(path, t).expect("write table");
}

/// the regenerated Lean table (over which the kernel obligations were proved) is the table of this run
fn check_gen_table(out: &mut Out, s: &Session, prefixes: &[PrefixRow]) {
    for (i, p) in prefixes.iter().enumerate() {
        out.line(&format!("genprefix {}", i), &prefix_text(p));
    }
    out.line(&format!("genprefix {}", prefixes.len()), "none");
    let groups = unit_groups(s);
    for (i, g) in groups.iter().enumerate() {
        out.line(&format!("genrow {}", i), &group_text(g));
    }
    out.line(&format!("genrow {}", groups.len()), "none");
    // the generated table is accepted, call by call, by the model's addUnit (compiled execution of `registerRows`)
    out.line("genregister", &format!("ok {}", s.rows.len()));
    // Prefix::as_string_short / as_string_long for every exponent around the table, including the fall-through arms
    for binary in [false, true] {
        for exp in -40..=110 {
            let p = PrefixV { binary, exp };
            for short in [true, false] {
                out.line(&format!("ptext {} {}", fmt_prefix(p), b(short)), &p.text(short));
                out.count("prefix_texts");
            }
        }
    }
    out.count_n("generated_table_rows_compared", (groups.len() + prefixes.len()) as u64);
}

// ------------------------------------------------------------------------------------------- replay lines

fn run_replay_line(out: &mut Out, l: &str, sessions: &mut BTreeMap<&'static str, Session>, prefixes: &[PrefixRow], ms: &mut ModelState) {
    let l = l.trim();
    if l.is_empty() || l.starts_with('#') {
        return;
    }
    let (cmd, rest) = l.split_once(' ').unwrap_or((l, ""));
    let mut get = |name: &str, sessions: &mut BTreeMap<&'static str, Session>| -> &'static str {
        let key: &'static str = if name == "all" { "all" } else { "prelude" };
        if !sessions.contains_key(key) {
            sessions.insert(key, session(key, prefixes));
        }
        key
    };
    match cmd {
        "resolve" => {
            let (sn, id) = rest.split_once(' ').unwrap_or((rest, ""));
            let k = get(sn, sessions);
            let s = &sessions[k];
            ensure_loaded(out, ms, s);
            check_resolve(out, s, id, "replayed_resolve");
            for (cid, a, c) in s.rm.collisions.iter().filter(|(cid, _, _)| cid == id) {
                out.oracle_fail(&format!("collision:{}:{}", s.name, cid), &format!("resolve {} {}", s.name, cid), &format!("identifier `{}` has two readings: {:?} and {:?}", cid, a, c));
            }
            if s.other_set.contains(id) {
                if let Some(r) = s.rm.map.get(id) {
                    out.oracle_fail(&format!("collision-other:{}:{}", s.name, id), &format!("resolve {} {}", s.name, id), &format!("identifier `{}` is both a variable/function and the unit reading {:?}", id, r));
                }
            }
            let names: BTreeSet<String> = s.ctx.variable_names().chain(s.ctx.function_names()).map(|x| x.to_string()).collect();
            if names.contains(id) {
                let got = s.ctx.verif_resolve(id);
                if got != Resolved::Plain {
                    out.oracle_fail(&format!("name-is-unit:{}:{}", s.name, id), &format!("resolve {} {}", s.name, id), &format!("`{}` is the name of a variable or function of the standard library and is read as [{}]", id, fmt_resolved(&got)));
                }
            }
            out.case(l, true);
        }
        "show" => {
            let (sn, id) = rest.split_once(' ').unwrap_or((rest, ""));
            let k = get(sn, sessions);
            let s = &sessions[k];
            let canon = canon_map(s);
            let mut lang = s.ctx.clone();
            check_show(out, s, &mut lang, id, &canon);
            out.case(l, true);
        }
        "declared" => {
            let k = get(rest, sessions);
            check_declared(out, &sessions[k]);
        }
        "replay" => {
            let k = get(rest, sessions);
            check_replay(out, &sessions[k]);
        }
        "seq" => {
            let ops: Vec<Op> = rest.split(';').filter_map(Op::parse).collect();
            emit_seq(out, &ops, prefixes, ms);
        }
        "lang" => {
            let ops: Vec<LOp> = rest.split(';').filter_map(LOp::parse).collect();
            let k = get("prelude", sessions);
            emit_lang(out, &ops, &sessions[k], prefixes, ms);
        }
        _ => {}
    }
}

// ------------------------------------------------------------------------------------------- main

fn main() {
    let args = Args::parse();
    if let Some(p) = args.extra.get("dump-table") {
        dump_table(p);
        return;
    }
    let mut out = Out::new(&args);
    out.rule = "EXHAUSTIVE part (both tiers, sessions `use prelude` and `use all`): every registered unit alias x every row of the prefix table x (long name, every short spelling) — accepted or not — plus the bare alias, 14 near misses per alias, every prefix alone, every non-unit identifier, every variable/function name; all readings pairwise collision-checked; the registered table compared with a plain-text reading of the @aliases/@metric_prefixes/@binary_prefixes declarations in the .nbt files; the table replayed through a fresh real parser and the model in two orders; the displayed text of every accepted (prefix, alias) re-resolved (hook text for all, `1 <ident>` through the interpreter for a sample in quick and all in thorough). RANDOM part: definition sequences on a fresh parser through the real API (names = up to two prefix strings + a stem from a clash-prone list; unit/other/shadow/query) and statement sequences through the language on top of the prelude (unit definitions with @metric_prefixes/@binary_prefixes/@aliases annotations, let, fn with parameters), each followed by resolving every identifier the definitions can form. distinct = distinct case text; non-trivial = an alias that accepts prefixes (exhaustive part), a sequence with >= 2 accepted units and >= 1 rejected definition (seq), >= 1 accepted and >= 1 rejected statement (lang)".into();

    // The oracle's prefix table is the *documented* one (SI brochure 9th ed. incl. 2022 additions; IEC 80000-13
    // binary prefixes up to 2^100 as numbat documents them), written out here, NOT the parser's own table: a
    // prefix missing from or altered in the parser then shows up as a concrete identifier that does not resolve.
    let prefixes = documented_prefix_rows();
    {
        let own = prefix_rows();
        for d in &prefixes {
            match own.iter().find(|o| o.prefix == d.prefix) {
                None => out.count("documented_prefix_missing_from_parser_table"),
                Some(o) => {
                    if o.long != d.long || o.shorts != d.shorts || o.text_short != d.text_short || o.text_long != d.text_long {
                        out.count("documented_prefix_differs_in_parser_table");
                    }
                }
            }
        }
        for o in &own {
            if !prefixes.iter().any(|d| d.prefix == o.prefix) {
                out.count("parser_prefix_not_documented");
            }
        }
    }
    let mut ms = ModelState { marks: HashSet::new() };
    let mut sessions: BTreeMap<&'static str, Session> = BTreeMap::new();

    // the standard library must load at all: a definition of the standard library that the prefix parser rejects
    // (identifier clash, reserved identifier) shows up here
    for (name, all) in [("prelude", false), ("all", true)] {
        if let Err(e) = load_ctx(all) {
            out.oracle_fail(
                &format!("load:{}", name),
                &format!("replay {}", name),
                &format!("`use {}` fails: {}", name, e.replace('\n', " ")),
            );
            out.case(&format!("load {}", name), true);
            out.finish();
            return;
        }
    }

    if let Some(p) = &args.replay {
        for l in read_lines(p) {
            run_replay_line(&mut out, &l, &mut sessions, &prefixes, &mut ms);
        }
        out.finish();
        return;
    }

    if let Some(dir) = args.extra.get("corpus") {
        let mut files: Vec<_> = std::fs::read_dir(dir).map(|d| d.filter_map(|e| e.ok()).map(|e| e.path()).collect()).unwrap_or_default();
        files.sort();
        for f in files {
            for l in read_lines(&f) {
                run_replay_line(&mut out, &l, &mut sessions, &prefixes, &mut ms);
                out.count("corpus_lines");
            }
        }
    }

    // ---- exhaustive part
    for name in ["prelude", "all"] {
        if !sessions.contains_key(name) {
            sessions.insert(name, session(name, &prefixes));
        }
        let s = &sessions[name];
        out.count_n(&format!("aliases_{}", name), s.rows.len() as u64);
        out.count_n(&format!("other_identifiers_{}", name), s.others.len() as u64);
        if name == "all" {
            check_gen_table(&mut out, s, &prefixes);
        }
        check_replay(&mut out, s);
        ensure_loaded(&mut out, &mut ms, s);
        check_collisions(&mut out, s);
        check_exhaustive(&mut out, s, &prefixes);
        check_declared(&mut out, s);
        check_display(&mut out, s);
    }
    out.extra.insert(
        "exhaustive".into(),
        "every (alias, prefix row, long/short spelling) combination of `use prelude` and of `use all`, accepted and not accepted; every displayed prefixed unit".into(),
    );

    // ---- random part
    let mut rng = Rng::new(args.seed);
    let n_seq = args.count(400, 8000);
    for i in 0..n_seq {
        let len = 4 + (i % 5) * 3;
        let ops = random_seq(&mut rng, &prefixes, len);
        emit_seq(&mut out, &ops, &prefixes, &mut ms);
    }
    let n_lang = args.count(150, 3000);
    let base = &sessions["prelude"];
    for i in 0..n_lang {
        let len = 3 + (i % 4) * 2;
        let ops = random_lang(&mut rng, &prefixes, len);
        emit_lang(&mut out, &ops, base, &prefixes, &mut ms);
    }
    out.finish();
}
