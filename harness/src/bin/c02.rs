//! C02 — static checking accepts exactly the dimensionally consistent programs.
//!
//! Streams (request line → implementation answer; the Lean driver `drv_c02` must print the same answer):
//!   solve <constraints>        real `ConstraintSet::add` + `ConstraintSet::solve` (hook numbat::verif::c02::solve)
//!   dtype <op> <factors…>      real `DType` canonicalisation / multiply / divide / power
//!   apply <subst> || <type>    real `ApplySubstitution for Type`
//! Oracle on the implementation (no model involved), per generated program and ≥ 3 mis-dimensioned variants:
//!   prog <S-expressions>       accept/reject and the canonical type of every definition against the
//!                              independent exponent-vector analysis of c02_parts/oracle.rs; a rejected
//!                              input prints nothing and defines nothing.
#[path = "c02_parts/ast.rs"]
mod ast;
#[path = "c02_parts/gen.rs"]
mod gen;
#[path = "c02_parts/oracle.rs"]
mod oracle;
#[path = "c02_parts/q.rs"]
mod q;
#[path = "c02_parts/systems.rs"]
mod systems;
#[path = "c02_parts/tables.rs"]
mod tables;

use ast::*;
use gen::*;
use numbat::module_importer::BuiltinModuleImporter;
use numbat::resolver::CodeSource;
use numbat::{Context, InterpreterSettings, NumbatError};
use nvh::*;
use oracle::*;
use std::sync::{Arc, Mutex};

/// the session every program runs in; `Err` = the standard prelude itself is rejected
pub fn prelude_context() -> Result<Context, String> {
    let mut ctx = Context::new(BuiltinModuleImporter::default());
    match catch(std::panic::AssertUnwindSafe(|| ctx.interpret("use prelude", CodeSource::Internal).map(|_| ()).map_err(|e| format!("{e}")))) {
        Ok(Ok(())) => Ok(ctx),
        Ok(Err(e)) => Err(e),
        Err(p) => Err(format!("panic {p}")),
    }
}

/// compares the hand-written unit table with the run-time unit registry (not the type checker)
fn self_check(ctx: &Context) -> Result<usize, String> {
    use numbat::value::Value;
    use numbat::InterpreterResult;
    let mut n = 0;
    for (name, exps) in tables::UNITS {
        let mut c = ctx.clone();
        let r = c.interpret(name, CodeSource::Text).map_err(|e| format!("unit {name}: {e}"))?;
        let InterpreterResult::Value(Value::Quantity(q)) = r.1 else {
            return Err(format!("unit {name}: not a quantity"));
        };
        let (base, _) = q.unit().to_base_unit_representation();
        let mut v = q::V::zero();
        for f in base.iter() {
            let bn = f.unit_id.name.to_string();
            let Some((_, axis)) = tables::BASE_UNITS.iter().find(|(b, _)| *b == bn) else {
                return Err(format!("unit {name}: base unit {bn} not in the table"));
            };
            let e = q::Q::new(*f.exponent.numer(), *f.exponent.denom());
            v = v.add(&q::V::base(axis).scale(e));
        }
        if v != tables::vec7(exps) {
            return Err(format!("unit {name}: table says {} but the run-time registry says {}", tables::vec7(exps).show(), v.show()));
        }
        n += 1;
    }
    Ok(n)
}

struct Run {
    /// "accept" | "reject:<TypeCheckError variant>" | "other:<stage>"
    verdict: String,
    /// canonical type line per statement (only when the front end accepted)
    types: Vec<String>,
    printed: Vec<String>,
    /// names the program defines that are visible afterwards
    leaked: Vec<String>,
    front: Result<Vec<String>, String>,
}

fn run_numbat(base: &Context, p: &Prog) -> Run {
    let src = prog_src(p);
    let front = base.verif_c02_check(&src);
    let mut ctx = base.clone();
    let out = Arc::new(Mutex::new(Vec::<String>::new()));
    let o2 = out.clone();
    let mut settings = InterpreterSettings { print_fn: Box::new(move |m| o2.lock().unwrap().push(m.to_string())) };
    let r = ctx.interpret_with_settings(&mut settings, &src, CodeSource::Text);
    let (verdict, types) = match &r {
        Ok((stmts, _)) => ("accept".to_string(), numbat::verif::c02::statement_types(stmts)),
        Err(e) => match &**e {
            NumbatError::TypeCheckError(t) => (format!("reject:{}", numbat::verif::c02::variant_name(&format!("{t:?}"))), vec![]),
            NumbatError::RuntimeError(_) => ("accept".to_string(), front.clone().unwrap_or_default()),
            NumbatError::ResolverError(_) => ("other:resolver".to_string(), vec![]),
            NumbatError::NameResolutionError(_) => ("other:name-resolution".to_string(), vec![]),
        },
    };
    drop(r);
    let mut leaked = Vec::new();
    if verdict != "accept" {
        for s in p {
            if let Some((kind, name)) = s.defines() {
                let visible = match kind {
                    "dimension" => ctx.verif_c02_dimension(name).is_some(),
                    _ => {
                        ctx.verif_c02_env_type(name).is_some()
                            || ctx.variable_names().any(|n| n == name)
                            || ctx.function_names().any(|n| n == name)
                            || ctx.unit_names().iter().any(|v| v.iter().any(|n| n == name))
                            || ctx.clone().interpret(name, CodeSource::Text).is_ok()
                    }
                };
                if visible {
                    leaked.push(format!("{kind} {name}"));
                }
            }
        }
    }
    let printed = out.lock().unwrap().clone();
    Run { verdict, types, printed, leaked, front }
}

/// one comparison of numbat with the oracle; `Some(what)` = the property fails on this program
fn judge(base: &Context, w0: &World, p: &Prog, out: Option<&mut Out>, tag: &str) -> Option<String> {
    let (verdict, _) = analyse(w0, p);
    let run = match catch(std::panic::AssertUnwindSafe(|| run_numbat(base, p))) {
        Ok(r) => r,
        Err(e) => return Some(format!("panic {e}")),
    };
    if let Some(out) = out {
        out.count(&format!("{tag}:numbat_{}", run.verdict.split(':').next().unwrap()));
        if let Some(k) = run.verdict.strip_prefix("reject:") {
            out.count(&format!("reject_kind:{k}"));
        }
        out.count(&format!(
            "{tag}:oracle_{}",
            match &verdict {
                Verdict::Ok(_) => "consistent",
                Verdict::Inconsistent { .. } => "inconsistent",
                Verdict::Unsupported(_) => "unsupported",
            }
        ));
    }
    // the front-end-only hook must agree with the real entry point
    match (&run.front, run.verdict.as_str()) {
        (Ok(_), "accept") => {}
        (Err(e), v) if v.starts_with("reject:") && e.starts_with("type ") => {}
        (Err(e), v) if v.starts_with("other:") && !e.starts_with("type ") => {}
        (f, v) => return Some(format!("front-end-only check says {:?} but interpret says {v}", f.as_ref().map(|_| "ok"))),
    }
    // rejected as a whole: no output, no definitions
    if run.verdict != "accept" {
        if !run.printed.is_empty() {
            return Some(format!("rejected input ({}) printed {:?}", run.verdict, run.printed));
        }
        if !run.leaked.is_empty() {
            return Some(format!("rejected input ({}) left definitions behind: {:?}", run.verdict, run.leaked));
        }
    }
    match verdict {
        Verdict::Unsupported(_) => None,
        Verdict::Inconsistent { stmt, why } => {
            if run.verdict == "accept" {
                Some(format!("accepted, but statement {stmt} is dimensionally inconsistent: {why}"))
            } else if run.verdict.starts_with("other:") {
                Some(format!("not a type error: {}", run.verdict))
            } else {
                None
            }
        }
        Verdict::Ok(lines) => {
            if run.verdict != "accept" {
                return Some(format!("{} although the program is dimensionally consistent", run.verdict));
            }
            if run.types.len() != lines.len() {
                return Some(format!("{} typed statements for {} statements", run.types.len(), lines.len()));
            }
            for (i, (l, t)) in lines.iter().zip(run.types.iter()).enumerate() {
                let (kind, rest) = t.split_once(' ').unwrap_or((t.as_str(), ""));
                let expect: Option<(&str, Option<&str>, Option<Scheme>)> = match l {
                    Line::Let(n, s) => Some(("let", Some(n), Some(s.clone()))),
                    Line::Fn(n, s) => Some(("fn", Some(n), Some(s.clone()))),
                    Line::Unit(n, v) => Some(("unit", Some(n), Some(Scheme::mono(Ty::D(v.clone()))))),
                    Line::Dim(n) => Some(("dimension", Some(n), None)),
                    Line::Expr(s) => Some(("expr", None, Some(s.clone()))),
                    Line::Proc => Some(("proc", None, None)),
                };
                let Some((k, name, sch)) = expect else { continue };
                if k != kind {
                    return Some(format!("statement {i}: numbat reports a `{kind}`, expected `{k}`"));
                }
                let scheme_text = match name {
                    Some(n) => {
                        let Some(r) = rest.strip_prefix(n).map(|r| r.trim_start()) else {
                            return Some(format!("statement {i}: name mismatch in `{t}`"));
                        };
                        r
                    }
                    None => rest,
                };
                if let Some(sch) = sch {
                    let Some(got) = scheme_from_text(scheme_text) else {
                        return Some(format!("statement {i}: reported type `{scheme_text}` is not a generalised quantity type"));
                    };
                    let (a, b) = (canon_family(&got), canon_family(&sch));
                    if a != b {
                        return Some(format!(
                            "statement {i} ({}): numbat reports {scheme_text} = {a}; dimensional analysis gives {} = {b}",
                            p[i].src(),
                            sch.ty.show()
                        ));
                    }
                }
            }
            None
        }
    }
}

/// coarse class of a failure text; shrinking must stay inside the class it started in
fn fail_class(what: &str) -> String {
    what.split(|c: char| c == ' ' || c == ':' || c == ',').next().unwrap_or("").to_string()
}

fn shrink_prog(base: &Context, w0: &World, p: &Prog, class: &str) -> Prog {
    let same = |c: &Prog| judge(base, w0, c, None, "").map(|w| fail_class(&w) == class).unwrap_or(false);
    let fails = |c: &[S]| same(&c.to_vec());
    let mut cur = shrink_seq(p, fails);
    // replace sub-expressions by their children while it still fails
    let mut progress = true;
    let mut rounds = 0;
    while progress && rounds < 50 {
        progress = false;
        rounds += 1;
        'outer: for si in 0..cur.len() {
            let n_e = cur[si].exprs().len();
            for ei in 0..n_e {
                let size = cur[si].exprs()[ei].size();
                for k in 0..size {
                    // candidate: node k replaced by each of its children
                    let mut idx = 0usize;
                    let mut kids: Vec<E> = Vec::new();
                    cur[si].exprs()[ei].visit(&mut |x| {
                        if idx == k {
                            kids = x.children().into_iter().cloned().collect();
                        }
                        idx += 1;
                    });
                    for kid in kids {
                        let mut cand = cur.clone();
                        let mut idx2 = 0usize;
                        cand[si].exprs_mut()[ei].visit_mut(&mut |x| {
                            if idx2 == k {
                                *x = kid.clone();
                                return true;
                            }
                            idx2 += 1;
                            false
                        });
                        if same(&cand) {
                            cur = cand;
                            progress = true;
                            continue 'outer;
                        }
                    }
                }
            }
        }
    }
    cur
}

fn check_prog(base: &Context, w0: &World, p: &Prog, out: &mut Out, tag: &str) -> bool {
    if let Some(what) = judge(base, w0, p, Some(out), tag) {
        let small = shrink_prog(base, w0, p, &fail_class(&what));
        let what2 = judge(base, w0, &small, None, "").unwrap_or(what);
        let line = format!("prog {}", prog_sx(&small));
        let key = format!("prog:{}", prog_src(&small).replace('\n', " ; "));
        out.oracle_fail(&key, &line, &format!("{} || source: {}", what2, prog_src(&small).replace('\n', " ⏎ ")));
        return false;
    }
    true
}

fn emit_line(out: &mut Out, req: &str) {
    let (kind, rest) = req.split_once(' ').unwrap_or((req, ""));
    let ans = catch(|| match kind {
        "solve" => numbat::verif::c02::solve(rest),
        "dtype" => numbat::verif::c02::dtype_op(rest),
        "apply" => match rest.split_once(" || ") {
            Some((s, t)) => numbat::verif::c02::apply_subst(s, t),
            None => "bad-request".into(),
        },
        _ => "bad-request".into(),
    });
    let ans = match ans {
        Ok(a) => a,
        Err(e) => {
            // key: file and message without the line number (stable under harmless edits)
            let (loc, msg) = e.split_once(" :: ").unwrap_or((e.as_str(), ""));
            let file = loc.rsplit('/').next().unwrap_or(loc).split(':').next().unwrap_or(loc);
            let msg_head: String = msg.chars().filter(|c| c.is_alphanumeric() || *c == ' ' || *c == '(' || *c == ')').take(90).collect();
            out.oracle_fail(&format!("panic:{file}:{msg_head}:{req}"), req, &format!("the type checker panics: {e}"));
            "panic".to_string()
        }
    };
    let class = if ans.contains(" ok ") {
        "ok"
    } else if ans.contains("could-not-solve") {
        "could_not_solve"
    } else if ans.contains("subst-error") {
        "subst_error"
    } else {
        "other"
    };
    if kind == "solve" {
        out.count(&format!("solve_result:{}", if ans == "panic" { "panic" } else { class }));
    }
    if req.contains("(st ") || req.contains("(hf ") {
        // struct types and HasField are not modelled: implementation-only smoke run
        out.count("solve_struct_systems_impl_only");
        return;
    }
    out.line(req, &ans);
}

fn replay_line(base: Option<&Context>, w0: &World, out: &mut Out, l: &str) {
    let l = l.trim();
    if l.is_empty() || l.starts_with('#') {
        return;
    }
    if let Some(rest) = l.strip_prefix("accept ") {
        // a program that must be accepted, in a fresh session without the prelude
        let text = rest.replace('⏎', "\n");
        let r = catch(std::panic::AssertUnwindSafe(|| {
            let mut c = Context::new(BuiltinModuleImporter::default());
            c.interpret(&text, CodeSource::Text).map(|_| ()).map_err(|e| format!("{e}"))
        }));
        match r {
            Ok(Ok(())) => out.count("accept:accepted"),
            Ok(Err(e)) => out.oracle_fail(&format!("must-accept:{rest}"), l, &format!("rejected: {}", e.chars().take(400).collect::<String>())),
            Err(e) => out.oracle_fail(&format!("must-accept:{rest}"), l, &format!("panic {e}")),
        }
        out.case(l, true);
        return;
    }
    if !(l.starts_with("src ") || l.starts_with("prog ")) {
        emit_line(out, l);
        out.case(l, true);
        return;
    }
    let Some(base) = base else { return };
    if let Some(rest) = l.strip_prefix("src ") {
        // raw source text (`⏎` = newline): the front end must answer, not panic
        let text = rest.replace('⏎', "\n");
        let r = catch(std::panic::AssertUnwindSafe(|| {
            let mut c = base.clone();
            c.interpret(&text, CodeSource::Text).map(|_| ()).map_err(|e| format!("{e}"))
        }));
        out.count(match &r {
            Ok(Ok(())) => "src:accepted",
            Ok(Err(_)) => "src:rejected",
            Err(_) => "src:panic",
        });
        if let Err(e) = r {
            let (loc, msg) = e.split_once(" :: ").unwrap_or((e.as_str(), ""));
            let file = loc.rsplit('/').next().unwrap_or(loc).split(':').next().unwrap_or(loc);
            let msg_head: String = msg.chars().filter(|c| c.is_alphanumeric() || *c == ' ' || *c == '(' || *c == ')').take(90).collect();
            out.oracle_fail(&format!("panic:{file}:{msg_head}:{l}"), l, &format!("the type checker panics: {e}"));
        }
        out.case(l, true);
    } else if let Some(rest) = l.strip_prefix("prog ") {
        match prog_from_line(rest) {
            Some(p) => {
                check_prog(base, w0, &p, out, "replay");
                out.case(rest, true);
            }
            None => out.oracle_fail("unparsable-replay", l, "replay line does not parse"),
        }
    }
}

fn main() {
    let args = Args::parse();
    let mut out = Out::new(&args);
    out.rule = "stream `solve`: random constraint systems (1-8 variables, 1-8 equations with rational coefficients over variables, type parameters and base dimensions; planted-solvable, random, structural (Fn/List/struct skeletons), occurs-check, constructor clash, substitution error, HasField) through the real ConstraintSet::add+solve; streams `dtype`/`apply`: DType algebra on raw factor lists and substitution application. stream `prog`: type-directed generated programs of 3-8 statements over prelude units (let with/without annotation, lists, functions with concrete/generic/no annotations, derived units and dimensions, print, assert_eq, expressions; operators + - * / ^ -> comparisons, conditionals, calls of generic library and earlier user functions, reciprocals `n / e`, zero powers `e^0`), each followed by >= 3 mutants (unit swapped, wrong annotation, wrong argument, wrong branch, wrong operand, wrong list element, `Dim` bound of a type parameter dropped). distinct = distinct request text / program text; non-trivial = system with >= 2 constraints, program with >= 1 operator beyond a literal".into();

    let w0 = tables::prelude_world();
    let mut prelude_error: Option<String> = None;
    let base = match prelude_context() {
        Ok(b) => Some(b),
        Err(e) => {
            prelude_error = Some(e);
            None
        }
    };
    if let Some(base) = &base {
        match self_check(base) {
            Ok(n) => out.count_n("unit_table_rows_checked_against_runtime_registry", n as u64),
            Err(e) => {
                eprintln!("unit table self-check failed: {e}");
                std::process::exit(3);
            }
        }
    }

    if let Some(p) = &args.replay {
        for l in read_lines(p) {
            replay_line(base.as_ref(), &w0, &mut out, &l);
        }
        out.finish();
        return;
    }
    if let Some(dir) = args.extra.get("corpus") {
        let mut files: Vec<_> = std::fs::read_dir(dir).map(|d| d.filter_map(|e| e.ok()).map(|e| e.path()).collect()).unwrap_or_default();
        files.sort();
        for f in files {
            for l in read_lines(&f) {
                replay_line(base.as_ref(), &w0, &mut out, &l);
                out.count("corpus_lines");
            }
        }
    }

    if let Some(e) = prelude_error.take() {
        // the prelude is a (large) dimensionally consistent program: rejecting it violates the property
        // (reported after the corpus so that a small must-accept program is the first failing input)
        out.oracle_fail("prelude-rejected", "accept use prelude", &format!("the standard prelude is rejected: {}", e.chars().take(400).collect::<String>()));
    }
    let mut rng = Rng::new(args.seed);

    // ---- solver streams
    let n_sys = args.count(1500, 40000);
    let mut srng = rng.fork(1);
    for _ in 0..n_sys {
        let s = systems::gen_system(&mut srng);
        out.count(&format!("system_shape:{}", s.shape));
        out.count(&format!("system_size:{}", s.size.min(12)));
        let req = format!("solve {}", s.text);
        emit_line(&mut out, &req);
        out.case(&req, s.size >= 2);
    }
    for _ in 0..n_sys / 3 {
        let req = format!("dtype {}", systems::gen_dtype_op(&mut srng));
        emit_line(&mut out, &req);
        out.case(&req, true);
    }

    // ---- programs
    let Some(base) = base else {
        out.finish();
        return;
    };
    let n_prog = args.count(250, 6000);
    let mut prng = rng.fork(2);
    let mut gen_rejected = 0usize;
    for _ in 0..n_prog {
        let n = 3 + prng.below(6);
        let depth = 1 + prng.below(3);
        let mut g = Gen::new(&mut prng, w0.clone());
        let p = g.program(n, depth, &mut gen_rejected);
        drop(g);
        if p.is_empty() {
            continue;
        }
        let src = prog_src(&p);
        let nontrivial = p.iter().any(|s| s.exprs().iter().any(|e| e.size() > 1));
        out.case(&src, nontrivial);
        out.count(&format!("program_statements:{}", p.len()));
        for s in &p {
            out.count(&format!(
                "stmt:{}",
                match s {
                    S::Let { ann: Some(_), .. } => "let_annotated",
                    S::Let { .. } => "let",
                    S::Fn { tpars, params, .. } if !tpars.is_empty() && params.iter().any(|(_, a)| a.is_none()) => "fn_mixed",
                    S::Fn { tpars, .. } if !tpars.is_empty() => "fn_generic_annotated",
                    S::Fn { params, .. } if params.iter().all(|(_, a)| a.is_none()) => "fn_unannotated",
                    S::Fn { params, .. } if params.iter().all(|(_, a)| a.is_some()) => "fn_concrete_annotated",
                    S::Fn { .. } => "fn_mixed",
                    S::UnitDef { e: Some(_), .. } => "unit_derived",
                    S::UnitDef { .. } => "unit_base",
                    S::DimDef { .. } => "dimension",
                    S::Print(_) => "print",
                    S::AssertEq(..) => "assert_eq",
                    S::Expr(_) => "expression",
                }
            ));
            for e in s.exprs() {
                e.visit(&mut |x| {
                    let k = match x {
                        E::Num(_) => "num",
                        E::Zero => "zero",
                        E::Unit(_) => "unit",
                        E::Var(_) => "var",
                        E::Neg(_) => "neg",
                        E::Bin(op, _, _) => op.tag(),
                        E::Pow(..) => "pow",
                        E::PowE(..) => "pow_scalar_base",
                        E::Cmp(..) => "cmp",
                        E::If(..) => "if",
                        E::Call(f, _) if f.starts_with("zqf") => "call_user",
                        E::Call(..) => "call_library",
                        E::List(_) => "list",
                        E::Str(_) => "str",
                    };
                    out.count(&format!("node:{k}"));
                });
            }
        }
        check_prog(&base, &w0, &p, &mut out, "base");
        // mutants: every kind that applies, at least three
        let mut done = 0;
        let mut kinds: Vec<Mutation> = Mutation::ALL.to_vec();
        prng.shuffle(&mut kinds);
        let mut round = 0;
        while done < 3 && round < 3 {
            round += 1;
            for m in &kinds {
                if let Some(mp) = mutate(&mut prng, &p, *m) {
                    if mp == p {
                        continue;
                    }
                    done += 1;
                    out.count(&format!("mutant:{}", m.tag()));
                    out.evaluations += 1;
                    check_prog(&base, &w0, &mp, &mut out, "mutant");
                    // a valid prefix with output followed by the mutant: nothing may be printed
                    if done == 1 {
                        let mut pp: Prog = vec![S::Print(E::Str("marker_first".into()))];
                        pp.extend(mp.iter().cloned());
                        check_prog(&base, &w0, &pp, &mut out, "print_prefix");
                    }
                }
            }
        }
        out.count(&format!("mutants_per_program:{}", done.min(9)));
    }
    out.count_n("generator_statements_discarded_by_oracle", gen_rejected as u64);
    out.finish();
}
