//! C18 — lists behave as immutable values despite internal sharing.
//!
//! One case = one operation sequence over handle slots.  Request line:
//!     run <op>;<op>;...
//! ops:  new | cap <n> | clone <k> | drop <k> | pf <k> <x> | pb <k> <x> | tail <k> | head <k>
//! Answer: for every op  `<result>~<behaviour>~<structure>` joined by `;`, then ` || ` is not used here:
//! behaviour and structure are both per-op, so the line is  B-part ` || ` S-part  with
//!   B = r1~b1;r2~b2;...      S = s1;s2;...
//! behaviour b = for each live slot `k=[x,y,..]`, plus the equality matrix of live slots;
//! structure s = for each live slot `k:a<i>#<strong>v<view>{alloc contents}`, allocations numbered by
//! first occurrence in slot order.
//!
//! Oracle on the implementation: an independent plain `Vec<u32>` per slot.

use numbat::list::NumbatList;
use nvh::*;

#[derive(Clone, Debug, PartialEq)]
enum Op {
    New,
    Cap(usize),
    Clone(usize),
    Drop(usize),
    Pf(usize, u32),
    Pb(usize, u32),
    Tail(usize),
    Head(usize),
}

impl Op {
    fn text(&self) -> String {
        match self {
            Op::New => "new".into(),
            Op::Cap(n) => format!("cap {}", n),
            Op::Clone(k) => format!("clone {}", k),
            Op::Drop(k) => format!("drop {}", k),
            Op::Pf(k, x) => format!("pf {} {}", k, x),
            Op::Pb(k, x) => format!("pb {} {}", k, x),
            Op::Tail(k) => format!("tail {}", k),
            Op::Head(k) => format!("head {}", k),
        }
    }
    fn parse(s: &str) -> Option<Op> {
        let w: Vec<&str> = s.split_whitespace().collect();
        let n = |i: usize| w.get(i).and_then(|x| x.parse::<usize>().ok());
        Some(match *w.first()? {
            "new" => Op::New,
            "cap" => Op::Cap(n(1)?),
            "clone" => Op::Clone(n(1)?),
            "drop" => Op::Drop(n(1)?),
            "pf" => Op::Pf(n(1)?, n(2)? as u32),
            "pb" => Op::Pb(n(1)?, n(2)? as u32),
            "tail" => Op::Tail(n(1)?),
            "head" => Op::Head(n(1)?),
            _ => return None,
        })
    }
}

fn seq_text(ops: &[Op]) -> String {
    ops.iter().map(|o| o.text()).collect::<Vec<_>>().join(";")
}

fn fmt_list(xs: &[u32]) -> String {
    format!(
        "[{}]",
        xs.iter().map(|x| x.to_string()).collect::<Vec<_>>().join(",")
    )
}

struct Run {
    b: Vec<String>,
    s: Vec<String>,
    oracle: Option<String>,
}

/// executes the sequence on the real NumbatList and on the plain-Vec oracle
fn run_impl(ops: &[Op]) -> Run {
    let mut slots: Vec<Option<NumbatList<u32>>> = Vec::new();
    let mut spec: Vec<Option<Vec<u32>>> = Vec::new();
    let mut b = Vec::new();
    let mut s = Vec::new();
    let mut oracle: Option<String> = None;
    for (i, op) in ops.iter().enumerate() {
        let live = |k: usize, slots: &Vec<Option<NumbatList<u32>>>| k < slots.len() && slots[k].is_some();
        // result of the op on the implementation
        let res: String = match op {
            Op::New => {
                slots.push(Some(NumbatList::new()));
                spec.push(Some(vec![]));
                "ok".into()
            }
            Op::Cap(n) => {
                slots.push(Some(NumbatList::with_capacity(*n)));
                spec.push(Some(vec![]));
                "ok".into()
            }
            Op::Clone(k) if live(*k, &slots) => {
                let c = slots[*k].clone();
                slots.push(c);
                let c = spec[*k].clone();
                spec.push(c);
                "ok".into()
            }
            Op::Drop(k) if live(*k, &slots) => {
                slots[*k] = None;
                spec[*k] = None;
                "ok".into()
            }
            Op::Pf(k, x) if live(*k, &slots) => {
                let l = slots[*k].as_mut().unwrap();
                match catch(std::panic::AssertUnwindSafe(|| l.push_front(*x))) {
                    Ok(()) => {
                        spec[*k].as_mut().unwrap().insert(0, *x);
                        "ok".into()
                    }
                    Err(e) => format!("panic {}", e),
                }
            }
            Op::Pb(k, x) if live(*k, &slots) => {
                let l = slots[*k].as_mut().unwrap();
                match catch(std::panic::AssertUnwindSafe(|| l.push_back(*x))) {
                    Ok(()) => {
                        spec[*k].as_mut().unwrap().push(*x);
                        "ok".into()
                    }
                    Err(e) => format!("panic {}", e),
                }
            }
            Op::Tail(k) if live(*k, &slots) => {
                let l = slots[*k].as_mut().unwrap();
                match catch(std::panic::AssertUnwindSafe(|| l.tail())) {
                    Ok(r) => {
                        let sp = spec[*k].as_mut().unwrap();
                        let expect_err = sp.is_empty();
                        if !expect_err {
                            sp.remove(0);
                        }
                        if r.is_err() != expect_err && oracle.is_none() {
                            oracle = Some(format!("step {}: tail error status {} but plain sequence says {}", i, r.is_err(), expect_err));
                        }
                        if r.is_err() { "err".into() } else { "ok".into() }
                    }
                    Err(e) => format!("panic {}", e),
                }
            }
            Op::Head(k) if live(*k, &slots) => {
                let l = slots[*k].take().unwrap();
                let sp = spec[*k].take().unwrap();
                match catch(std::panic::AssertUnwindSafe(|| l.head())) {
                    Ok(r) => {
                        if r != sp.first().copied() && oracle.is_none() {
                            oracle = Some(format!("step {}: head gave {:?}, plain sequence says {:?}", i, r, sp.first()));
                        }
                        match r {
                            Some(x) => format!("some {}", x),
                            None => "none".into(),
                        }
                    }
                    Err(e) => format!("panic {}", e),
                }
            }
            _ => "bad-op".into(),
        };
        if res.starts_with("panic") && oracle.is_none() {
            oracle = Some(format!("step {}: {}", i, res));
        }
        // behaviour of every live slot + equality matrix
        let mut bs = Vec::new();
        let mut ss = Vec::new();
        let mut ptrs: Vec<usize> = Vec::new();
        for (k, sl) in slots.iter().enumerate() {
            if let Some(l) = sl {
                let got: Vec<u32> = l.iter().copied().collect();
                if l.len() != got.len() && oracle.is_none() {
                    oracle = Some(format!("step {}: slot {} len() {} != iter count {}", i, k, l.len(), got.len()));
                }
                let want = spec[k].as_ref().unwrap();
                if &got != want && oracle.is_none() {
                    oracle = Some(format!(
                        "step {}: slot {} holds {} but a plain immutable sequence holds {}",
                        i, k, fmt_list(&got), fmt_list(want)
                    ));
                }
                bs.push(format!("{}={}", k, fmt_list(&got)));
                let (ptr, strong, alloc, view) = l.verif_repr();
                let a = match ptrs.iter().position(|p| *p == ptr) {
                    Some(a) => a,
                    None => {
                        ptrs.push(ptr);
                        ptrs.len() - 1
                    }
                };
                let v = match view {
                    None => "-".to_string(),
                    Some((x, y)) => format!("({},{})", x, y),
                };
                ss.push(format!("{}:a{}#{}v{}{}", k, a, strong, v, fmt_list(&alloc).replace('[', "{").replace(']', "}")));
            }
        }
        let mut eqs = String::new();
        for (k, a) in slots.iter().enumerate() {
            for (j, c) in slots.iter().enumerate() {
                if let (Some(a), Some(c)) = (a, c) {
                    let e = a == c;
                    let want = spec[k] == spec[j];
                    if e != want && oracle.is_none() {
                        oracle = Some(format!("step {}: slot {} == slot {} is {} but contents say {}", i, k, j, e, want));
                    }
                    eqs.push(if e { '1' } else { '0' });
                }
            }
        }
        b.push(format!("{}~{} E{}", res, bs.join(" "), eqs));
        s.push(ss.join(" "));
    }
    Run { b, s, oracle }
}

/// run_impl with every panic of the implementation (also inside len/iter/eq) turned into an oracle failure
fn run_guarded(ops: &[Op]) -> Run {
    match catch(|| run_impl(ops)) {
        Ok(r) => r,
        Err(e) => Run { b: vec![format!("panic {}", e)], s: vec![], oracle: Some(format!("panic {}", e)) },
    }
}

fn emit(out: &mut Out, ops: &[Op], count_case: bool) {
    let text = seq_text(ops);
    let r = run_guarded(ops);
    out.line(
        &format!("run {}", text),
        &format!("{} || {}", r.b.join(";"), r.s.join(";")),
    );
    if count_case {
        let shares = r.s.iter().any(|s| s.contains("#2") || s.contains("#3") || s.contains("#4"));
        let views = r.s.iter().any(|s| s.contains("v("));
        if shares {
            out.count("cases_with_shared_storage");
        }
        if views {
            out.count("cases_with_views");
        }
        out.case(&text, ops.len() >= 3 && (shares || views));
        for o in ops {
            out.count(&format!("op_{}", o.text().split(' ').next().unwrap()));
        }
        for b in &r.b {
            let k = b.split('~').next().unwrap().split(' ').next().unwrap();
            out.count(&format!("result_{}", k));
        }
    }
    if let Some(w) = r.oracle {
        // shrink to a minimal failing operation sequence (slot numbers are positional, so only suffix
        // truncation and deletion of non-allocating ops keep the sequence meaningful)
        let small = shrink_seq(ops, |c| run_guarded(c).oracle.is_some());
        let w2 = run_guarded(&small).oracle.unwrap_or(w);
        let t = seq_text(&small);
        out.oracle_fail(&format!("list-seq:{}", t), &format!("run {}", t), &w2);
    }
}

fn random_seq(rng: &mut Rng, len: usize, max_handles: usize) -> Vec<Op> {
    let mut live: Vec<bool> = Vec::new();
    let mut ops = Vec::new();
    for _ in 0..len {
        let alive: Vec<usize> = (0..live.len()).filter(|k| live[*k]).collect();
        let nlive = alive.len();
        let op = if nlive == 0 {
            if rng.chance(1, 4) { Op::Cap(rng.below(4)) } else { Op::New }
        } else {
            let k = *rng.pick(&alive);
            match rng.below(100) {
                0..=5 if nlive < max_handles => {
                    if rng.chance(1, 3) { Op::Cap(rng.below(4)) } else { Op::New }
                }
                6..=23 if nlive < max_handles => Op::Clone(k),
                24..=31 => Op::Drop(k),
                32..=49 => Op::Pf(k, rng.below(3) as u32),
                50..=67 => Op::Pb(k, rng.below(3) as u32),
                68..=87 => Op::Tail(k),
                88..=93 => Op::Head(k),
                _ => Op::Pb(k, rng.below(3) as u32),
            }
        };
        match &op {
            Op::New | Op::Cap(_) | Op::Clone(_) => live.push(true),
            Op::Drop(k) | Op::Head(k) => live[*k] = false,
            _ => {}
        }
        ops.push(op);
    }
    ops
}

/// all sequences of exactly `depth` ops over at most `max_handles` live handles (pushed value = 1 or 2 alternating by step)
fn exhaustive(out: &mut Out, depth: usize, max_handles: usize, prefix: &mut Vec<Op>, live: &mut Vec<bool>, total: &mut usize) {
    if prefix.len() == depth {
        emit(out, prefix, true);
        *total += 1;
        return;
    }
    let alive: Vec<usize> = (0..live.len()).filter(|k| live[*k]).collect();
    let mut cands: Vec<Op> = Vec::new();
    if alive.len() < max_handles {
        cands.push(Op::New);
    }
    let x = (prefix.len() % 2 + 1) as u32;
    for &k in &alive {
        if alive.len() < max_handles {
            cands.push(Op::Clone(k));
        }
        cands.push(Op::Drop(k));
        cands.push(Op::Pf(k, x));
        cands.push(Op::Pb(k, x));
        cands.push(Op::Tail(k));
        cands.push(Op::Head(k));
    }
    for op in cands {
        let undo_len = live.len();
        let mut killed = None;
        match &op {
            Op::New | Op::Cap(_) | Op::Clone(_) => live.push(true),
            Op::Drop(k) | Op::Head(k) => {
                live[*k] = false;
                killed = Some(*k);
            }
            _ => {}
        }
        prefix.push(op);
        exhaustive(out, depth, max_handles, prefix, live, total);
        prefix.pop();
        live.truncate(undo_len);
        if let Some(k) = killed {
            live[k] = true;
        }
    }
}

// ------------------------------------------------------------------ language-level stream
//
// Straight-line numbat programs over list variables, built from the standard library's list functions
// (cons, cons_end, tail, take, drop, concat, reverse, head, len), with nested calls (temporaries are solely
// owned: the in-place paths) and let-bound lists (shared: the copying paths). Request line `lang <stmt>;<stmt>;…`;
// oracle: plain `Vec<i64>` semantics, and after every statement *every* variable still holds what it held.

#[derive(Clone, Debug)]
enum LE {
    Var(usize),
    Lit(Vec<i64>),
    Cons(i64, Box<LE>),
    ConsEnd(i64, Box<LE>),
    Tail(Box<LE>),
    Take(usize, Box<LE>),
    Drop(usize, Box<LE>),
    Concat(Box<LE>, Box<LE>),
    Reverse(Box<LE>),
}

/// the element `NAN_EL` stands for a NaN (an element that is not equal to itself)
const NAN_EL: i64 = i64::MIN;
fn num(x: i64) -> String {
    if x == NAN_EL { "NaN".into() } else { x.to_string() }
}
/// equality of plain sequences of IEEE numbers
fn seq_eq(a: &[i64], b: &[i64]) -> bool {
    a.len() == b.len() && a.iter().zip(b.iter()).all(|(x, y)| x == y && *x != NAN_EL)
}

impl LE {
    fn src(&self) -> String {
        match self {
            LE::Var(k) => format!("zl{}", k),
            LE::Lit(xs) => format!("[{}]", xs.iter().map(|x| num(*x)).collect::<Vec<_>>().join(", ")),
            LE::Cons(x, e) => format!("cons({}, {})", num(*x), e.src()),
            LE::ConsEnd(x, e) => format!("cons_end({}, {})", num(*x), e.src()),
            LE::Tail(e) => format!("tail({})", e.src()),
            LE::Take(n, e) => format!("take({}, {})", n, e.src()),
            LE::Drop(n, e) => format!("drop({}, {})", n, e.src()),
            LE::Concat(a, b) => format!("concat({}, {})", a.src(), b.src()),
            LE::Reverse(e) => format!("reverse({})", e.src()),
        }
    }
    /// `None` = the program fails with `tail` of an empty list
    fn eval(&self, vars: &[Vec<i64>]) -> Option<Vec<i64>> {
        Some(match self {
            LE::Var(k) => vars[*k].clone(),
            LE::Lit(xs) => xs.clone(),
            LE::Cons(x, e) => { let mut v = vec![*x]; v.extend(e.eval(vars)?); v }
            LE::ConsEnd(x, e) => { let mut v = e.eval(vars)?; v.push(*x); v }
            LE::Tail(e) => { let v = e.eval(vars)?; if v.is_empty() { return None; } v[1..].to_vec() }
            LE::Take(n, e) => { let v = e.eval(vars)?; v[..(*n).min(v.len())].to_vec() }
            LE::Drop(n, e) => { let v = e.eval(vars)?; v[(*n).min(v.len())..].to_vec() }
            LE::Concat(a, b) => { let mut v = a.eval(vars)?; v.extend(b.eval(vars)?); v }
            LE::Reverse(e) => { let mut v = e.eval(vars)?; v.reverse(); v }
        })
    }
}

fn gen_le(rng: &mut Rng, nvars: usize, depth: usize, next: &mut i64) -> LE {
    if depth == 0 || rng.chance(1, 5) {
        if nvars > 0 && rng.chance(3, 4) {
            return LE::Var(rng.below(nvars));
        }
        let n = rng.below(5);
        return LE::Lit((0..n).map(|_| { *next += 1; *next }).collect());
    }
    let d = depth - 1;
    let nan = rng.chance(1, 12);
    let mut fresh = || { if nan { NAN_EL } else { *next += 1; *next } };
    match rng.below(12) {
        0 | 1 => { let x = fresh(); LE::Cons(x, Box::new(gen_le(rng, nvars, d, next))) }
        2 | 3 | 4 => { let x = fresh(); LE::ConsEnd(x, Box::new(gen_le(rng, nvars, d, next))) }
        5 | 6 => LE::Tail(Box::new(gen_le(rng, nvars, d, next))),
        7 | 8 => LE::Take(rng.below(4), Box::new(gen_le(rng, nvars, d, next))),
        9 => LE::Drop(rng.below(3), Box::new(gen_le(rng, nvars, d, next))),
        10 => LE::Concat(Box::new(gen_le(rng, nvars, d, next)), Box::new(gen_le(rng, nvars, d, next))),
        _ => LE::Reverse(Box::new(gen_le(rng, nvars, d, next))),
    }
}

fn list_of(ctx: &mut numbat::Context, name: &str) -> Result<Vec<i64>, String> {
    use numbat::value::Value;
    match catch(std::panic::AssertUnwindSafe(|| ctx.interpret(name, numbat::resolver::CodeSource::Internal))) {
        Err(p) => Err(format!("panic {}", p)),
        Ok(Err(e)) => Err(format!("error {}", e).replace('\n', " ")),
        Ok(Ok((_, numbat::InterpreterResult::Value(Value::List(l))))) => {
            let mut v = Vec::new();
            for x in l.iter() {
                match x {
                    Value::Quantity(q) => { let f = q.unsafe_value().to_f64(); v.push(if f.is_nan() { NAN_EL } else { f.round() as i64 }) }
                    _ => return Err("non-numeric element".into()),
                }
            }
            Ok(v)
        }
        Ok(Ok(_)) => Err("not a list".into()),
    }
}

fn run_lang(base: &numbat::Context, out: &mut Out, stmts: &[String]) {
    // statements are `zlK = <expr source>`; the model is recomputed from the source text by the generator side, so
    // a replayed line carries the expected values: `zlK = <src> => [..]` or `=> fail`
    let text = format!("lang {}", stmts.join(";"));
    let mut ctx = base.clone();
    let mut expected: Vec<(String, Vec<i64>)> = Vec::new();
    for st in stmts {
        let Some((lhs, want)) = st.split_once(" => ") else { continue };
        let Some((name, src)) = lhs.split_once(" = ") else { continue };
        let code = format!("let {} = {}", name, src);
        let r = catch(std::panic::AssertUnwindSafe(|| ctx.interpret(&code, numbat::resolver::CodeSource::Internal).map(|_| ())));
        match (r, want) {
            (Err(p), _) => { out.oracle_fail(&format!("lang-panic:{}", text), &text, &format!("`{}` panics: {}", code, p)); return; }
            (Ok(Err(e)), "fail") => {
                if !format!("{}", e).contains("mpty") {
                    out.oracle_fail(&format!("lang:{}", text), &text, &format!("`{}` fails with `{}`, expected the empty-list error", code, format!("{}", e).replace('\n', " ")));
                    return;
                }
                continue;
            }
            (Ok(Err(e)), _) => { out.oracle_fail(&format!("lang:{}", text), &text, &format!("`{}` fails: {}", code, format!("{}", e).replace('\n', " "))); return; }
            (Ok(Ok(())), "fail") => { out.oracle_fail(&format!("lang:{}", text), &text, &format!("`{}` succeeds, a plain sequence gives the empty-list error", code)); return; }
            (Ok(Ok(())), w) => {
                let wv: Vec<i64> = w.trim_matches(|c| c == '[' || c == ']').split(',').filter_map(|x| if x.trim() == "NaN" { Some(NAN_EL) } else { x.trim().parse().ok() }).collect();
                expected.retain(|(n, _)| n != name);
                expected.push((name.to_string(), wv));
            }
        }
        // every variable holds what a plain immutable sequence would hold, and `len` agrees
        for (n, wv) in &expected {
            match list_of(&mut ctx, n) {
                Ok(got) if &got == wv => {}
                Ok(got) => { out.oracle_fail(&format!("lang:{}", text), &text, &format!("after `{}`: {} = {:?}, a plain sequence holds {:?}", code, n, got, wv)); return; }
                Err(e) => { out.oracle_fail(&format!("lang:{}", text), &text, &format!("after `{}`: reading {}: {}", code, n, e)); return; }
            }
            let lcode = format!("len({}) == {}", n, wv.len());
            match catch(std::panic::AssertUnwindSafe(|| ctx.interpret(&lcode, numbat::resolver::CodeSource::Internal))) {
                Ok(Ok((_, numbat::InterpreterResult::Value(numbat::value::Value::Boolean(true))))) => {}
                _ => { out.oracle_fail(&format!("lang:{}", text), &text, &format!("after `{}`: `{}` is not true", code, lcode)); return; }
            }
        }
    }
    // equality is equality of the sequences, whether or not two list values share storage
    for (i, (n1, v1)) in expected.iter().enumerate() {
        for (n2, v2) in expected.iter().skip(i) {
            let code = format!("{} == {}", n1, n2);
            let want = seq_eq(v1, v2);
            match catch(std::panic::AssertUnwindSafe(|| ctx.interpret(&code, numbat::resolver::CodeSource::Internal))) {
                Ok(Ok((_, numbat::InterpreterResult::Value(numbat::value::Value::Boolean(b))))) if b == want => {}
                Ok(Ok((_, numbat::InterpreterResult::Value(numbat::value::Value::Boolean(b))))) => {
                    out.oracle_fail(&format!("lang-eq:{}", text), &text, &format!("`{}` is {} but the sequences {:?} and {:?} are {}", code, b, v1.iter().map(|x| num(*x)).collect::<Vec<_>>(), v2.iter().map(|x| num(*x)).collect::<Vec<_>>(), if want { "equal" } else { "not equal (NaN is not equal to itself)" }));
                    return;
                }
                _ => { out.oracle_fail(&format!("lang-eq:{}", text), &text, &format!("`{}` does not evaluate to a boolean", code)); return; }
            }
        }
    }
    out.case(&text, stmts.len() >= 3);
    out.count("lang_cases");
}

fn gen_lang(rng: &mut Rng) -> Vec<String> {
    let mut vars: Vec<Vec<i64>> = Vec::new();
    let mut next = 0i64;
    let mut stmts = Vec::new();
    let n = 3 + rng.below(6);
    for _ in 0..n {
        let depth = 1 + rng.below(3);
        let e = gen_le(rng, vars.len(), depth, &mut next);
        // mostly a fresh variable, sometimes a redefinition of an existing one
        let k = if !vars.is_empty() && rng.chance(1, 6) { rng.below(vars.len()) } else { vars.len() };
        match e.eval(&vars) {
            Some(v) => {
                stmts.push(format!("zl{} = {} => [{}]", k, e.src(), v.iter().map(|x| num(*x)).collect::<Vec<_>>().join(", ")));
                if k == vars.len() { vars.push(v) } else { vars[k] = v }
            }
            None => stmts.push(format!("zl{} = {} => fail", k, e.src())),
        }
    }
    stmts
}

fn main() {
    let args = Args::parse();
    let mut out = Out::new(&args);
    out.rule = "random operation sequences (new/with_capacity/clone/drop/push_front/push_back/tail/head, values 0..2) over up to 6 simultaneously live handles, 40 ops each, preceded by the committed corpus; thorough adds all sequences of length <= 6 over <= 3 live handles. Plus straight-line numbat programs of 3-8 list definitions built from cons, cons_end, tail, take, drop, concat, reverse (nested calls = solely owned temporaries, let-bound lists = shared), every variable re-read after every statement and compared with a plain sequence; one construction in twelve uses NaN elements, and all pairs of variables are compared with == against equality of the sequences. distinct = distinct op-sequence text; non-trivial = at least 3 ops and some step with shared storage (strong count >= 2) or a view".into();

    if let Some(p) = &args.replay {
        for l in read_lines(p) {
            if let Some(rest) = l.strip_prefix("run ") {
                let ops: Vec<Op> = rest.split(';').filter_map(Op::parse).collect();
                emit(&mut out, &ops, true);
            } else if let Some(rest) = l.strip_prefix("lang ") {
                let base = nvh::qty::prelude_ctx();
                let stmts: Vec<String> = rest.split(';').map(|x| x.to_string()).collect();
                run_lang(&base, &mut out, &stmts);
            }
        }
        out.finish();
        return;
    }

    // corpus of minimised past failures / hand-written regression shapes first
    if let Some(dir) = args.extra.get("corpus") {
        let mut files: Vec<_> = std::fs::read_dir(dir).map(|d| d.filter_map(|e| e.ok()).map(|e| e.path()).collect()).unwrap_or_default();
        files.sort();
        for f in files {
            for l in read_lines(&f) {
                if let Some(rest) = l.strip_prefix("run ") {
                    let ops: Vec<Op> = rest.split(';').filter_map(Op::parse).collect();
                    emit(&mut out, &ops, true);
                    out.count("corpus_cases");
                } else if let Some(rest) = l.strip_prefix("lang ") {
                    let base = nvh::qty::prelude_ctx();
                    let stmts: Vec<String> = rest.split(';').map(|x| x.to_string()).collect();
                    run_lang(&base, &mut out, &stmts);
                    out.count("corpus_cases");
                }
            }
        }
    }

    let mut rng = Rng::new(args.seed);
    let n = args.count(3000, 60000);
    for i in 0..n {
        let len = if i % 10 == 0 { 80 } else { 40 };
        let mh = 2 + (i % 5);
        let ops = random_seq(&mut rng, len, mh);
        emit(&mut out, &ops, true);
    }
    // language-level stream: the standard library's list functions over shared and solely owned lists
    {
        let base = nvh::qty::prelude_ctx();
        let mut lrng = rng.fork(5);
        for _ in 0..args.count(400, 6000) {
            let stmts = gen_lang(&mut lrng);
            run_lang(&base, &mut out, &stmts);
        }
    }
    if args.tier == "thorough" {
        let mut total = 0usize;
        for depth in 1..=6 {
            exhaustive(&mut out, depth, 3, &mut Vec::new(), &mut Vec::new(), &mut total);
        }
        out.count_n("exhaustive_sequences_len_le_6", total as u64);
        out.extra.insert("exhaustive".into(), "all op sequences of length 1..=6 over <=3 live handles (values alternate 1,2)".into());
    }
    out.finish();
}
