//! C01 — accepted programs never go wrong dimensionally at run time.
//!
//! Generated multi-statement programs over the prelude (arithmetic with units/prefixes, powers with
//! compile-time evaluated exponents, derived-unit and dimension definitions, generic and inferred functions,
//! where-clauses, conditionals, structs, lists) are run on the real interpreter.  For every global the program
//! defines, the raw (unsimplified) value is read back and compared with the static type the checker reports:
//! every quantity inside it (also in struct fields and list elements) must carry a unit whose dimension —
//! computed from the static types of the units — equals the type, unless its value is zero (a polymorphic
//! zero carries no unit).  A run-time failure of an accepted program must be one of the documented
//! value-dependent errors, never a unit-incompatibility error.
//!
//! Model stream: the dimension of every raw unit is also computed by the Lean model (`dim <unit>` requests).

use numbat::resolver::CodeSource;
use numbat::{NumbatError, RuntimeErrorKind};
use nvh::qty::*;
use nvh::*;
use std::collections::BTreeMap;

type Dim = BTreeMap<String, (i128, i128)>;

fn gcd(a: i128, b: i128) -> i128 { if b == 0 { a.abs() } else { gcd(b, a % b) } }

fn parse_dim(t: &str) -> Option<Dim> {
    let inner = t.strip_prefix("D[")?.strip_suffix(']')?;
    let mut m = Dim::new();
    if inner.is_empty() { return Some(m); }
    for f in inner.split(',') {
        let (n, e) = f.rsplit_once(':')?;
        let (a, b) = e.split_once('/')?;
        m.insert(n.to_string(), (a.parse().ok()?, b.parse().ok()?));
    }
    Some(m)
}

fn dim_add(m: &mut Dim, d: &Dim, n: i128, den: i128) {
    for (k, v) in d {
        let e = m.entry(k.clone()).or_insert((0, 1));
        let (mut a, mut b) = (e.0 * v.1 * den + v.0 * n * e.1, e.1 * v.1 * den);
        if b < 0 { a = -a; b = -b; }
        let g = gcd(a, b).max(1);
        *e = (a / g, b / g);
    }
    m.retain(|_, v| v.0 != 0);
}

/// split `a;b;c` at top level (brackets nest)
fn split_top(s: &str, sep: char) -> Vec<String> {
    let mut out = Vec::new();
    let mut depth = 0i32;
    let mut cur = String::new();
    for c in s.chars() {
        match c {
            '<' | '{' | '(' | '[' => { depth += 1; cur.push(c); }
            '>' | '}' | ')' | ']' => { depth -= 1; cur.push(c); }
            c if c == sep && depth == 0 => { out.push(std::mem::take(&mut cur)); }
            c => cur.push(c),
        }
    }
    if !cur.is_empty() { out.push(cur); }
    out
}

/// compares a raw value description with a static type description; returns the first problem
fn value_ok(unit_types: &BTreeMap<String, Dim>, ty: &str, val: &str, quantities: &mut Vec<String>) -> Result<(), String> {
    if ty == "?" || ty == "Fn" { return Ok(()); }
    if let Some(d) = parse_dim(ty) {
        let inner = val.strip_prefix("(q ").and_then(|s| s.strip_suffix(')')).ok_or_else(|| format!("type {} but value {}", ty, val))?;
        let w: Vec<&str> = inner.split(' ').collect();
        let bits = u64::from_str_radix(w[0], 16).map_err(|_| "bad bits".to_string())?;
        let v = f64::from_bits(bits);
        let fs = parse_unit(w[1]).ok_or("bad unit")?;
        quantities.push(w[1].to_string());
        if v == 0.0 { return Ok(()); }
        let mut got = Dim::new();
        for f in &fs {
            let ut = unit_types.get(&f.unit).ok_or_else(|| format!("unit {} has no closed type", f.unit))?;
            dim_add(&mut got, ut, f.num, f.den);
        }
        if got != d {
            return Err(format!("quantity {} has unit dimension {:?} but static type {}", val, got, ty));
        }
        return Ok(());
    }
    if let Some(inner) = ty.strip_prefix("List<").and_then(|s| s.strip_suffix('>')) {
        let vi = val.strip_prefix("List<").and_then(|s| s.strip_suffix('>')).ok_or_else(|| format!("type {} but value {}", ty, val))?;
        for e in split_top(vi, ';') {
            value_ok(unit_types, inner, &e, quantities)?;
        }
        return Ok(());
    }
    if let Some(inner) = ty.strip_prefix("Struct{").and_then(|s| s.strip_suffix('}')) {
        let vi = val.strip_prefix("Struct{").and_then(|s| s.strip_suffix('}')).ok_or_else(|| format!("type {} but value {}", ty, val))?;
        let tf = split_top(inner, ';');
        let vf = split_top(vi, ';');
        if tf.len() != vf.len() { return Err(format!("struct arity: {} vs {}", ty, val)); }
        for (t, v) in tf.iter().zip(vf.iter()) {
            let (tn, tt) = t.split_once('=').ok_or("bad struct type")?;
            let (vn, vv) = v.split_once('=').ok_or("bad struct value")?;
            if tn != vn { return Err(format!("struct field order: {} vs {}", tn, vn)); }
            value_ok(unit_types, tt, vv, quantities)?;
        }
        return Ok(());
    }
    Ok(())
}

// ------------------------------------------------------------------ program generator

struct Gen<'a> {
    units: &'a Units,
    dims: Vec<&'a String>,
    /// globals defined so far: (name, dimension class if known)
    vars: Vec<(String, Option<String>)>,
    unary_fns: Vec<String>,
    lists: Vec<(String, String)>,
    stmts: Vec<String>,
    checked: Vec<String>,
    tags: Vec<String>,
    n: usize,
}

const NAMED_DIMS: &[(&str, &[&str])] = &[
    ("Length", &["metre", "foot", "inch", "mile", "yard"]),
    ("Time", &["second", "minute", "hour", "day"]),
    ("Mass", &["gram", "pound", "ounce"]),
    ("Velocity", &["kph", "knot", "mph"]),
    ("Energy", &["joule", "calorie", "electronvolt"]),
    ("Force", &["newton", "dyne"]),
    ("Power", &["watt", "horsepower"]),
    ("Area", &["hectare", "acre"]),
];

impl<'a> Gen<'a> {
    fn fresh(&mut self, p: &str) -> String { self.n += 1; format!("{}_{}", p, self.n) }

    fn number(&self, rng: &mut Rng) -> String {
        match rng.below(8) {
            0 => "0".into(),
            1 => format!("{}", rng.range(1, 12)),
            2 => "2.5".into(),
            3 => format!("{}", -(rng.range(1, 9))),
            4 => "1e3".into(),
            5 => "0.125".into(),
            _ => format!("{}", (rng.range(1, 400) as f64) / 8.0),
        }
    }
    fn unit_of(&self, rng: &mut Rng, dim: &String) -> String {
        let rows = &self.units.by_dim[dim];
        let i = *rng.pick(rows);
        let ps = self.units.prefixes(i);
        let p = if rng.chance(3, 5) { (false, 0) } else { *rng.pick(&ps) };
        let sp = self.units.spellings(i, p);
        if sp.is_empty() { self.units.rows[i].name.clone() } else { rng.pick(&sp).clone() }
    }
    fn named_unit(&self, rng: &mut Rng, k: usize) -> String {
        let cands: Vec<&&str> = NAMED_DIMS[k].1.iter().filter(|u| self.units.index.contains_key(**u)).collect();
        (**rng.pick(&cands)).to_string()
    }
    /// expression of dimension class `dim`
    fn of_dim(&mut self, rng: &mut Rng, dim: &String, depth: usize) -> String {
        let same: Vec<String> = self.vars.iter().filter(|(_, d)| d.as_ref() == Some(dim)).map(|(n, _)| n.clone()).collect();
        if depth == 0 || rng.chance(1, 3) {
            if !same.is_empty() && rng.chance(1, 3) { return rng.pick(&same).clone(); }
            return format!("({} {})", self.number(rng), self.unit_of(rng, dim));
        }
        match rng.below(10) {
            0 | 1 => format!("({} + {})", self.of_dim(rng, dim, depth - 1), self.of_dim(rng, dim, depth - 1)),
            2 => format!("({} - {})", self.of_dim(rng, dim, depth - 1), self.of_dim(rng, dim, depth - 1)),
            3 => format!("(-{})", self.of_dim(rng, dim, depth - 1)),
            4 => format!("({} * {})", self.scalar(rng, depth - 1), self.of_dim(rng, dim, depth - 1)),
            5 => format!("({} / {})", self.of_dim(rng, dim, depth - 1), self.scalar(rng, depth - 1)),
            6 => { self.tags.push("conditional".into()); format!("(if {} then {} else {})", self.cond(rng, depth - 1), self.of_dim(rng, dim, depth - 1), self.of_dim(rng, dim, depth - 1)) }
            7 => { self.tags.push("poly-zero".into()); if rng.chance(1, 2) { format!("(0 + {})", self.of_dim(rng, dim, depth - 1)) } else { format!("({} - 0)", self.of_dim(rng, dim, depth - 1)) } }
            8 => { self.tags.push("convert".into()); format!("({} -> {})", self.of_dim(rng, dim, depth - 1), self.unit_of(rng, dim)) }
            _ => format!("({} {})", self.number(rng), self.unit_of(rng, dim)),
        }
    }
    fn scalar(&mut self, rng: &mut Rng, depth: usize) -> String {
        if depth == 0 || rng.chance(1, 2) { return self.number(rng); }
        let d = (*rng.pick(&self.dims)).clone();
        format!("({} / {})", self.of_dim(rng, &d, depth - 1), self.of_dim(rng, &d, depth - 1))
    }
    fn cond(&mut self, rng: &mut Rng, depth: usize) -> String {
        let d = (*rng.pick(&self.dims)).clone();
        let op = *rng.pick(&["<", ">", "<=", ">=", "==", "!="]);
        if rng.chance(1, 4) {
            // polymorphic zero on either side of a comparison
            if rng.chance(1, 2) { format!("(0 {} {})", op, self.of_dim(rng, &d, depth)) } else { format!("({} {} 0)", self.of_dim(rng, &d, depth), op) }
        } else {
            format!("({} {} {})", self.of_dim(rng, &d, depth), op, self.of_dim(rng, &d, depth))
        }
    }
    /// expression of arbitrary dimension
    fn any(&mut self, rng: &mut Rng, depth: usize) -> String {
        if depth == 0 {
            let d = (*rng.pick(&self.dims)).clone();
            return self.of_dim(rng, &d, 0);
        }
        match rng.below(12) {
            0 | 1 | 2 => format!("({} * {})", self.any(rng, depth - 1), self.any(rng, depth - 1)),
            3 | 4 => format!("({} / {})", self.any(rng, depth - 1), self.any(rng, depth - 1)),
            5 | 6 => {
                let e = *rng.pick(&["2", "3", "(-1)", "(-2)", "(1/2)", "(1/3)", "(2/3)", "0.5", "1.5", "(2*3)", "(6/4)", "(1+1)", "(3-1)", "(2^2)", "(-(1/2))"]);
                self.tags.push("power".into());
                format!("({}^{})", self.any(rng, depth - 1), e)
            }
            7 => {
                if !self.vars.is_empty() { rng.pick(&self.vars).0.clone() } else { self.any(rng, depth - 1) }
            }
            8 => {
                if !self.unary_fns.is_empty() { self.tags.push("call".into()); let f = rng.pick(&self.unary_fns).clone(); format!("{}({})", f, self.any(rng, depth - 1)) } else { self.any(rng, depth - 1) }
            }
            _ => {
                let d = (*rng.pick(&self.dims)).clone();
                self.of_dim(rng, &d, depth)
            }
        }
    }

    fn statement(&mut self, rng: &mut Rng) {
        match rng.below(16) {
            0..=4 => {
                let v = self.fresh("v");
                let (e, d) = if rng.chance(1, 2) {
                    let d = (*rng.pick(&self.dims)).clone();
                    let dp = 1 + rng.below(3);
                    (self.of_dim(rng, &d, dp), Some(d))
                } else {
                    let dp = 1 + rng.below(3);
                    (self.any(rng, dp), None)
                };
                self.stmts.push(format!("let {} = {}", v, e));
                self.vars.push((v.clone(), d));
                self.checked.push(v);
            }
            5 => {
                // inferred generic unary function
                let f = self.fresh("f");
                let body = *rng.pick(&["x * x", "x / 2", "x^3 / x", "sqrt(x * x)", "x + x", "2 x - x", "if x > 0 then x else -x", "x^(1/2) * x^(1/2)", "y * 2 where y = x / 2", "abs(x) + x"]);
                self.stmts.push(format!("fn {}(x) = {}", f, body));
                self.unary_fns.push(f);
                self.tags.push("inferred-fn".into());
            }
            6 => {
                // annotated generic function
                let f = self.fresh("g");
                let (sig, body) = *rng.pick(&[("<D: Dim>(x: D) -> D^2", "x * x"), ("<D: Dim>(x: D) -> D", "x + x / 3"), ("<D: Dim>(x: D) -> Scalar", "x / (2 x)"), ("<D: Dim>(x: D) -> D^(1/2)", "sqrt(x)"), ("<D: Dim>(x: D) -> 1 / D", "1 / x")]);
                self.stmts.push(format!("fn {}{} = {}", f, sig, body));
                self.unary_fns.push(f);
                self.tags.push("annotated-fn".into());
            }
            7 => {
                // binary function with where-clause, called at two dimension classes
                let f = self.fresh("h");
                let body = *rng.pick(&["x * y", "x / y", "r * x where r = y / y", "p / x where p = x * x * y", "if x == x then x * y else y * x"]);
                self.stmts.push(format!("fn {}(x, y) = {}", f, body));
                let v = self.fresh("v");
                let a = self.any(rng, 1);
                let b = self.any(rng, 1);
                self.stmts.push(format!("let {} = {}({}, {})", v, f, a, b));
                self.vars.push((v.clone(), None));
                self.checked.push(v);
                self.tags.push("where-fn".into());
            }
            8 => {
                // list of one dimension class
                let d = (*rng.pick(&self.dims)).clone();
                let l = self.fresh("l");
                let k = 1 + rng.below(4);
                let es: Vec<String> = (0..k).map(|_| self.of_dim(rng, &d, 1)).collect();
                self.stmts.push(format!("let {} = [{}]", l, es.join(", ")));
                self.checked.push(l.clone());
                self.lists.push((l, d));
                self.tags.push("list".into());
            }
            9 => {
                if let Some((l, d)) = self.lists.last().cloned() {
                    let v = self.fresh("v");
                    let (e, known) = match rng.below(6) {
                        0 => (format!("head({})", l), true),
                        1 => (format!("sum({})", l), true),
                        2 => (format!("maximum({})", l), true),
                        3 => (format!("mean({})", l), true),
                        4 if !self.unary_fns.is_empty() => (format!("map({}, {})", rng.pick(&self.unary_fns), l), false),
                        _ => (format!("element_at(0, {})", l), true),
                    };
                    self.stmts.push(format!("let {} = {}", v, e));
                    if known && !e.starts_with("map") { self.vars.push((v.clone(), Some(d))); }
                    self.checked.push(v);
                    self.tags.push("list-fn".into());
                }
            }
            10 => {
                // struct with named dimensions and a generic field
                let s = self.fresh("S");
                let i = rng.below(NAMED_DIMS.len());
                let j = rng.below(NAMED_DIMS.len());
                self.stmts.push(format!("struct {}<A: Dim> {{ a: {}, b: {}, c: A }}", s, NAMED_DIMS[i].0, NAMED_DIMS[j].0));
                let v = self.fresh("v");
                let c = self.any(rng, 1);
                let (n1, u1, n2, u2) = (self.number(rng), self.named_unit(rng, i), self.number(rng), self.named_unit(rng, j));
                // the fields are written in a random order (names and values permuted together); one case in four
                // crosses the values of `a` and `b` instead — ill-typed whenever their dimensions differ: the checker
                // must reject it, and if it does not, the raw field values disagree with the static field types
                let crossed = rng.chance(1, 4) && i != j;
                let (va, vb) = if crossed { (format!("{} {}", n2, u2), format!("{} {}", n1, u1)) } else { (format!("{} {}", n1, u1), format!("{} {}", n2, u2)) };
                let mut fields = vec![format!("a: {}", va), format!("b: {}", vb), format!("c: {}", c)];
                rng.shuffle(&mut fields);
                if crossed { self.tags.push("struct-crossed".into()); }
                self.stmts.push(format!("let {} = {} {{ {} }}", v, s, fields.join(", ")));
                self.checked.push(v.clone());
                let w = self.fresh("v");
                self.stmts.push(format!("let {} = {}.a * {}.c / {}.b", w, v, v, v));
                self.vars.push((w.clone(), None));
                self.checked.push(w);
                self.tags.push("struct".into());
            }
            11 => {
                // dimension and derived units
                let d = self.fresh("Dd");
                let u = self.fresh("uu");
                let w = self.fresh("ww");
                let (dexpr, uexpr) = *rng.pick(&[("Length^2 / Time", "3 m^2/s"), ("Mass * Length / Time^3", "2 kg m / s^3"), ("Length^(1/2)", "4 m^(1/2)"), ("Time / Length", "0.5 s / km"), ("Energy / Mass", "7 J / g")]);
                self.stmts.push(format!("dimension {} = {}", d, dexpr));
                self.stmts.push(format!("unit {}: {} = {}", u, d, uexpr));
                self.stmts.push(format!("unit {} = 2.5 {}", w, u));
                let v = self.fresh("v");
                let (n1, n2, a1) = (self.number(rng), self.number(rng), self.any(rng, 1));
                self.stmts.push(format!("let {} = ({} {} + {} {}) * {}", v, n1, u, n2, w, a1));
                self.vars.push((v.clone(), None));
                self.checked.push(v);
                let v2 = self.fresh("v");
                let n3 = self.number(rng);
                self.stmts.push(format!("let {}: {} = {} {} -> {}", v2, d, n3, w, u));
                self.checked.push(v2);
                self.tags.push("unit-def".into());
            }
            12 => {
                // power with a compile-time evaluated exponent whose static value is the rational `r`
                let (x, r) = *rng.pick(&[("(1/2)", "1/2"), ("0.5", "1/2"), ("(2*3)", "6"), ("(3/2)", "3/2"), ("1.5", "3/2"), ("(1/4+1/4)", "1/2"), ("(2/3)", "2/3"), ("(2^2)", "4"), ("(0.5+0.5)", "1"), ("(0.25*2)", "1/2"), ("(3-1)", "2")]);
                let d = (*rng.pick(&self.dims)).clone();
                let u = self.unit_of(rng, &d);
                let v = self.fresh("v");
                let v2 = self.fresh("v");
                self.stmts.push(format!("let {} = ({} {})^{}", v, 1 + rng.below(9), u, x));
                self.stmts.push(format!("let {} = {} + 3 {}^({})", v2, v, u, r));
                self.checked.push(v);
                self.checked.push(v2);
                self.tags.push("const-exponent".into());
            }
            13 => {
                // comparison with a polymorphic zero in a function body
                let f = self.fresh("k");
                let op = *rng.pick(&["<", ">", "<=", ">="]);
                self.stmts.push(format!("fn {}(x) = if 0 {} x then x else 2 x", f, op));
                self.unary_fns.push(f);
                self.tags.push("zero-compare".into());
            }
            _ => {
                let v = self.fresh("v");
                let dp = 2 + rng.below(3);
                let e = self.any(rng, dp);
                self.stmts.push(format!("let {} = {}", v, e));
                self.vars.push((v.clone(), None));
                self.checked.push(v);
            }
        }
    }
}

struct Outcome {
    accepted: bool,
    error: String,
    problems: Vec<String>,
    raw_units: Vec<String>,
}

fn run_program(ctx: &numbat::Context, stmts: &[String], checked: &[String]) -> Outcome {
    let code = stmts.join("\n");
    let mut c = ctx.clone();
    let r = catch(std::panic::AssertUnwindSafe(|| match c.interpret(&code, CodeSource::Internal) {
        Ok(_) => ("ok".to_string(), true),
        Err(e) => match *e {
            NumbatError::RuntimeError(ref r) => match r.kind {
                RuntimeErrorKind::QuantityError(ref q) => (format!("runtime-incompatible {}", q), true),
                ref k => (format!("runtime-allowed {:?}", k).chars().take(80).collect(), true),
            },
            NumbatError::TypeCheckError(ref t) => (format!("type-error {}", t).replace('\n', " ").chars().take(160).collect(), false),
            ref o => (format!("rejected {}", o).replace('\n', " ").chars().take(160).collect(), false),
        },
    }));
    let (error, accepted) = match r { Ok(x) => x, Err(p) => (format!("panic {}", p), true) };
    let mut problems = Vec::new();
    let mut raw_units = Vec::new();
    if error == "ok" {
        let unit_types: BTreeMap<String, Dim> = c.verif_unit_types().into_iter().filter_map(|(n, t)| parse_dim(&t).map(|d| (n, d))).collect();
        for name in checked {
            let (Some(t), Some(v)) = (c.verif_type_of(name), c.verif_raw_global_value(name)) else { continue };
            if let Err(p) = value_ok(&unit_types, &t, &v, &mut raw_units) {
                problems.push(format!("{}: {}", name, p));
            }
        }
    }
    Outcome { accepted, error, problems, raw_units }
}

fn classify(stmts: &[String]) -> &'static str {
    let code = stmts.join("\n");
    // known defect families, identified by the construct that triggers them
    if code.contains("inf") || code.contains("NaN") { return "c01:poly-nonfinite"; }
    if code.contains("0.1+0.2") || code.contains("0.1 + 0.2") || code.contains("0.7+0.1") || code.contains("0.3*3") { return "c01:exponent-approx"; }
    "c01:unsound"
}

fn judge(ctx: &numbat::Context, units: &Units, out: &mut Out, stmts: &[String], checked: &[String], tags: &[String]) {
    let o = run_program(ctx, stmts, checked);
    let text = format!("prog {}", stmts.join(" ;; "));
    if !o.accepted {
        out.count("rejected_by_checker");
        out.count(&format!("rejected:{}", o.error.split(' ').take(3).collect::<Vec<_>>().join("_")));
        return;
    }
    out.case(&text, stmts.len() >= 2);
    for t in tags { out.count(&format!("uses_{}", t)); }
    out.count(&format!("outcome_{}", o.error.split(' ').next().unwrap_or("?")));
    out.count_n("quantities_checked", o.raw_units.len() as u64);
    let bad = o.error.starts_with("runtime-incompatible") || o.error.starts_with("panic") || !o.problems.is_empty();
    if bad {
        // shrink: drop statements while the same kind of failure remains
        let kind = |o: &Outcome| if o.error.starts_with("runtime-incompatible") { 1 } else if o.error.starts_with("panic") { 2 } else if !o.problems.is_empty() { 3 } else { 0 };
        let k0 = kind(&o);
        let small = shrink_seq(stmts, |c| { let r = run_program(ctx, c, checked); r.accepted && kind(&r) == k0 });
        let o2 = run_program(ctx, &small, checked);
        let what = if !o2.problems.is_empty() { o2.problems.join(" | ") } else { o2.error.clone() };
        let input = format!("prog {}", small.join(" ;; "));
        out.oracle_fail(&format!("{}:{}", classify(&small), input), &input, &what);
    }
    // model stream: the base-unit representation (dimension vector in canonical form) of every raw unit, as
    // the Lean model computes it from the unit table, against the implementation's
    for u in &o.raw_units {
        if let Some(fs) = parse_unit(u) {
            if fs.iter().all(|f| units.index.contains_key(&f.unit)) && out.extra.len() < 4000 {
                if out.extra.insert(format!("seen:{}", u), String::new()).is_none() {
                    let qd = q(0x3ff0000000000000, fs);
                    let ans = canon_nan(&ctx.verif_quantity_op("baserep", &qd, None));
                    out.line(&format!("baserep {}", q_text(&qd)), &ans);
                }
            }
        }
    }
}

fn main() {
    let args = Args::parse();
    let mut out = Out::new(&args);
    out.rule = "multi-statement programs (3-10 statements) generated type-directed over the prelude: let-bindings of expression trees (units in any alias/prefix spelling, + - * / neg, conversions, conditionals with comparisons incl. a polymorphic zero on either side, references to earlier globals, calls), powers with compile-time evaluated exponents (integer, fractional, composite arithmetic) followed by an addition at the statically computed exponent, inferred and annotated generic functions, where-clauses, generic structs with field access, lists with head/sum/maximum/mean/map/element_at, dimension and derived-unit definitions with annotated lets; plus the corpus (known-defect shapes). distinct = program text; non-trivial = at least two statements and accepted by the checker".into();
    let ctx = prelude_ctx();
    let units = Units::load(&ctx);
    units.emit(&mut out);
    // one base unit per base dimension (the typing relation of the model identifies the two)
    {
        let ut: BTreeMap<String, String> = ctx.verif_unit_types().into_iter().collect();
        let mut seen = BTreeMap::new();
        let mut ok = true;
        for r in units.rows.iter().filter(|r| r.is_base) {
            let t = ut.get(&r.name).cloned().unwrap_or_default();
            let single = parse_dim(&t).map(|d| d.len() == 1 && d.values().all(|v| *v == (1, 1))).unwrap_or(false);
            if !single || seen.insert(t.clone(), r.name.clone()).is_some() { ok = false; }
        }
        out.extra.insert("one_base_unit_per_base_dimension".into(), ok.to_string());
        if !ok {
            out.oracle_fail("c01:base-units", "prelude", "two base units share a base dimension (or a base unit has a compound type): same-dimension conversions can fail");
        }
    }
    let run_line = |l: &str, out: &mut Out| {
        if let Some(rest) = l.strip_prefix("prog ") {
            let stmts: Vec<String> = rest.split(" ;; ").map(|s| s.to_string()).collect();
            let checked: Vec<String> = stmts.iter().filter_map(|s| s.strip_prefix("let ").map(|r| r.split(|c| c == ':' || c == ' ' || c == '=').next().unwrap_or("").to_string())).collect();
            judge(&ctx, &units, out, &stmts, &checked, &["corpus".to_string()]);
        }
    };
    if let Some(p) = &args.replay {
        for l in read_lines(p) { run_line(&l, &mut out); }
        out.extra.retain(|k, _| !k.starts_with("seen:"));
        out.finish();
        return;
    }
    if let Some(dir) = args.extra.get("corpus") {
        let mut files: Vec<_> = std::fs::read_dir(dir).map(|d| d.filter_map(|e| e.ok()).map(|e| e.path()).collect()).unwrap_or_default();
        files.sort();
        for f in files { for l in read_lines(&f) { run_line(&l, &mut out); } }
    }
    let mut rng = Rng::new(args.seed);
    let dims: Vec<&String> = units.by_dim.keys().collect();
    let n = args.count(500, 20000);
    for _ in 0..n {
        let mut g = Gen { units: &units, dims: dims.clone(), vars: vec![], unary_fns: vec![], lists: vec![], stmts: vec![], checked: vec![], tags: vec![], n: 0 };
        let k = 3 + rng.below(8);
        for _ in 0..k { g.statement(&mut rng); }
        let (stmts, checked, mut tags) = (g.stmts, g.checked, g.tags);
        tags.sort();
        tags.dedup();
        judge(&ctx, &units, &mut out, &stmts, &checked, &tags);
    }
    out.extra.retain(|k, _| !k.starts_with("seen:"));
    out.finish();
}
