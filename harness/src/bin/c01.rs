//! C01 — accepted programs never go wrong dimensionally at run time.
//!
//! Generated multi-statement programs over the prelude (arithmetic with units/prefixes, powers with
//! compile-time evaluated exponents, derived-unit and dimension definitions, generic and inferred functions,
//! where-clauses, conditionals, structs, lists) are run on the real interpreter.  For every global the program
//! defines, the raw (unsimplified) value is read back and compared with the static type the checker reports:
//! every quantity inside it (also in struct fields and list elements) must carry a unit whose dimension —
//! computed from the static types of the units — equals the type, unless its value is zero (a polymorphic
//! zero carries no unit).  A run-time failure of an accepted program must be one of the documented
//! value-dependent errors, never a unit-incompatibility error.
//!
//! Model stream: the dimension of every raw unit is also computed by the Lean model (`dim <unit>` requests).

use numbat::resolver::CodeSource;
use numbat::verif::c03::show_quantity;
use numbat::{NumbatError, RuntimeErrorKind};
use nvh::qty::*;
use nvh::*;
use std::collections::BTreeMap;

type Dim = BTreeMap<String, (i128, i128)>;

fn gcd(a: i128, b: i128) -> i128 { if b == 0 { a.abs() } else { gcd(b, a % b) } }

fn parse_dim(t: &str) -> Option<Dim> {
    let inner = t.strip_prefix("D[")?.strip_suffix(']')?;
    let mut m = Dim::new();
    if inner.is_empty() { return Some(m); }
    for f in inner.split(',') {
        let (n, e) = f.rsplit_once(':')?;
        let (a, b) = e.split_once('/')?;
        m.insert(n.to_string(), (a.parse().ok()?, b.parse().ok()?));
    }
    Some(m)
}

fn dim_add(m: &mut Dim, d: &Dim, n: i128, den: i128) {
    for (k, v) in d {
        let e = m.entry(k.clone()).or_insert((0, 1));
        let (mut a, mut b) = (e.0 * v.1 * den + v.0 * n * e.1, e.1 * v.1 * den);
        if b < 0 { a = -a; b = -b; }
        let g = gcd(a, b).max(1);
        *e = (a / g, b / g);
    }
    m.retain(|_, v| v.0 != 0);
}

/// split `a;b;c` at top level (brackets nest)
fn split_top(s: &str, sep: char) -> Vec<String> {
    let mut out = Vec::new();
    let mut depth = 0i32;
    let mut cur = String::new();
    for c in s.chars() {
        match c {
            '<' | '{' | '(' | '[' => { depth += 1; cur.push(c); }
            '>' | '}' | ')' | ']' => { depth -= 1; cur.push(c); }
            c if c == sep && depth == 0 => { out.push(std::mem::take(&mut cur)); }
            c => cur.push(c),
        }
    }
    if !cur.is_empty() { out.push(cur); }
    out
}

/// compares a raw value description with a static type description; returns the first problem
fn value_ok(unit_types: &BTreeMap<String, Dim>, ty: &str, val: &str, quantities: &mut Vec<String>) -> Result<(), String> {
    if ty == "?" || ty == "Fn" { return Ok(()); }
    if let Some(d) = parse_dim(ty) {
        let inner = val.strip_prefix("(q ").and_then(|s| s.strip_suffix(')')).ok_or_else(|| format!("type {} but value {}", ty, val))?;
        let w: Vec<&str> = inner.split(' ').collect();
        let bits = u64::from_str_radix(w[0], 16).map_err(|_| "bad bits".to_string())?;
        let v = f64::from_bits(bits);
        let fs = parse_unit(w[1]).ok_or("bad unit")?;
        quantities.push(w[1].to_string());
        if v == 0.0 { return Ok(()); }
        let mut got = Dim::new();
        for f in &fs {
            let ut = unit_types.get(&f.unit).ok_or_else(|| format!("unit {} has no closed type", f.unit))?;
            dim_add(&mut got, ut, f.num, f.den);
        }
        if got != d {
            return Err(format!("quantity {} has unit dimension {:?} but static type {}", val, got, ty));
        }
        return Ok(());
    }
    if let Some(inner) = ty.strip_prefix("List<").and_then(|s| s.strip_suffix('>')) {
        let vi = val.strip_prefix("List<").and_then(|s| s.strip_suffix('>')).ok_or_else(|| format!("type {} but value {}", ty, val))?;
        for e in split_top(vi, ';') {
            value_ok(unit_types, inner, &e, quantities)?;
        }
        return Ok(());
    }
    if let Some(inner) = ty.strip_prefix("Struct{").and_then(|s| s.strip_suffix('}')) {
        let vi = val.strip_prefix("Struct{").and_then(|s| s.strip_suffix('}')).ok_or_else(|| format!("type {} but value {}", ty, val))?;
        let tf = split_top(inner, ';');
        let vf = split_top(vi, ';');
        if tf.len() != vf.len() { return Err(format!("struct arity: {} vs {}", ty, val)); }
        for (t, v) in tf.iter().zip(vf.iter()) {
            let (tn, tt) = t.split_once('=').ok_or("bad struct type")?;
            let (vn, vv) = v.split_once('=').ok_or("bad struct value")?;
            if tn != vn { return Err(format!("struct field order: {} vs {}", tn, vn)); }
            value_ok(unit_types, tt, vv, quantities)?;
        }
        return Ok(());
    }
    Ok(())
}

// ------------------------------------------------------------------ program generator

struct Gen<'a> {
    units: &'a Units,
    dims: Vec<&'a String>,
    /// globals defined so far: (name, dimension class if known)
    vars: Vec<(String, Option<String>)>,
    unary_fns: Vec<String>,
    lists: Vec<(String, String)>,
    stmts: Vec<String>,
    checked: Vec<String>,
    tags: Vec<String>,
    n: usize,
}

const NAMED_DIMS: &[(&str, &[&str])] = &[
    ("Length", &["metre", "foot", "inch", "mile", "yard"]),
    ("Time", &["second", "minute", "hour", "day"]),
    ("Mass", &["gram", "pound", "ounce"]),
    ("Velocity", &["kph", "knot", "mph"]),
    ("Energy", &["joule", "calorie", "electronvolt"]),
    ("Force", &["newton", "dyne"]),
    ("Power", &["watt", "horsepower"]),
    ("Area", &["hectare", "acre"]),
];

impl<'a> Gen<'a> {
    fn fresh(&mut self, p: &str) -> String { self.n += 1; format!("{}_{}", p, self.n) }

    fn number(&self, rng: &mut Rng) -> String {
        match rng.below(8) {
            0 => "0".into(),
            1 => format!("{}", rng.range(1, 12)),
            2 => "2.5".into(),
            3 => format!("{}", -(rng.range(1, 9))),
            4 => "1e3".into(),
            5 => "0.125".into(),
            _ => format!("{}", (rng.range(1, 400) as f64) / 8.0),
        }
    }
    fn unit_of(&self, rng: &mut Rng, dim: &String) -> String {
        let rows = &self.units.by_dim[dim];
        let i = *rng.pick(rows);
        let ps = self.units.prefixes(i);
        let p = if rng.chance(3, 5) { (false, 0) } else { *rng.pick(&ps) };
        let sp = self.units.spellings(i, p);
        if sp.is_empty() { self.units.rows[i].name.clone() } else { rng.pick(&sp).clone() }
    }
    fn named_unit(&self, rng: &mut Rng, k: usize) -> String {
        let cands: Vec<&&str> = NAMED_DIMS[k].1.iter().filter(|u| self.units.index.contains_key(**u)).collect();
        (**rng.pick(&cands)).to_string()
    }
    /// expression of dimension class `dim`
    fn of_dim(&mut self, rng: &mut Rng, dim: &String, depth: usize) -> String {
        let same: Vec<String> = self.vars.iter().filter(|(_, d)| d.as_ref() == Some(dim)).map(|(n, _)| n.clone()).collect();
        if depth == 0 || rng.chance(1, 3) {
            if !same.is_empty() && rng.chance(1, 3) { return rng.pick(&same).clone(); }
            return format!("({} {})", self.number(rng), self.unit_of(rng, dim));
        }
        match rng.below(10) {
            0 | 1 => format!("({} + {})", self.of_dim(rng, dim, depth - 1), self.of_dim(rng, dim, depth - 1)),
            2 => format!("({} - {})", self.of_dim(rng, dim, depth - 1), self.of_dim(rng, dim, depth - 1)),
            3 => format!("(-{})", self.of_dim(rng, dim, depth - 1)),
            4 => format!("({} * {})", self.scalar(rng, depth - 1), self.of_dim(rng, dim, depth - 1)),
            5 => format!("({} / {})", self.of_dim(rng, dim, depth - 1), self.scalar(rng, depth - 1)),
            6 => { self.tags.push("conditional".into()); format!("(if {} then {} else {})", self.cond(rng, depth - 1), self.of_dim(rng, dim, depth - 1), self.of_dim(rng, dim, depth - 1)) }
            7 => { self.tags.push("poly-zero".into()); if rng.chance(1, 2) { format!("(0 + {})", self.of_dim(rng, dim, depth - 1)) } else { format!("({} - 0)", self.of_dim(rng, dim, depth - 1)) } }
            8 => { self.tags.push("convert".into()); format!("({} -> {})", self.of_dim(rng, dim, depth - 1), self.unit_of(rng, dim)) }
            9 if rng.chance(1, 2) => {
                // foreign functions that bring one argument into the unit of the other, with the polymorphic zero or
                // two different units of the dimension as arguments
                self.tags.push("ffi-two-quantities".into());
                // the divisor is a non-zero literal: `mod(x, 0)` is a NaN, and a NaN made of (polymorphic) zeros is the
                // known finding C01-zero-nonfinite, which has its own shapes
                let a = if rng.chance(1, 3) { "0".to_string() } else { self.of_dim(rng, dim, depth - 1) };
                let n = *rng.pick(&["2", "3", "0.5", "7.25", "1e3"]);
                format!("mod({}, ({} {}))", a, n, self.unit_of(rng, dim))
            }
            _ => format!("({} {})", self.number(rng), self.unit_of(rng, dim)),
        }
    }
    fn scalar(&mut self, rng: &mut Rng, depth: usize) -> String {
        if depth == 0 || rng.chance(1, 2) { return self.number(rng); }
        if rng.chance(1, 6) {
            self.tags.push("ffi-two-quantities".into());
            let d = (*rng.pick(&self.dims)).clone();
            let a = if rng.chance(1, 3) { "0".to_string() } else { self.of_dim(rng, &d, depth - 1) };
            let b = if a != "0" && rng.chance(1, 6) { "0".to_string() } else { self.of_dim(rng, &d, depth - 1) };
            // (atan2 of two zeros is 0: no NaN arises here)
            return format!("atan2({}, {})", a, b);
        }
        let d = (*rng.pick(&self.dims)).clone();
        format!("({} / {})", self.of_dim(rng, &d, depth - 1), self.of_dim(rng, &d, depth - 1))
    }
    fn cond(&mut self, rng: &mut Rng, depth: usize) -> String {
        let d = (*rng.pick(&self.dims)).clone();
        let op = *rng.pick(&["<", ">", "<=", ">=", "==", "!="]);
        if rng.chance(1, 4) {
            // polymorphic zero on either side of a comparison
            if rng.chance(1, 2) { format!("(0 {} {})", op, self.of_dim(rng, &d, depth)) } else { format!("({} {} 0)", self.of_dim(rng, &d, depth), op) }
        } else {
            format!("({} {} {})", self.of_dim(rng, &d, depth), op, self.of_dim(rng, &d, depth))
        }
    }
    /// expression of arbitrary dimension
    fn any(&mut self, rng: &mut Rng, depth: usize) -> String {
        if depth == 0 {
            let d = (*rng.pick(&self.dims)).clone();
            return self.of_dim(rng, &d, 0);
        }
        match rng.below(12) {
            0 | 1 | 2 => format!("({} * {})", self.any(rng, depth - 1), self.any(rng, depth - 1)),
            3 | 4 => format!("({} / {})", self.any(rng, depth - 1), self.any(rng, depth - 1)),
            5 | 6 => {
                let e = *rng.pick(&["2", "3", "(-1)", "(-2)", "(1/2)", "(1/3)", "(2/3)", "0.5", "1.5", "(2*3)", "(6/4)", "(1+1)", "(3-1)", "(2^2)", "(-(1/2))", "0.1234", "(1/1024)", "1.0625"]);
                self.tags.push("power".into());
                format!("({}^{})", self.any(rng, depth - 1), e)
            }
            7 => {
                if !self.vars.is_empty() { rng.pick(&self.vars).0.clone() } else { self.any(rng, depth - 1) }
            }
            8 => {
                if !self.unary_fns.is_empty() { self.tags.push("call".into()); let f = rng.pick(&self.unary_fns).clone(); format!("{}({})", f, self.any(rng, depth - 1)) } else { self.any(rng, depth - 1) }
            }
            _ => {
                let d = (*rng.pick(&self.dims)).clone();
                self.of_dim(rng, &d, depth)
            }
        }
    }

    fn statement(&mut self, rng: &mut Rng) {
        match rng.below(18) {
            0..=4 => {
                let v = self.fresh("v");
                let (e, d) = if rng.chance(1, 2) {
                    let d = (*rng.pick(&self.dims)).clone();
                    let dp = 1 + rng.below(3);
                    (self.of_dim(rng, &d, dp), Some(d))
                } else {
                    let dp = 1 + rng.below(3);
                    (self.any(rng, dp), None)
                };
                self.stmts.push(format!("let {} = {}", v, e));
                self.vars.push((v.clone(), d));
                self.checked.push(v);
            }
            5 => {
                // inferred generic unary function
                let f = self.fresh("f");
                let body = *rng.pick(&["x * x", "x / 2", "x^3 / x", "sqrt(x * x)", "x + x", "2 x - x", "if x > 0 then x else -x", "x^(1/2) * x^(1/2)", "y * 2 where y = x / 2", "abs(x) + x"]);
                self.stmts.push(format!("fn {}(x) = {}", f, body));
                self.unary_fns.push(f);
                self.tags.push("inferred-fn".into());
            }
            6 => {
                // annotated generic function
                let f = self.fresh("g");
                let (sig, body) = *rng.pick(&[("<D: Dim>(x: D) -> D^2", "x * x"), ("<D: Dim>(x: D) -> D", "x + x / 3"), ("<D: Dim>(x: D) -> Scalar", "x / (2 x)"), ("<D: Dim>(x: D) -> D^(1/2)", "sqrt(x)"), ("<D: Dim>(x: D) -> 1 / D", "1 / x")]);
                self.stmts.push(format!("fn {}{} = {}", f, sig, body));
                self.unary_fns.push(f);
                self.tags.push("annotated-fn".into());
            }
            7 => {
                // binary function with where-clause, called at two dimension classes
                let f = self.fresh("h");
                let body = *rng.pick(&["x * y", "x / y", "r * x where r = y / y", "p / x where p = x * x * y", "if x == x then x * y else y * x"]);
                self.stmts.push(format!("fn {}(x, y) = {}", f, body));
                let v = self.fresh("v");
                let a = self.any(rng, 1);
                let b = self.any(rng, 1);
                self.stmts.push(format!("let {} = {}({}, {})", v, f, a, b));
                self.vars.push((v.clone(), None));
                self.checked.push(v);
                self.tags.push("where-fn".into());
            }
            8 => {
                // list of one dimension class
                let d = (*rng.pick(&self.dims)).clone();
                let l = self.fresh("l");
                let k = 1 + rng.below(4);
                let es: Vec<String> = (0..k).map(|_| self.of_dim(rng, &d, 1)).collect();
                self.stmts.push(format!("let {} = [{}]", l, es.join(", ")));
                self.checked.push(l.clone());
                self.lists.push((l, d));
                self.tags.push("list".into());
            }
            9 => {
                if let Some((l, d)) = self.lists.last().cloned() {
                    let v = self.fresh("v");
                    let (e, known) = match rng.below(6) {
                        0 => (format!("head({})", l), true),
                        1 => (format!("sum({})", l), true),
                        2 => (format!("maximum({})", l), true),
                        3 => (format!("mean({})", l), true),
                        4 if !self.unary_fns.is_empty() => (format!("map({}, {})", rng.pick(&self.unary_fns), l), false),
                        _ => (format!("element_at(0, {})", l), true),
                    };
                    self.stmts.push(format!("let {} = {}", v, e));
                    if known && !e.starts_with("map") { self.vars.push((v.clone(), Some(d))); }
                    self.checked.push(v);
                    self.tags.push("list-fn".into());
                }
            }
            10 => {
                // struct with named dimensions and a generic field
                let s = self.fresh("S");
                let i = rng.below(NAMED_DIMS.len());
                let j = rng.below(NAMED_DIMS.len());
                self.stmts.push(format!("struct {}<A: Dim> {{ a: {}, b: {}, c: A }}", s, NAMED_DIMS[i].0, NAMED_DIMS[j].0));
                let v = self.fresh("v");
                let c = self.any(rng, 1);
                let (n1, u1, n2, u2) = (self.number(rng), self.named_unit(rng, i), self.number(rng), self.named_unit(rng, j));
                // the fields are written in a random order (names and values permuted together); one case in four
                // crosses the values of `a` and `b` instead — ill-typed whenever their dimensions differ: the checker
                // must reject it, and if it does not, the raw field values disagree with the static field types
                let crossed = rng.chance(1, 4) && i != j;
                let (va, vb) = if crossed { (format!("{} {}", n2, u2), format!("{} {}", n1, u1)) } else { (format!("{} {}", n1, u1), format!("{} {}", n2, u2)) };
                let mut fields = vec![format!("a: {}", va), format!("b: {}", vb), format!("c: {}", c)];
                rng.shuffle(&mut fields);
                if crossed { self.tags.push("struct-crossed".into()); }
                self.stmts.push(format!("let {} = {} {{ {} }}", v, s, fields.join(", ")));
                self.checked.push(v.clone());
                let w = self.fresh("v");
                self.stmts.push(format!("let {} = {}.a * {}.c / {}.b", w, v, v, v));
                self.vars.push((w.clone(), None));
                self.checked.push(w);
                self.tags.push("struct".into());
            }
            11 => {
                // dimension and derived units
                let d = self.fresh("Dd");
                let u = self.fresh("uu");
                let w = self.fresh("ww");
                let (dexpr, uexpr) = *rng.pick(&[("Length^2 / Time", "3 m^2/s"), ("Mass * Length / Time^3", "2 kg m / s^3"), ("Length^(1/2)", "4 m^(1/2)"), ("Time / Length", "0.5 s / km"), ("Energy / Mass", "7 J / g")]);
                self.stmts.push(format!("dimension {} = {}", d, dexpr));
                self.stmts.push(format!("unit {}: {} = {}", u, d, uexpr));
                self.stmts.push(format!("unit {} = 2.5 {}", w, u));
                let v = self.fresh("v");
                let (n1, n2, a1) = (self.number(rng), self.number(rng), self.any(rng, 1));
                self.stmts.push(format!("let {} = ({} {} + {} {}) * {}", v, n1, u, n2, w, a1));
                self.vars.push((v.clone(), None));
                self.checked.push(v);
                let v2 = self.fresh("v");
                let n3 = self.number(rng);
                self.stmts.push(format!("let {}: {} = {} {} -> {}", v2, d, n3, w, u));
                self.checked.push(v2);
                self.tags.push("unit-def".into());
            }
            12 => {
                // power with a compile-time evaluated exponent whose static value is the rational `r`
                let (x, r) = *rng.pick(&[("(1/2)", "1/2"), ("0.5", "1/2"), ("(2*3)", "6"), ("(3/2)", "3/2"), ("1.5", "3/2"), ("(1/4+1/4)", "1/2"), ("(2/3)", "2/3"), ("(2^2)", "4"), ("(0.5+0.5)", "1"), ("(0.25*2)", "1/2"), ("(3-1)", "2"),
                    // a power with a negative integer exponent inside the exponent (rejected by the const evaluator today: numerical overflow; seed C01-E)
                    ("(2^-1)", "1/2"), ("(2^(1-2))", "1/2"), ("(4^-1 * 2)", "1/2"),
                    // exponents whose exact value needs a large denominator (single literals: the run-time exponent is exact)
                    ("0.1234", "617/5000"), ("(1/1024)", "1/1024"), ("(5/2048)", "5/2048"), ("0.0009765625", "1/1024"), ("1.0625", "17/16"), ("(1001/1000)", "1001/1000"), ("2.718", "1359/500")]);
                let d = (*rng.pick(&self.dims)).clone();
                let u = self.unit_of(rng, &d);
                let v = self.fresh("v");
                let v2 = self.fresh("v");
                self.stmts.push(format!("let {} = ({} {})^{}", v, 1 + rng.below(9), u, x));
                // (for the negative-power shapes the first definition stands alone half of the time: the raw value is then
                // judged against the reported type even when the checker's exponent is not the one expected here)
                let alone = x.contains("^-") || x.contains("^(1-2)");
                if !(alone && rng.below(2) == 0) {
                    self.stmts.push(format!("let {} = {} + 3 {}^({})", v2, v, u, r));
                    self.checked.push(v2);
                }
                self.checked.push(v);
                self.tags.push("const-exponent".into());
            }
            15 => {
                // a second base unit of a dimension that already has one (known finding C01-second-base-unit)
                let i = rng.below(NAMED_DIMS.len());
                let u = self.fresh("zqbase");
                self.stmts.push(format!("unit {}: {}", u, NAMED_DIMS[i].0));
                let v = self.fresh("v");
                let (n1, n2, u2) = (self.number(rng), self.number(rng), self.named_unit(rng, i));
                self.stmts.push(format!("let {} = {} {} + {} {}", v, n1, u, n2, u2));
                self.checked.push(v);
                self.tags.push("second-base-unit".into());
            }
            14 => {
                // a generic struct whose type arguments are permuted / combined by an annotated function
                let s = self.fresh("S");
                let f = self.fresh("k");
                let i = rng.below(NAMED_DIMS.len());
                let j = rng.below(NAMED_DIMS.len());
                self.stmts.push(format!("struct {}<A: Dim, B: Dim> {{ a: A, b: B }}", s));
                let (ret, body) = *rng.pick(&[
                    ("<B, A>", "a: p.b, b: p.a"),
                    ("<B, A * B>", "a: p.b, b: p.a * p.b"),
                    ("<A / B, A>", "a: p.a / p.b, b: p.a"),
                    ("<B, B>", "a: p.b, b: 2 p.b"),
                ]);
                self.stmts.push(format!("fn {}<A: Dim, B: Dim>(p: {}<A, B>) -> {}{} = {} {{ {} }}", f, s, s, ret, s, body));
                let v = self.fresh("v");
                let (n1, u1, n2, u2) = (self.number(rng), self.named_unit(rng, i), self.number(rng), self.named_unit(rng, j));
                self.stmts.push(format!("let {} = {}({} {{ a: {} {}, b: {} {} }})", v, f, s, n1, u1, n2, u2));
                self.checked.push(v.clone());
                let w = self.fresh("v");
                self.stmts.push(format!("let {} = {}.a", w, v));
                self.checked.push(w);
                self.tags.push("struct-generic-permuted".into());
            }
            13 => {
                // comparison with a polymorphic zero in a function body
                let f = self.fresh("k");
                let op = *rng.pick(&["<", ">", "<=", ">="]);
                self.stmts.push(format!("fn {}(x) = if 0 {} x then x else 2 x", f, op));
                self.unary_fns.push(f);
                self.tags.push("zero-compare".into());
            }
            _ => {
                let v = self.fresh("v");
                let dp = 2 + rng.below(3);
                let e = self.any(rng, dp);
                self.stmts.push(format!("let {} = {}", v, e));
                self.vars.push((v.clone(), None));
                self.checked.push(v);
            }
        }
    }
}

struct Outcome {
    accepted: bool,
    error: String,
    problems: Vec<String>,
    raw_units: Vec<String>,
}

fn run_program(ctx: &numbat::Context, stmts: &[String], checked: &[String]) -> Outcome {
    let code = stmts.join("\n");
    let mut c = ctx.clone();
    let r = catch(std::panic::AssertUnwindSafe(|| match c.interpret(&code, CodeSource::Internal) {
        Ok(_) => ("ok".to_string(), true),
        Err(e) => match *e {
            NumbatError::RuntimeError(ref r) => match r.kind {
                RuntimeErrorKind::QuantityError(ref q) => (format!("runtime-incompatible {}", q), true),
                ref k => (format!("runtime-allowed {:?}", k).chars().take(80).collect(), true),
            },
            NumbatError::TypeCheckError(ref t) => (format!("type-error {}", t).replace('\n', " ").chars().take(160).collect(), false),
            ref o => (format!("rejected {}", o).replace('\n', " ").chars().take(160).collect(), false),
        },
    }));
    let (error, accepted) = match r { Ok(x) => x, Err(p) => (format!("panic {}", p), true) };
    let mut problems = Vec::new();
    let mut raw_units = Vec::new();
    if error == "ok" {
        let unit_types: BTreeMap<String, Dim> = c.verif_unit_types().into_iter().filter_map(|(n, t)| parse_dim(&t).map(|d| (n, d))).collect();
        for name in checked {
            let (Some(t), Some(v)) = (c.verif_type_of(name), c.verif_raw_global_value(name)) else { continue };
            if let Err(p) = value_ok(&unit_types, &t, &v, &mut raw_units) {
                problems.push(format!("{}: {}", name, p));
            }
        }
    }
    Outcome { accepted, error, problems, raw_units }
}

fn classify(stmts: &[String]) -> &'static str {
    let code = stmts.join("\n");
    // known defect families, identified by the construct that triggers them
    if code.contains("inf") || code.contains("NaN") { return "c01:poly-nonfinite"; }
    // a conversion whose target is the polymorphic zero: `1 m -> 0` is accepted and fails at run time
    if code.contains("-> 0)") || code.contains("-> 0.0)") || code.ends_with("-> 0") { return "c01:convert-to-zero"; }
    // a base unit declared for a dimension that already has base units: no conversion exists between them
    if code.lines().any(|l| l.starts_with("unit zqbase") && !l.contains('=')) { return "c01:second-base-unit"; }
    if code.contains("0.1+0.2") || code.contains("0.1 + 0.2") || code.contains("0.7+0.1") || code.contains("0.3*3") { return "c01:exponent-approx"; }
    "c01:unsound"
}

fn judge(ctx: &numbat::Context, units: &Units, out: &mut Out, stmts: &[String], checked: &[String], tags: &[String]) {
    let o = run_program(ctx, stmts, checked);
    let text = format!("prog {}", stmts.join(" ;; "));
    if !o.accepted {
        out.count("rejected_by_checker");
        out.count(&format!("rejected:{}", o.error.split(' ').take(3).collect::<Vec<_>>().join("_")));
        return;
    }
    out.case(&text, stmts.len() >= 2);
    for t in tags { out.count(&format!("uses_{}", t)); }
    out.count(&format!("outcome_{}", o.error.split(' ').next().unwrap_or("?")));
    out.count_n("quantities_checked", o.raw_units.len() as u64);
    let bad = o.error.starts_with("runtime-incompatible") || o.error.starts_with("panic") || !o.problems.is_empty();
    if bad {
        // shrink: drop statements while the same kind of failure remains
        let kind = |o: &Outcome| if o.error.starts_with("runtime-incompatible") { 1 } else if o.error.starts_with("panic") { 2 } else if !o.problems.is_empty() { 3 } else { 0 };
        let k0 = kind(&o);
        let small = shrink_seq(stmts, |c| { let r = run_program(ctx, c, checked); r.accepted && kind(&r) == k0 });
        let o2 = run_program(ctx, &small, checked);
        let what = if !o2.problems.is_empty() { o2.problems.join(" | ") } else { o2.error.clone() };
        let input = format!("prog {}", small.join(" ;; "));
        // (a failure of the model stream that was traced to a polymorphic zero meeting a NaN/infinity at run time)
        // the same defect in the text stream: every value that disagrees with its type is a NaN or an infinity, and the
        // program contains a literal zero (whose missing unit the non-finite value inherited)
        let nonfinite_values = !o2.problems.is_empty() && o2.problems.iter().all(|p| {
            p.split("(q ").nth(1).and_then(|r| u64::from_str_radix(&r[..16.min(r.len())], 16).ok()).map(|b| !f64::from_bits(b).is_finite()).unwrap_or(false)
        });
        let has_zero_literal = small.iter().any(|l| l.split(|c: char| !(c.is_ascii_alphanumeric() || c == '.' || c == '_')).any(|t| t == "0" || t == "0.0"));
        let class = if (tags.iter().any(|t| t == "zero-nonfinite") && (o2.error.starts_with("runtime-incompatible") || !o2.problems.is_empty()) || nonfinite_values && has_zero_literal) && classify(&small) == "c01:unsound" { "c01:zero-nonfinite" } else { classify(&small) };
        out.oracle_fail(&format!("{}:{}", class, input), &input, &what);
    }
    // model stream: the base-unit representation (dimension vector in canonical form) of every raw unit, as
    // the Lean model computes it from the unit table, against the implementation's
    for u in &o.raw_units {
        if let Some(fs) = parse_unit(u) {
            if fs.iter().all(|f| units.index.contains_key(&f.unit)) && out.extra.len() < 4000 {
                if out.extra.insert(format!("seen:{}", u), String::new()).is_none() {
                    let qd = q(0x3ff0000000000000, fs);
                    let ans = canon_nan(&ctx.verif_quantity_op("baserep", &qd, None));
                    out.line(&format!("baserep {}", q_text(&qd)), &ans);
                }
            }
        }
    }
}


// ------------------------------------------------------------------ model stream `mprog`
//
// Programs in the fragment of lean/NumbatModel/Model/QtyProg.lean (the fragment of the theorem
// `program_soundness`): `let` definitions over numbers, units, earlier globals, + - * / neg, constant powers,
// conversions to unit expressions, comparisons, boolean logic and conditionals.  Each definition is given to the
// real interpreter as its own input, the raw value of the new global is read back (hook) and must equal, bit
// for bit, what the model computes for the same program; the program text also goes through `judge` (raw value
// against static type, kind of run-time failure).

#[derive(Clone, Debug)]
enum P {
    Num(f64),
    Unit(usize, (bool, i32), String),
    Var(usize, String),
    Neg(Box<P>),
    Bin(&'static str, Box<P>, Box<P>), // add sub mul div conv lt gt le ge eq ne and or
    Pow(Box<P>, i128, i128),
    Not(Box<P>),
    Bool(bool),
    If(Box<P>, Box<P>, Box<P>),
    /// parameter of the enclosing function
    Loc(usize, String),
    /// call of the user function with that index
    Call(usize, String, Vec<P>),
    /// list literal and the foreign list functions `head`, `tail`, `cons`, `len`
    Lst(Vec<P>),
    Head(Box<P>),
    Tail(Box<P>),
    Cons(Box<P>, Box<P>),
    Len(Box<P>),
    /// struct literal: struct name, (field name, value) in *definition* order
    Mk(String, Vec<(String, P)>),
    /// field access: object, index of the field in the definition, field name
    Get(Box<P>, usize, String),
}

/// a top-level definition
#[derive(Clone, Debug)]
enum D {
    Let(String, P),
    /// name, parameters, `where` clauses (name, right-hand side), body
    Fn(String, Vec<String>, Vec<(String, P)>, P),
    /// struct definition: the source text (nothing happens at run time)
    Struct(String),
}

#[derive(Clone, Debug, PartialEq)]
enum MTy { Dim(String), Scalar, Bool, List(Box<MTy>), Struct(usize) }

impl P {
    fn src(&self) -> String { self.src_with(&[]) }
    /// source text; parameter `i` is written as `subst[i]` if there is one (used by the probe below)
    fn src_with(&self, subst: &[String]) -> String {
        match self {
            P::Num(v) => num_src(*v),
            P::Unit(_, _, s) => s.clone(),
            P::Var(_, n) => n.clone(),
            P::Neg(a) => format!("(-{})", a.src_with(subst)),
            P::Bin(op, a, b) => {
                let o = match *op { "add" => "+", "sub" => "-", "mul" => "*", "div" => "/", "conv" => "->", "lt" => "<", "gt" => ">", "le" => "<=", "ge" => ">=", "eq" => "==", "ne" => "!=", "and" => "&&", _ => "||" };
                format!("({} {} {})", a.src_with(subst), o, b.src_with(subst))
            }
            P::Pow(a, n, d) => if *d == 1 { format!("({}^({}))", a.src_with(subst), n) } else { format!("({}^({}/{}))", a.src_with(subst), n, d) },
            P::Not(a) => format!("(!{})", a.src_with(subst)),
            P::Bool(b) => b.to_string(),
            P::If(c, t, e) => format!("(if {} then {} else {})", c.src_with(subst), t.src_with(subst), e.src_with(subst)),
            P::Loc(i, n) => subst.get(*i).cloned().unwrap_or_else(|| n.clone()),
            P::Call(_, n, args) => format!("{}({})", n, args.iter().map(|a| a.src_with(subst)).collect::<Vec<_>>().join(", ")),
            P::Lst(es) => format!("[{}]", es.iter().map(|a| a.src_with(subst)).collect::<Vec<_>>().join(", ")),
            P::Head(a) => format!("head({})", a.src_with(subst)),
            P::Tail(a) => format!("tail({})", a.src_with(subst)),
            P::Cons(a, l) => format!("cons({}, {})", a.src_with(subst), l.src_with(subst)),
            P::Len(a) => format!("len({})", a.src_with(subst)),
            // the fields are written in the reverse of the definition order when there are two or more (the order in
            // the source must not matter)
            P::Mk(n, fs) => format!("{} {{ {} }}", n, fs.iter().rev().map(|(f, e)| format!("{}: {}", f, e.src_with(subst))).collect::<Vec<_>>().join(", ")),
            P::Get(a, _, f) => match &**a {
                P::Mk(..) => format!("({}).{}", a.src_with(subst), f),
                _ => format!("{}.{}", a.src_with(subst), f),
            },
        }
    }
    fn sexpr(&self, units: &Units) -> String {
        match self {
            P::Num(v) => format!("(num {})", fb(*v)),
            P::Unit(i, p, _) => format!("(unit {}:{}{}:1/1)", units.rows[*i].name, if p.0 { "b" } else { "m" }, p.1),
            P::Var(i, _) => format!("(var {})", i),
            P::Neg(a) => format!("(neg {})", a.sexpr(units)),
            P::Bin(op, a, b) => format!("({} {} {})", op, a.sexpr(units), b.sexpr(units)),
            P::Pow(a, n, d) => format!("(pow {} {}/{})", a.sexpr(units), n, d),
            P::Not(a) => format!("(not {})", a.sexpr(units)),
            P::Bool(b) => format!("({})", b),
            P::If(c, t, e) => format!("(if {} {} {})", c.sexpr(units), t.sexpr(units), e.sexpr(units)),
            P::Loc(i, _) => format!("(loc {})", i),
            P::Call(f, _, args) => {
                let chain = args.iter().rev().fold("(noarg)".to_string(), |acc, a| format!("(arg {} {})", a.sexpr(units), acc));
                format!("(call {} {})", f, chain)
            }
            P::Lst(es) => {
                let chain = es.iter().rev().fold("(noarg)".to_string(), |acc, a| format!("(arg {} {})", a.sexpr(units), acc));
                format!("(lst {})", chain)
            }
            P::Head(a) => format!("(head {})", a.sexpr(units)),
            P::Tail(a) => format!("(tail {})", a.sexpr(units)),
            P::Cons(a, l) => format!("(cons {} {})", a.sexpr(units), l.sexpr(units)),
            P::Len(a) => format!("(len {})", a.sexpr(units)),
            P::Mk(_, fs) => {
                // the compiler evaluates the fields in the reverse of the definition order: the chain lists them so
                let chain = fs.iter().fold("(noarg)".to_string(), |acc, (_, e)| format!("(arg {} {})", e.sexpr(units), acc));
                format!("(mk {})", chain)
            }
            P::Get(a, i, _) => format!("(get {} {})", a.sexpr(units), i),
        }
    }
    fn count_nodes(&self, out: &mut Out) {
        let k = match self {
            P::Num(_) => "num", P::Unit(..) => "unit", P::Var(..) => "var", P::Neg(_) => "neg", P::Bin(op, ..) => op,
            P::Pow(..) => "pow", P::Not(_) => "not", P::Bool(_) => "bool", P::If(..) => "if",
            P::Loc(..) => "loc", P::Call(..) => "call",
            P::Lst(..) => "lst", P::Head(..) => "head", P::Tail(..) => "tail", P::Cons(..) => "cons", P::Len(..) => "len",
            P::Mk(..) => "mk", P::Get(..) => "get",
        };
        out.count(&format!("mprog_node:{}", k));
        match self {
            P::Neg(a) | P::Pow(a, _, _) | P::Not(a) => a.count_nodes(out),
            P::Bin(_, a, b) => { a.count_nodes(out); b.count_nodes(out); }
            P::If(c, t, e) => { c.count_nodes(out); t.count_nodes(out); e.count_nodes(out); }
            P::Call(_, _, args) | P::Lst(args) => { for a in args { a.count_nodes(out); } }
            P::Head(a) | P::Tail(a) | P::Len(a) | P::Get(a, _, _) => a.count_nodes(out),
            P::Cons(a, l) => { a.count_nodes(out); l.count_nodes(out); }
            P::Mk(_, fs) => { for (_, e) in fs { e.count_nodes(out); } }
            _ => {}
        }
    }
}

struct MGen<'a> {
    units: &'a Units,
    dims: Vec<&'a String>,
    vars: Vec<(String, MTy)>,
    /// parameters of the function whose body is being generated
    locals: Vec<(String, MTy)>,
    /// user functions defined so far: name, parameter types, result type
    fns: Vec<(String, Vec<MTy>, MTy)>,
    /// structs defined so far: name, fields (name, type) in definition order
    structs: Vec<(String, Vec<(String, MTy)>)>,
}

fn bx(p: P) -> Box<P> { Box::new(p) }

impl<'a> MGen<'a> {
    fn leaf_unit(&self, rng: &mut Rng, dim: &String) -> P {
        let rows = &self.units.by_dim[dim];
        let i = *rng.pick(rows);
        let ps = self.units.prefixes(i);
        let mut p = if rng.chance(1, 2) { (false, 0) } else { *rng.pick(&ps) };
        let mut sp = self.units.spellings(i, p);
        if sp.is_empty() {
            p = (false, 0);
            sp = self.units.spellings(i, p);
        }
        P::Unit(i, p, rng.pick(&sp).clone())
    }
    fn number(&self, rng: &mut Rng) -> f64 {
        match rng.below(10) {
            0 => 0.0,
            1 => 2f64.powi(rng.range(-20, 20) as i32),
            2 | 3 => rng.range(-20, 20) as f64,
            4 => 40.5,
            5 => 10f64.powi(rng.range(-9, 9) as i32) * (1.0 + rng.below(9) as f64),
            _ => ((rng.unit_f64() * 200.0 - 100.0) * 64.0).round() / 64.0,
        }
    }
    fn var_of(&self, rng: &mut Rng, t: &MTy) -> Option<P> {
        // parameters first (two times out of three when there is one of the type)
        let l: Vec<usize> = (0..self.locals.len()).filter(|i| &self.locals[*i].1 == t).collect();
        if !l.is_empty() && rng.chance(2, 3) { let i = *rng.pick(&l); return Some(P::Loc(i, self.locals[i].0.clone())); }
        let c: Vec<usize> = (0..self.vars.len()).filter(|i| &self.vars[*i].1 == t).collect();
        if c.is_empty() { None } else { let i = *rng.pick(&c); Some(P::Var(i, self.vars[i].0.clone())) }
    }
    /// a call of a user function with result type `t`, if there is one
    fn call_of(&self, rng: &mut Rng, t: &MTy, depth: usize) -> Option<P> {
        let c: Vec<usize> = (0..self.fns.len()).filter(|i| &self.fns[*i].2 == t).collect();
        if c.is_empty() { return None; }
        let f = *rng.pick(&c);
        let (name, params, _) = self.fns[f].clone();
        let args: Vec<P> = params.iter().map(|pt| self.of_ty(rng, pt, depth)).collect();
        Some(P::Call(f, name, args))
    }
    fn of_ty(&self, rng: &mut Rng, t: &MTy, depth: usize) -> P {
        match t {
            MTy::Dim(d) => self.of_dim(rng, d, depth),
            MTy::Scalar => self.scalar(rng, depth),
            MTy::Bool => self.cond(rng, depth),
            MTy::List(el) => self.list_of(rng, el, depth),
            MTy::Struct(k) => self.struct_of(rng, *k, depth),
        }
    }
    /// an expression of the struct type `k`
    fn struct_of(&self, rng: &mut Rng, k: usize, depth: usize) -> P {
        let t = MTy::Struct(k);
        if rng.chance(1, 3) {
            if let Some(v) = self.var_of(rng, &t) { return v; }
        }
        let d = depth.saturating_sub(1);
        if depth > 0 && rng.chance(1, 6) {
            if let Some(c) = self.call_of(rng, &t, d) { return c; }
        }
        if depth > 0 && rng.chance(1, 8) {
            return P::If(bx(self.cond(rng, d)), bx(self.struct_of(rng, k, d)), bx(self.struct_of(rng, k, d)));
        }
        let (name, fields) = self.structs[k].clone();
        P::Mk(name, fields.iter().map(|(f, ft)| (f.clone(), self.of_ty(rng, ft, d))).collect())
    }
    /// a field of type `t` of some struct value in scope (or of a fresh struct value)
    fn field_of(&self, rng: &mut Rng, t: &MTy, depth: usize) -> Option<P> {
        let mut cands: Vec<(usize, usize, String)> = Vec::new();
        for (k, (_, fields)) in self.structs.iter().enumerate() {
            for (i, (f, ft)) in fields.iter().enumerate() {
                if ft == t { cands.push((k, i, f.clone())); }
            }
        }
        if cands.is_empty() || !rng.chance(1, 5) { return None; }
        let (k, i, f) = rng.pick(&cands).clone();
        Some(P::Get(bx(self.struct_of(rng, k, depth.saturating_sub(1))), i, f))
    }
    /// a list expression with elements of type `el`
    fn list_of(&self, rng: &mut Rng, el: &MTy, depth: usize) -> P {
        let t = MTy::List(Box::new(el.clone()));
        if rng.chance(1, 3) {
            if let Some(v) = self.var_of(rng, &t) { return v; }
        }
        if depth == 0 {
            let n = rng.below(3);
            return P::Lst((0..n).map(|_| self.of_ty(rng, el, 0)).collect());
        }
        let d = depth - 1;
        match rng.below(8) {
            0 | 1 | 2 => { let n = rng.below(4); P::Lst((0..n).map(|_| self.of_ty(rng, el, d)).collect()) }
            3 | 4 => P::Cons(bx(self.of_ty(rng, el, d)), bx(self.list_of(rng, el, d))),
            5 => P::Tail(bx(self.list_of(rng, el, d))),
            6 => { if let Some(c) = self.call_of(rng, &t, d) { c } else { P::Lst(vec![self.of_ty(rng, el, d)]) } }
            _ => P::If(bx(self.cond(rng, d)), bx(self.list_of(rng, el, d)), bx(self.list_of(rng, el, d))),
        }
    }
    /// `head` of a list of that element type, if the dice say so
    fn head_of(&self, rng: &mut Rng, el: &MTy, depth: usize) -> Option<P> {
        let t = MTy::List(Box::new(el.clone()));
        let has_var = self.vars.iter().chain(self.locals.iter()).any(|(_, vt)| vt == &t);
        if (has_var && rng.chance(1, 3)) || rng.chance(1, 20) {
            Some(P::Head(bx(self.list_of(rng, el, depth.saturating_sub(1)))))
        } else {
            None
        }
    }
    /// a unit expression (no numbers) of the dimension class `dim`
    fn unit_expr(&self, rng: &mut Rng, dim: &String) -> P {
        let u = self.leaf_unit(rng, dim);
        match rng.below(6) {
            0 => {
                let d2 = *rng.pick(&self.dims);
                P::Bin("mul", bx(u), bx(P::Bin("div", bx(self.leaf_unit(rng, d2)), bx(self.leaf_unit(rng, d2)))))
            }
            1 => {
                let d2 = *rng.pick(&self.dims);
                P::Bin("div", bx(P::Bin("mul", bx(u), bx(self.leaf_unit(rng, d2)))), bx(self.leaf_unit(rng, d2)))
            }
            2 => P::Bin("div", bx(P::Pow(bx(u), 2, 1)), bx(self.leaf_unit(rng, dim))),
            _ => u,
        }
    }
    fn of_dim(&self, rng: &mut Rng, dim: &String, depth: usize) -> P {
        let t = MTy::Dim(dim.clone());
        if depth > 0 && rng.chance(1, 6) {
            if let Some(c) = self.call_of(rng, &t, depth - 1) { return c; }
        }
        if depth > 0 {
            if let Some(h) = self.head_of(rng, &t, depth) { return h; }
            if let Some(f) = self.field_of(rng, &t, depth) { return f; }
        }
        if depth == 0 || rng.chance(1, 4) {
            if rng.chance(1, 3) || (!self.locals.is_empty() && rng.chance(1, 2)) {
                if let Some(v) = self.var_of(rng, &t) { return v; }
            }
            if rng.chance(1, 16) { return P::Num(0.0); }
            return P::Bin("mul", bx(P::Num(self.number(rng))), bx(self.leaf_unit(rng, dim)));
        }
        let d = depth - 1;
        match rng.below(12) {
            0 | 1 => P::Bin("add", bx(self.of_dim(rng, dim, d)), bx(self.of_dim(rng, dim, d))),
            2 | 3 => P::Bin("sub", bx(self.of_dim(rng, dim, d)), bx(self.of_dim(rng, dim, d))),
            4 => P::Neg(bx(self.of_dim(rng, dim, d))),
            5 => P::Bin("mul", bx(self.scalar(rng, d)), bx(self.of_dim(rng, dim, d))),
            6 => P::Bin("div", bx(self.of_dim(rng, dim, d)), bx(self.scalar(rng, d))),
            7 | 8 => {
                // one target in forty is the literal `0` (outside the fragment: known finding C01-convert-to-zero)
                let target = if rng.chance(1, 40) { P::Num(0.0) } else { self.unit_expr(rng, dim) };
                P::Bin("conv", bx(self.of_dim(rng, dim, d)), bx(target))
            }
            9 => P::If(bx(self.cond(rng, d)), bx(self.of_dim(rng, dim, d)), bx(self.of_dim(rng, dim, d))),
            10 => P::Bin("div", bx(P::Pow(bx(self.of_dim(rng, dim, d)), 2, 1)), bx(self.of_dim(rng, dim, d))),
            _ => P::Pow(bx(P::Bin("mul", bx(self.of_dim(rng, dim, d)), bx(self.of_dim(rng, dim, d)))), 1, 2),
        }
    }
    fn scalar(&self, rng: &mut Rng, depth: usize) -> P {
        if depth > 0 && rng.chance(1, 8) {
            if let Some(c) = self.call_of(rng, &MTy::Scalar, depth - 1) { return c; }
        }
        if depth > 0 {
            if let Some(f) = self.field_of(rng, &MTy::Scalar, depth) { return f; }
            if let Some(h) = self.head_of(rng, &MTy::Scalar, depth) { return h; }
            // the length of some list in scope
            let lists: Vec<MTy> = self.vars.iter().chain(self.locals.iter()).filter_map(|(_, t)| if let MTy::List(_) = t { Some(t.clone()) } else { None }).collect();
            if !lists.is_empty() && rng.chance(1, 4) {
                let lt = rng.pick(&lists).clone();
                if let MTy::List(el) = &lt { return P::Len(bx(self.list_of(rng, el, depth - 1))); }
            }
        }
        if depth == 0 || rng.chance(1, 3) {
            if rng.chance(1, 3) || (!self.locals.is_empty() && rng.chance(1, 2)) {
                if let Some(v) = self.var_of(rng, &MTy::Scalar) { return v; }
            }
            return P::Num(self.number(rng));
        }
        let d = depth - 1;
        match rng.below(6) {
            0 | 1 => {
                let dm = *rng.pick(&self.dims);
                P::Bin("div", bx(self.of_dim(rng, dm, d)), bx(self.of_dim(rng, dm, d)))
            }
            2 => P::Bin("add", bx(self.scalar(rng, d)), bx(self.scalar(rng, d))),
            3 => P::Bin("mul", bx(self.scalar(rng, d)), bx(self.scalar(rng, d))),
            4 => P::If(bx(self.cond(rng, d)), bx(self.scalar(rng, d)), bx(self.scalar(rng, d))),
            _ => P::Pow(bx(self.scalar(rng, d)), *rng.pick(&[2, 3, -1, -2]), 1),
        }
    }
    fn cond(&self, rng: &mut Rng, depth: usize) -> P {
        if depth > 0 && rng.chance(1, 4) {
            let d = depth - 1;
            return match rng.below(3) {
                0 => P::Bin("and", bx(self.cond(rng, d)), bx(self.cond(rng, d))),
                1 => P::Bin("or", bx(self.cond(rng, d)), bx(self.cond(rng, d))),
                _ => P::Not(bx(self.cond(rng, d))),
            };
        }
        if rng.chance(1, 8) {
            if let Some(v) = self.var_of(rng, &MTy::Bool) { return v; }
            return P::Bool(rng.chance(1, 2));
        }
        let op = *rng.pick(&["lt", "gt", "le", "ge", "eq", "ne"]);
        let d = depth.saturating_sub(1);
        if rng.chance(1, 4) {
            P::Bin(op, bx(self.scalar(rng, d)), bx(self.scalar(rng, d)))
        } else {
            let dm = *rng.pick(&self.dims);
            P::Bin(op, bx(self.of_dim(rng, dm, d)), bx(self.of_dim(rng, dm, d)))
        }
    }
}

fn parse_p(units: &Units, names: &[String], toks: &mut std::iter::Peekable<std::vec::IntoIter<String>>) -> Option<P> {
    if toks.next()? != "(" { return None; }
    let head = toks.next()?;
    let e = match head.as_str() {
        "num" => P::Num(bits_f(&toks.next()?)),
        "unit" => {
            let f = parse_factor(&toks.next()?)?;
            let i = *units.index.get(&f.unit)?;
            let p = (f.binary, f.prefix_exp);
            let sp = units.spellings(i, p);
            P::Unit(i, p, sp.first()?.clone())
        }
        "var" => { let i: usize = toks.next()?.parse().ok()?; P::Var(i, names.get(i)?.clone()) }
        "loc" => { let i: usize = toks.next()?.parse().ok()?; P::Loc(i, format!("zp{}", i)) }
        "call" => {
            let f: usize = toks.next()?.parse().ok()?;
            // the argument chain `(arg E (arg E (noarg)))`
            let mut args = Vec::new();
            let mut closes = 0;
            loop {
                if toks.next()? != "(" { return None; }
                match toks.next()?.as_str() {
                    "noarg" => { if toks.next()? != ")" { return None; } break; }
                    "arg" => { args.push(parse_p(units, names, toks)?); closes += 1; }
                    _ => return None,
                }
            }
            for _ in 0..closes { if toks.next()? != ")" { return None; } }
            P::Call(f, format!("zf{}", f), args)
        }
        "true" => P::Bool(true),
        "false" => P::Bool(false),
        "neg" => P::Neg(bx(parse_p(units, names, toks)?)),
        "get" => { let a = parse_p(units, names, toks)?; let i: usize = toks.next()?.parse().ok()?; P::Get(bx(a), i, format!("f{}", i)) }
        "head" => P::Head(bx(parse_p(units, names, toks)?)),
        "tail" => P::Tail(bx(parse_p(units, names, toks)?)),
        "len" => P::Len(bx(parse_p(units, names, toks)?)),
        "cons" => { let a = parse_p(units, names, toks)?; let l = parse_p(units, names, toks)?; P::Cons(bx(a), bx(l)) }
        "lst" => {
            let mut es = Vec::new();
            let mut closes = 0;
            loop {
                if toks.next()? != "(" { return None; }
                match toks.next()?.as_str() {
                    "noarg" => { if toks.next()? != ")" { return None; } break; }
                    "arg" => { es.push(parse_p(units, names, toks)?); closes += 1; }
                    _ => return None,
                }
            }
            for _ in 0..closes { if toks.next()? != ")" { return None; } }
            P::Lst(es)
        }
        "not" => P::Not(bx(parse_p(units, names, toks)?)),
        "pow" => {
            let a = parse_p(units, names, toks)?;
            let r = toks.next()?;
            let (n, d) = r.split_once('/')?;
            P::Pow(bx(a), n.parse().ok()?, d.parse().ok()?)
        }
        "if" => {
            let c = parse_p(units, names, toks)?;
            let t = parse_p(units, names, toks)?;
            let e = parse_p(units, names, toks)?;
            P::If(bx(c), bx(t), bx(e))
        }
        op => {
            let a = parse_p(units, names, toks)?;
            let b = parse_p(units, names, toks)?;
            let op: &'static str = ["add", "sub", "mul", "div", "conv", "lt", "gt", "le", "ge", "eq", "ne", "and", "or"].iter().find(|o| **o == op).copied()?;
            P::Bin(op, bx(a), bx(b))
        }
    };
    if toks.next()? != ")" { return None; }
    Some(e)
}

/// locals beyond the parameters are `where` variables
fn rename_locs(e: &mut P, arity: usize) {
    match e {
        P::Loc(i, n) => *n = if *i < arity { format!("zp{}", i) } else { format!("zw{}", *i - arity) },
        P::Neg(a) | P::Pow(a, _, _) | P::Not(a) => rename_locs(a, arity),
        P::Bin(_, a, b) => { rename_locs(a, arity); rename_locs(b, arity); }
        P::If(c, t, f) => { rename_locs(c, arity); rename_locs(t, arity); rename_locs(f, arity); }
        P::Call(_, _, args) | P::Lst(args) => { for a in args { rename_locs(a, arity); } }
        P::Head(a) | P::Tail(a) | P::Len(a) | P::Get(a, _, _) => rename_locs(a, arity),
        P::Cons(a, l) => { rename_locs(a, arity); rename_locs(l, arity); }
        P::Mk(_, fs) => { for (_, e) in fs { rename_locs(e, arity); } }
        _ => {}
    }
}

/// `mprog (let E) (fn N E) …` back into a program (replay / corpus); globals are named g0, g1, …, functions zf0, …
fn parse_mprog(units: &Units, line: &str) -> Option<Vec<D>> {
    let body = line.strip_prefix("mprog ")?;
    let body = body.split(" ## ").next()?;
    let spaced = body.replace('(', " ( ").replace(')', " ) ");
    let toks: Vec<String> = spaced.split_whitespace().map(|s| s.to_string()).collect();
    let mut it = toks.into_iter().peekable();
    let mut prog = Vec::new();
    let mut names: Vec<String> = Vec::new();
    let mut nf = 0;
    while it.peek().is_some() {
        if it.next()? != "(" { return None; }
        match it.next()?.as_str() {
            "let" => {
                let e = parse_p(units, &names, &mut it)?;
                let n = format!("g{}", names.len());
                names.push(n.clone());
                prog.push(D::Let(n, e));
            }
            "fn" => {
                let k: usize = it.next()?.parse().ok()?;
                let mut wheres: Vec<(String, P)> = Vec::new();
                // optional `(wheres E…)`
                let mut look = it.clone();
                if look.next().as_deref() == Some("(") && look.next().as_deref() == Some("wheres") {
                    it.next();
                    it.next();
                    while it.peek().map(|t| t.as_str()) != Some(")") {
                        let mut w = parse_p(units, &names, &mut it)?;
                        rename_locs(&mut w, k);
                        wheres.push((format!("zw{}", wheres.len()), w));
                    }
                    it.next();
                }
                let mut e = parse_p(units, &names, &mut it)?;
                rename_locs(&mut e, k);
                prog.push(D::Fn(format!("zf{}", nf), (0..k).map(|i| format!("zp{}", i)).collect(), wheres, e));
                nf += 1;
            }
            _ => return None,
        }
        if it.next()? != ")" { return None; }
    }
    Some(prog)
}

/// Does evaluating `e` (in the session `c`, parameters replaced by the globals `subst`) produce a NaN or an
/// infinity in some sub-expression?  Every sub-expression is given to the interpreter on its own; a
/// conditional is followed into the branch taken, a call into the body with the arguments bound to fresh
/// globals.  Used only to classify a run-time failure (known finding C01-zero-nonfinite).
fn probe_nonfinite(c: &numbat::Context, e: &P, subst: &[String], fns: &[(Vec<String>, Vec<P>, P)], budget: &mut usize) -> bool {
    if *budget == 0 { return false; }
    *budget -= 1;
    let eval_q = |c: &numbat::Context, src: &str| -> Option<f64> {
        let mut c2 = c.clone();
        let r = catch(std::panic::AssertUnwindSafe(|| c2.interpret(&format!("let zq_probe = {}", src), CodeSource::Internal).map(|_| ())));
        match r { Ok(Ok(())) => c2.verif_raw_global_quantity("zq_probe").map(|q| f64::from_bits(q.bits)), _ => None }
    };
    let children: Vec<&P> = match e {
        P::Neg(a) | P::Pow(a, _, _) | P::Not(a) => vec![a],
        P::Bin(_, a, b) => vec![a, b],
        P::If(c0, t, f) => {
            let taken = eval_q(c, &format!("if {} then 1 else 0", c0.src_with(subst)));
            match taken { Some(v) if v == 1.0 => vec![c0, t], Some(_) => vec![c0, f], None => vec![c0] }
        }
        P::Call(_, _, args) | P::Lst(args) => args.iter().collect(),
        P::Head(a) | P::Tail(a) | P::Len(a) | P::Get(a, _, _) => vec![a],
        P::Cons(a, l) => vec![a, l],
        P::Mk(_, fs) => fs.iter().map(|(_, e)| e).collect(),
        _ => vec![],
    };
    for ch in children {
        if probe_nonfinite(c, ch, subst, fns, budget) { return true; }
    }
    if let P::Call(f, _, args) = e {
        if let Some((_, wheres, body)) = fns.get(*f) {
            let mut c2 = c.clone();
            let mut names = Vec::new();
            for (i, a) in args.iter().enumerate() {
                let n = format!("zq_arg_{}_{}", *budget, i);
                let r = catch(std::panic::AssertUnwindSafe(|| c2.interpret(&format!("let {} = {}", n, a.src_with(subst)), CodeSource::Internal).map(|_| ())));
                if !matches!(r, Ok(Ok(()))) { return false; }
                names.push(n);
            }
            // the `where` clauses become further locals, bound to fresh globals as well
            for (i, w) in wheres.iter().enumerate() {
                if probe_nonfinite(&c2, w, &names, fns, budget) { return true; }
                let n = format!("zq_w_{}_{}", *budget, i);
                let r = catch(std::panic::AssertUnwindSafe(|| c2.interpret(&format!("let {} = {}", n, w.src_with(&names)), CodeSource::Internal).map(|_| ())));
                if !matches!(r, Ok(Ok(()))) { return false; }
                names.push(n);
            }
            if probe_nonfinite(&c2, body, &names, fns, budget) { return true; }
        }
    }
    match eval_q(c, &e.src_with(subst)) { Some(v) => !v.is_finite(), None => false }
}

/// NaN canonicalisation of every `q <bits>` inside a list text
fn canon_nan_all(s: &str) -> String {
    let mut out_s = String::new();
    let mut rest = s;
    while let Some(p) = rest.find("q ") {
        out_s.push_str(&rest[..p + 2]);
        let after = &rest[p + 2..];
        let hex: String = after.chars().take(16).collect();
        if hex.len() == 16 && hex.chars().all(|c| c.is_ascii_hexdigit()) {
            let v = f64::from_bits(u64::from_str_radix(&hex, 16).unwrap_or(0));
            out_s.push_str(&if v.is_nan() { "7ff8000000000000".to_string() } else { hex.clone() });
            rest = &after[16..];
        } else {
            rest = after;
        }
    }
    out_s.push_str(rest);
    out_s
}

/// one program through the interpreter, definition by definition; the answer line of the implementation
fn run_mprog(ctx: &numbat::Context, units: &Units, out: &mut Out, prog: &[D]) {
    let req = format!("mprog {}", prog.iter().map(|d| match d {
        D::Let(_, e) => format!("(let {})", e.sexpr(units)),
        D::Struct(_) => "(struct)".to_string(),
        D::Fn(_, ps, ws, e) if ws.is_empty() => format!("(fn {} {})", ps.len(), e.sexpr(units)),
        D::Fn(_, ps, ws, e) => format!("(fn {} (wheres {}) {})", ps.len(), ws.iter().map(|(_, w)| w.sexpr(units)).collect::<Vec<_>>().join(" "), e.sexpr(units)),
    }).collect::<Vec<_>>().join(" "));
    let mut c = ctx.clone();
    let mut answers: Vec<String> = Vec::new();
    let mut stmts: Vec<String> = Vec::new();
    for d in prog {
        let (name, code) = match d {
            D::Let(name, e) => (Some(name), format!("let {} = {}", name, e.src())),
            D::Struct(src) => (None, src.clone()),
            D::Fn(name, ps, ws, e) => (None, format!("fn {}({}) = {}{}", name, ps.join(", "), e.src(),
                if ws.is_empty() { String::new() } else { format!(" where {}", ws.iter().map(|(n, w)| format!("{} = {}", n, w.src())).collect::<Vec<_>>().join(" and ")) })),
        };
        stmts.push(code.clone());
        let res = catch(std::panic::AssertUnwindSafe(|| c.interpret(&code, CodeSource::Internal).map(|_| ())));
        match res {
            Err(p) => { answers.push(format!("panic {}", p)); break; }
            Ok(Ok(())) => match name {
                None => answers.push(if matches!(d, D::Struct(_)) { "struct" } else { "fn" }.into()),
                Some(name) => match c.verif_raw_global_quantity(name) {
                    // (the conversion target kept for display, `… -> q …`, is not part of the model's quantity)
                    Some(q) => answers.push(canon_nan(show_quantity(&q).split(" -> ").next().unwrap_or(""))),
                    None => {
                        let raw = c.verif_raw_global_value(name).unwrap_or_default();
                        if raw.starts_with("List<") || raw.starts_with("Struct{") {
                            // drop the display targets of the elements: ` -> q … ` up to the closing parenthesis
                            let mut out_s = String::new();
                            let mut rest = raw.as_str();
                            while let Some(p) = rest.find(" -> ") {
                                out_s.push_str(&rest[..p]);
                                let after = &rest[p..];
                                let end = after.find(')').unwrap_or(after.len());
                                rest = &after[end..];
                            }
                            out_s.push_str(rest);
                            // field names are not part of the model's struct values: `Struct{a=v;b=w}` -> `Struct{v;w}`
                            let mut no_names = String::new();
                            let cs: Vec<char> = out_s.chars().collect();
                            let mut i = 0;
                            while i < cs.len() {
                                if (cs[i] == '{' || cs[i] == ';') && i + 1 < cs.len() && (cs[i + 1].is_alphabetic() || cs[i + 1] == '_') {
                                    // `{name=` or `;name=`
                                    let mut j = i + 1;
                                    while j < cs.len() && (cs[j].is_alphanumeric() || cs[j] == '_') { j += 1; }
                                    if j < cs.len() && cs[j] == '=' {
                                        no_names.push(cs[i]);
                                        i = j + 1;
                                        continue;
                                    }
                                }
                                no_names.push(cs[i]);
                                i += 1;
                            }
                            answers.push(canon_nan_all(&no_names));
                        } else {
                            answers.push("bool".into());
                        }
                    }
                },
            },
            Ok(Err(err)) => {
                match *err {
                    NumbatError::RuntimeError(ref r) => {
                        let t = format!("{}", r);
                        answers.push(if matches!(r.kind, RuntimeErrorKind::EmptyList) { "err emptylist".into() }
                            else if t.contains("Division by zero") { "err divzero".into() }
                            else if t.contains("can not be converted") { "err incompatible".into() }
                            else if t.contains("Non-rational") { "err nonrational".into() }
                            else { format!("err runtime {}", t).replace('\n', " ") });
                    }
                    _ => {
                        // the generator produced something the checker rejects: not a case
                        out.count("mprog_generator_rejected");
                        return;
                    }
                }
                break;
            }
        }
    }
    out.line(&req, &answers.join(" ; "));
    out.count("mprog_programs");
    let last = answers.last().cloned().unwrap_or_default();
    out.count(&format!("mprog_outcome:{}", if last.starts_with("err") || last.starts_with("panic") { last.split(' ').take(2).collect::<Vec<_>>().join("_") } else { "ok".to_string() }));
    for d in prog {
        match d {
            D::Let(_, e) => e.count_nodes(out),
            D::Struct(_) => out.count("mprog_struct_definitions"),
            D::Fn(_, _, ws, e) => { e.count_nodes(out); for (_, w) in ws { w.count_nodes(out); } out.count_n("mprog_where_clauses", ws.len() as u64); }
        }
    }
    out.count_n("mprog_functions", prog.iter().filter(|d| matches!(d, D::Fn(..))).count() as u64);
    let checked: Vec<String> = prog.iter().filter_map(|d| if let D::Let(n, _) = d { Some(n.clone()) } else { None }).collect();
    let mut tags = vec!["mprog".to_string()];
    // a global whose raw value is a NaN or an infinity
    let nonfinite_global = answers.iter().any(|a| {
        // every `q <16 hex digits>` of the answer (also inside a list)
        a.match_indices("q ").any(|(i, _)| {
            let h: String = a[i + 2..].chars().take(16).collect();
            h.len() == 16 && u64::from_str_radix(&h, 16).map(|b| !f64::from_bits(b).is_finite()).unwrap_or(false)
        })
    });
    if last == "err incompatible" || nonfinite_global {
        // classification of the failure: does the program rely on a polymorphic zero (with every `0.0` replaced by
        // `1.0` the checker rejects it) that met a NaN/infinity at run time (some sub-expression of the failing
        // definition evaluates to a non-finite value)?
        let relies_on_zero = {
            let mut c2 = ctx.clone();
            let code = stmts.join("\n").replace("0.0", "1.0");
            matches!(catch(std::panic::AssertUnwindSafe(|| c2.interpret(&code, CodeSource::Internal).map(|_| ()))), Ok(Err(e)) if matches!(*e, NumbatError::TypeCheckError(_)))
        };
        if relies_on_zero && nonfinite_global && last != "err incompatible" {
            // the zero met the NaN/infinity inside a definition that did not fail: its value is non-finite
            tags.push("zero-nonfinite".to_string());
        } else if relies_on_zero {
            let k = answers.len() - 1;
            let mut c2 = ctx.clone();
            let mut fns: Vec<(Vec<String>, Vec<P>, P)> = Vec::new();
            for (d, code) in prog.iter().zip(stmts.iter()).take(k) {
                let _ = catch(std::panic::AssertUnwindSafe(|| c2.interpret(code, CodeSource::Internal).map(|_| ())));
                if let D::Fn(_, ps, ws, b) = d {
                    fns.push((ps.clone(), ws.iter().map(|(_, w)| w.clone()).collect(), b.clone()));
                }
            }
            if let Some(D::Let(_, e)) = prog.get(k) {
                let mut budget = 400;
                if probe_nonfinite(&c2, e, &[], &fns, &mut budget) { tags.push("zero-nonfinite".to_string()); }
            }
        }
    }
    judge(ctx, units, out, &stmts, &checked, &tags);
}

fn main() {
    let args = Args::parse();
    let mut out = Out::new(&args);
    out.rule = "stream `mprog`: programs of 2-8 let/fn definitions in the fragment of program_soundness (expressions over numbers, units in any spelling, earlier globals, parameters, + - * / neg, constant powers, conversions to unit expressions — one target in forty is the literal 0 —, comparisons, && || !, conditionals, calls of 1-3-parameter user functions — one in three recursive over a small counter, half of the others with 1-2 `where` clauses; lists of scalars and of quantities with literals, head, tail, cons, len, recursion down a list; structs of 1-3 fields with literals in permuted field order and field access), run definition by definition, raw value of every new global compared bit for bit with the Lean model, and judged by the same oracle as: multi-statement programs (3-10 statements) generated type-directed over the prelude: let-bindings of expression trees (units in any alias/prefix spelling, + - * / neg, conversions, conditionals with comparisons incl. a polymorphic zero on either side, references to earlier globals, calls), powers with compile-time evaluated exponents (integer, fractional, composite arithmetic) followed by an addition at the statically computed exponent, inferred and annotated generic functions, where-clauses, generic structs with field access, lists with head/sum/maximum/mean/map/element_at, dimension and derived-unit definitions with annotated lets; plus the corpus (known-defect shapes). distinct = program text; non-trivial = at least two statements and accepted by the checker".into();
    let ctx = prelude_ctx();
    let units = Units::load(&ctx);
    units.emit(&mut out);
    // one base unit per base dimension (the typing relation of the model identifies the two)
    {
        let ut: BTreeMap<String, String> = ctx.verif_unit_types().into_iter().collect();
        let mut seen = BTreeMap::new();
        let mut ok = true;
        for r in units.rows.iter().filter(|r| r.is_base) {
            let t = ut.get(&r.name).cloned().unwrap_or_default();
            let single = parse_dim(&t).map(|d| d.len() == 1 && d.values().all(|v| *v == (1, 1))).unwrap_or(false);
            if !single || seen.insert(t.clone(), r.name.clone()).is_some() { ok = false; }
        }
        out.extra.insert("one_base_unit_per_base_dimension".into(), ok.to_string());
        if !ok {
            out.oracle_fail("c01:base-units", "prelude", "two base units share a base dimension (or a base unit has a compound type): same-dimension conversions can fail");
        }
    }
    let run_line = |l: &str, out: &mut Out| {
        if l.starts_with("mprog ") {
            if let Some(prog) = parse_mprog(&units, l) {
                run_mprog(&ctx, &units, out, &prog);
            }
        }
        if let Some(rest) = l.strip_prefix("prog ") {
            let stmts: Vec<String> = rest.split(" ;; ").map(|s| s.to_string()).collect();
            let checked: Vec<String> = stmts.iter().filter_map(|s| s.strip_prefix("let ").map(|r| r.split(|c| c == ':' || c == ' ' || c == '=').next().unwrap_or("").to_string())).collect();
            judge(&ctx, &units, out, &stmts, &checked, &["corpus".to_string()]);
        }
    };
    if let Some(p) = &args.replay {
        for l in read_lines(p) { run_line(&l, &mut out); }
        out.extra.retain(|k, _| !k.starts_with("seen:"));
        out.finish();
        return;
    }
    if let Some(dir) = args.extra.get("corpus") {
        let mut files: Vec<_> = std::fs::read_dir(dir).map(|d| d.filter_map(|e| e.ok()).map(|e| e.path()).collect()).unwrap_or_default();
        files.sort();
        for f in files { for l in read_lines(&f) { run_line(&l, &mut out); } }
    }
    let mut rng = Rng::new(args.seed);
    let dims: Vec<&String> = units.by_dim.keys().collect();
    let n = args.count(500, 20000);
    for _ in 0..n {
        let mut g = Gen { units: &units, dims: dims.clone(), vars: vec![], unary_fns: vec![], lists: vec![], stmts: vec![], checked: vec![], tags: vec![], n: 0 };
        let k = 3 + rng.below(8);
        for _ in 0..k { g.statement(&mut rng); }
        let (stmts, checked, mut tags) = (g.stmts, g.checked, g.tags);
        tags.sort();
        tags.dedup();
        judge(&ctx, &units, &mut out, &stmts, &checked, &tags);
    }
    // model stream: programs in the fragment of `program_soundness`
    // a type annotation for every dimension class (struct fields and struct-typed parameters need one)
    let dim_ann: BTreeMap<String, String> = {
        let ut: BTreeMap<String, String> = ctx.verif_unit_types().into_iter().collect();
        let mut m = BTreeMap::new();
        for (class, rows) in &units.by_dim {
            if let Some(d) = rows.first().and_then(|i| ut.get(&units.rows[*i].name)).and_then(|t| parse_dim(t)) {
                let parts: Vec<String> = d.iter().map(|(n, (a, b))| if *b == 1 { if *a == 1 { n.clone() } else { format!("{}^({})", n, a) } } else { format!("{}^({}/{})", n, a, b) }).collect();
                m.insert(class.clone(), if parts.is_empty() { "Scalar".to_string() } else { parts.join(" * ") });
            }
        }
        m
    };
    fn ann(t: &MTy, dim_ann: &BTreeMap<String, String>, structs: &[(String, Vec<(String, MTy)>)]) -> String {
        match t {
            MTy::Dim(c) => dim_ann.get(c).cloned().unwrap_or_else(|| "Scalar".into()),
            MTy::Scalar => "Scalar".into(),
            MTy::Bool => "Bool".into(),
            MTy::List(el) => format!("List<{}>", ann(el, dim_ann, structs)),
            MTy::Struct(k) => structs[*k].0.clone(),
        }
    }
    let nm = args.count(400, 20000);
    for k in 0..nm {
        let mut g = MGen { units: &units, dims: dims.clone(), vars: vec![], locals: vec![], fns: vec![], structs: vec![] };
        let len = 2 + rng.below(6);
        let mut prog: Vec<D> = Vec::new();
        for j in 0..len {
            let depth = 1 + (k + j) % 4;
            // the type of the definition: half of them reuse the dimension of an earlier global
            let pick_ty = |g: &MGen, rng: &mut Rng| -> MTy {
                match rng.below(10) {
                    9 if !g.structs.is_empty() => MTy::Struct(rng.below(g.structs.len())),
                    9 => MTy::Scalar,
                    0 => MTy::Bool,
                    1 | 2 => MTy::Scalar,
                    8 => {
                        // a list of scalars or of quantities of one dimension
                        let earlier: Vec<String> = g.vars.iter().filter_map(|(_, t)| match t { MTy::Dim(d) => Some(d.clone()), MTy::List(el) => if let MTy::Dim(d) = &**el { Some(d.clone()) } else { None }, _ => None }).collect();
                        let el = if rng.chance(1, 3) { MTy::Scalar } else if !earlier.is_empty() && rng.chance(1, 2) { MTy::Dim(rng.pick(&earlier).clone()) } else { MTy::Dim((*rng.pick(&g.dims)).clone()) };
                        MTy::List(Box::new(el))
                    }
                    _ => {
                        let earlier: Vec<String> = g.vars.iter().filter_map(|(_, t)| if let MTy::Dim(d) = t { Some(d.clone()) } else { None }).collect();
                        if !earlier.is_empty() && rng.chance(1, 2) { MTy::Dim(rng.pick(&earlier).clone()) } else { MTy::Dim((*rng.pick(&g.dims)).clone()) }
                    }
                }
            };
            if g.structs.len() < 2 && rng.chance(1, 8) {
                // a struct of 1-3 fields (quantities, scalars, booleans, lists of them)
                let sname = format!("ZS{}", g.structs.len());
                let nf = 1 + rng.below(3);
                let mut fields: Vec<(String, MTy)> = Vec::new();
                for fi in 0..nf {
                    let ft = loop { let t = pick_ty(&g, &mut rng); if !matches!(t, MTy::Struct(_)) { break t; } };
                    fields.push((format!("zf_{}", ["a", "b", "c"][fi]), ft));
                }
                let src = format!("struct {} {{ {} }}", sname, fields.iter().map(|(f, t)| format!("{}: {}", f, ann(t, &dim_ann, &g.structs))).collect::<Vec<_>>().join(", "));
                g.structs.push((sname, fields));
                prog.push(D::Struct(src));
            } else if rng.chance(1, 4) {
                // a function of 1-3 parameters; one in three is recursive over a scalar counter
                let f = g.fns.len();
                let name = format!("zf{}", f);
                let ret = pick_ty(&g, &mut rng);
                let recursive = rng.chance(1, 3);
                let np = 1 + rng.below(3);
                let mut ptys: Vec<MTy> = (0..np).map(|_| if rng.chance(1, 2) { ret.clone() } else { pick_ty(&g, &mut rng) }).collect();
                // a recursive function runs over a scalar counter or down a list
                let over_list = recursive && rng.chance(1, 2);
                if recursive {
                    ptys[0] = if over_list {
                        MTy::List(Box::new(if let MTy::List(el) = &ret { (**el).clone() } else if ret == MTy::Bool || matches!(ret, MTy::Struct(_)) { MTy::Scalar } else { ret.clone() }))
                    } else {
                        MTy::Scalar
                    };
                }
                let pnames: Vec<String> = (0..np).map(|i| format!("zp{}", i)).collect();
                g.locals = pnames.iter().cloned().zip(ptys.iter().cloned()).collect();
                // (the source text of a struct-typed parameter carries its type: field access needs it)
                let pnames: Vec<String> = pnames.iter().zip(ptys.iter()).map(|(n, t)| if let MTy::Struct(k) = t { format!("{}: {}", n, g.structs[*k].0) } else { n.clone() }).collect();
                // 0-2 `where` clauses over the parameters (and the earlier clauses); they are further locals of the body
                let mut wheres: Vec<(String, P)> = Vec::new();
                if !recursive && rng.chance(1, 2) {
                    for wi in 0..(1 + rng.below(2)) {
                        let wt = if rng.chance(1, 2) { ret.clone() } else { pick_ty(&g, &mut rng) };
                        let we = g.of_ty(&mut rng, &wt, depth.min(2));
                        let wn = format!("zw{}", wi);
                        g.locals.push((wn.clone(), wt));
                        wheres.push((wn, we));
                    }
                }
                let body = if recursive {
                    // if zp0 <= 0 then <base> else zfK(zp0 - 1, <args>)
                    let base = g.of_ty(&mut rng, &ret, depth.min(2));
                    let mut cargs = vec![if over_list { P::Tail(bx(P::Loc(0, "zp0".into()))) } else { P::Bin("sub", bx(P::Loc(0, "zp0".into())), bx(P::Num(1.0))) }];
                    for t in ptys.iter().skip(1) { cargs.push(g.of_ty(&mut rng, t, 1)); }
                    let step = P::Call(f, name.clone(), cargs);
                    let head_elem = P::Head(bx(P::Loc(0, "zp0".into())));
                    let wrapped = match &ret {
                        MTy::Bool => P::Not(bx(step)),
                        MTy::Scalar => if over_list { P::Bin("add", bx(step), bx(head_elem)) } else { P::Bin("add", bx(step), bx(P::Num(1.0))) },
                        MTy::Dim(_) => if over_list { P::Bin("add", bx(head_elem), bx(step)) } else { P::Bin("add", bx(step), bx(base.clone())) },
                        MTy::List(el) => P::Cons(bx(if over_list { head_elem } else { g.of_ty(&mut rng, el, 1) }), bx(step)),
                        MTy::Struct(_) => step,
                    };
                    let stop = if over_list { P::Bin("eq", bx(P::Len(bx(P::Loc(0, "zp0".into())))), bx(P::Num(0.0))) } else { P::Bin("le", bx(P::Loc(0, "zp0".into())), bx(P::Num(0.0))) };
                    P::If(bx(stop), bx(base), bx(wrapped))
                } else {
                    g.of_ty(&mut rng, &ret, depth)
                };
                g.locals = vec![];
                g.fns.push((name.clone(), ptys, ret));
                prog.push(D::Fn(name, pnames, wheres, body));
                if recursive {
                    // a recursive function is called with a small counter only (so that every run terminates)
                    let (_, ptys, ret) = g.fns[f].clone();
                    // calls generated from now on could pass an arbitrary scalar as the counter: take the function
                    // out of the pool
                    g.fns[f].2 = MTy::Dim("<never>".into());
                    let mut cargs = vec![if let MTy::List(el) = &ptys[0] { let n = rng.below(4); P::Lst((0..n).map(|_| g.of_ty(&mut rng, el, 1)).collect()) } else { P::Num(rng.below(4) as f64) }];
                    for t in ptys.iter().skip(1) { cargs.push(g.of_ty(&mut rng, t, 1)); }
                    let gname = format!("g{}", g.vars.len());
                    g.vars.push((gname.clone(), ret));
                    prog.push(D::Let(gname, P::Call(f, format!("zf{}", f), cargs)));
                }
            } else {
                let t = pick_ty(&g, &mut rng);
                let e = g.of_ty(&mut rng, &t, depth);
                let name = format!("g{}", g.vars.len());
                g.vars.push((name.clone(), t));
                prog.push(D::Let(name, e));
            }
        }
        run_mprog(&ctx, &units, &mut out, &prog);
    }
    out.extra.retain(|k, _| !k.starts_with("seen:"));
    out.finish();
}
