//! C23 — standard-library inverse conversions round-trip.
//!
//! Modes
//!   --dump-ast        print the S-expressions of the items translated by tools/gen_nbt_functions.py
//!   (default)         generate cases, run the real interpreter, write requests / answers / oracle failures
//!
//! Case kinds (replay / corpus line = the text after the kind, see `Case::text`):
//!   temp c2k|k2c|f2k|k2f <literal>      temperature scales (numbat code; model at Float, bit-exact)
//!   unix <t_ns> <variant>               Unix time <-> DateTime (variant 0..3 = unix_s quantity, _s, _ms, _µs)
//!   unixn <integer µs>                  unixtime_µs(from_unixtime_µs(n)) = n
//!   julian <t_ns>                       Julian date <-> DateTime
//!   julian-days <literal>               julian_date(from_julian_date(x days)) = x days
//!   fn <pair index> <dir 0|1> <literal> trigonometric / hyperbolic / exponential / logarithmic inverses (libm; no model)
//!   mixed <value literal> <value unit> <unit,unit,...>   unit_list: parts add up, all but the last are whole
//!
//! Oracle (on the implementation, independent of the Lean model), with explicit tolerances (eps = 2^-52):
//!   temp    |g(f(x)) - x| <= 8 eps (|x| + 460)              (offsets 273.15 / 459.67 are added and removed)
//!   unix    |from_unixtime(unixtime(t)) - t| < 1 µs (+ 2 ulp of the µs count beyond 2^53 µs), and the result is
//!           t truncated toward zero; _ms/_s variants: < 1 ms / 1 s (+ the same slop); unixn: exact for |n| < 2^53
//!   julian  |Δ| <= 2 ulp(jd in seconds) + 1 ns   (the Julian date is an f64 number of seconds, ~2e11 s today)
//!   fn      |g(f(x)) - x| <= 1e-9 max(1, |x|) on the stated domain (margins keep the conditioning below 1e6)
//!   mixed   parts non-empty, |Σ parts - value| <= 8 n eps |value| (base units), every part but the last has an
//!           integer value in its own unit
//!
//! Model requests (driver `drv_c23`):
//!   fc|tc|ff|tf <bits>             Gen/NbtFunctions at Float with kelvin := 1.0          -> ok <bits>
//!   unixus <ns>                    `_unixtime_µs`                                         -> ok <bits>
//!   fromunixus <bits> <zone>       `_from_unixtime_µs`                                    -> ok <ns> <zone> | err dt
//!   diff <a_ns> <b_ns>             julian_date = dt - epoch                               -> ok <bits>
//!   add <t_ns> <zone> <bits>       from_julian_date = epoch + jd                          -> ok <ns> <zone> | err ..
//!   mixed <V m e m e> <u m e>...   Gen `_mixed_unit_list` at Rat (exact)                  -> ok <k1> <k2> ... (whole counts)
//!           emitted only when no exact quotient is within 1e-6 (relative) of an integer, so that f64 noise in the
//!           implementation cannot move a truncation across an integer.

use numbat::module_importer::BuiltinModuleImporter;
use numbat::resolver::CodeSource;
use numbat::value::Value;
use numbat::verif::{c19 as hook19, c23 as hook23};
use numbat::{Context, InterpreterResult, InterpreterSettings, NumbatError, RuntimeErrorKind};
use nvh::*;
use std::collections::BTreeMap;

pub const ITEMS: &[(&str, &[&str])] = &[
    (
        "physics::temperature_conversion",
        &["_offset_celsius", "from_celsius", "°C", "celsius", "_offset_fahrenheit", "_scale_fahrenheit", "from_fahrenheit", "°F", "fahrenheit"],
    ),
    ("core::functions", &["trunc_in"]),
    ("core::mixed_units", &["_zero_length", "_mixed_unit_list"]),
];

const NS: i128 = 1_000_000_000;
const EPS: f64 = 2.220446049250313e-16;

/// (forward, inverse, domain lo, hi of x for inverse(forward(x)) = x, domain of y for forward(inverse(y)) = y)
const PAIRS: &[(&str, &str, f64, f64, f64, f64)] = &[
    ("sin", "asin", -1.5697, 1.5697, -0.999999, 0.999999),
    ("cos", "acos", 0.001, 3.1405, -0.999999, 0.999999),
    ("tan", "atan", -1.5697, 1.5697, -1.0e6, 1.0e6),
    ("sinh", "asinh", -700.0, 700.0, -1.0e300, 1.0e300),
    ("cosh", "acosh", 0.001, 700.0, 1.000001, 1.0e300),
    ("tanh", "atanh", -7.0, 7.0, -0.999999, 0.999999),
    ("exp", "ln", -700.0, 700.0, 1.0e-300, 1.0e300),
    ("exp", "log", -700.0, 700.0, 1.0e-300, 1.0e300),
    // math::trigonometry_extra (defined in numbat itself); judged with a relative tolerance (N_CORE_PAIRS..)
    ("cot", "acot", -1.5697, 1.5697, -1.0e9, 1.0e9),
    ("coth", "acoth", -5.0, 5.0, 1.000001, 1.0e9),
    ("coth", "acoth", -5.0, 5.0, -1.0e9, -1.000001),
    ("secant", "arcsecant", 0.01, 3.13, 1.000001, 1.0e4),
    ("csc", "acsc", -1.5697, 1.5697, 1.000001, 1.0e9),
    ("sech", "asech", 0.01, 5.0, 1.0e-9, 0.999999),
    ("csch", "acsch", -5.0, 5.0, -1.0e9, 1.0e9),
];
const N_CORE_PAIRS: usize = 8;

// ---------------------------------------------------------------- evaluation

#[derive(Clone, Debug, PartialEq)]
enum R {
    Dt(i128, String),
    Q(u64, u64),
    L(Vec<(u64, u64, String)>),
    S(String),
    Err(String),
    Other,
}

impl R {
    fn wire(&self) -> String {
        match self {
            R::Dt(ns, z) => format!("ok {} {}", ns, z),
            R::Q(b, _) => format!("ok {:016x}", b),
            R::L(l) => format!("ok list {}", l.len()),
            R::S(s) => format!("ok {:?}", s),
            R::Err(e) => format!("err {}", e),
            R::Other => "other".into(),
        }
    }
    fn base(&self) -> Option<f64> {
        if let R::Q(b, _) = self {
            Some(f64::from_bits(*b))
        } else {
            None
        }
    }
}

struct Impl {
    base: Context,
    ctx: Context,
}

impl Impl {
    fn new() -> Impl {
        let mut ctx = Context::new(BuiltinModuleImporter::default());
        ctx.load_currency_module_on_demand(false);
        let _ = ctx.interpret("use prelude", CodeSource::Internal).expect("prelude");
        Impl { base: ctx.clone(), ctx }
    }
    fn reset(&mut self) {
        self.ctx = self.base.clone();
    }
    fn eval(&mut self, code: &str) -> R {
        let ctx = &mut self.ctx;
        let r = catch(std::panic::AssertUnwindSafe(|| {
            let mut settings = InterpreterSettings {
                print_fn: Box::new(|_| {}),
            };
            match ctx.interpret_with_settings(&mut settings, code, CodeSource::Internal) {
                Ok((_s, InterpreterResult::Value(v))) => {
                    if let Some((ns, z)) = hook19::datetime_parts(&v) {
                        R::Dt(ns, z)
                    } else if let Some((b, p)) = hook19::quantity_bits(&v) {
                        R::Q(b, p)
                    } else if let Some(l) = hook23::list_quantities(&v) {
                        R::L(l)
                    } else if let Value::String(s) = &v {
                        R::S(s.to_string())
                    } else {
                        R::Other
                    }
                }
                Ok((_s, InterpreterResult::Continue)) => R::Other,
                Err(e) => R::Err(match &*e {
                    NumbatError::RuntimeError(re) => match &re.kind {
                        RuntimeErrorKind::DurationOutOfRange => "dur".into(),
                        RuntimeErrorKind::DateTimeOutOfRange => "dt".into(),
                        other => format!("runtime:{}", other.to_string().chars().take(70).collect::<String>()),
                    },
                    NumbatError::TypeCheckError(t) => format!("typecheck:{}", t.to_string().chars().take(70).collect::<String>()),
                    other => format!("other:{}", other.to_string().chars().take(70).collect::<String>()),
                }),
            }
        }));
        match r {
            Ok(x) => x,
            Err(p) => R::Err(format!("panic:{}", p)),
        }
    }
}

// ---------------------------------------------------------------- civil time

fn civil_from_days(z: i64) -> (i64, u32, u32) {
    let z = z + 719468;
    let era = if z >= 0 { z } else { z - 146096 } / 146097;
    let doe = (z - era * 146097) as u64;
    let yoe = (doe - doe / 1460 + doe / 36524 - doe / 146096) / 365;
    let y = yoe as i64 + era * 400;
    let doy = doe - (365 * yoe + yoe / 4 - yoe / 100);
    let mp = (5 * doy + 2) / 153;
    let d = (doy - (153 * mp + 2) / 5 + 1) as u32;
    let m = if mp < 10 { mp + 3 } else { mp - 9 } as u32;
    (if m <= 2 { y + 1 } else { y }, m, d)
}

fn rfc3339(t: i128) -> String {
    let secs = t.div_euclid(NS) as i64;
    let sub = t.rem_euclid(NS) as i64;
    let days = secs.div_euclid(86400);
    let sod = secs.rem_euclid(86400);
    let (y, m, d) = civil_from_days(days);
    let ys = if y < 0 { format!("-{:04}", -y) } else { format!("{:04}", y) };
    format!("{}-{:02}-{:02}T{:02}:{:02}:{:02}.{:09}Z", ys, m, d, sod / 3600, (sod / 60) % 60, sod % 60, sub)
}

// ---------------------------------------------------------------- numbers

fn fmt_lit(rng: &mut Rng, x: f64) -> String {
    // a numbat literal (sign handled by the caller through parentheses)
    if x == 0.0 || !x.is_finite() {
        return "0".into();
    }
    let digits = rng.range(1, 17) as usize;
    let s = format!("{:.*e}", digits - 1, x);
    if let Ok(v) = s.parse::<f64>() {
        let plain = format!("{}", v);
        if plain.len() <= 22 && !plain.contains('e') && rng.chance(2, 3) {
            return plain;
        }
    }
    s
}

fn paren(s: &str) -> String {
    if s.starts_with('-') {
        format!("({})", s)
    } else {
        s.to_string()
    }
}

/// exact decomposition x = m * 2^e (m odd or 0)
fn dyadic(x: f64) -> (i128, i32) {
    if x == 0.0 {
        return (0, 0);
    }
    let bits = x.to_bits();
    let sign = if bits >> 63 == 1 { -1i128 } else { 1 };
    let exp = ((bits >> 52) & 0x7ff) as i32;
    let frac = (bits & ((1u64 << 52) - 1)) as i128;
    let (mut m, mut e) = if exp == 0 { (frac, -1074) } else { (frac | (1i128 << 52), exp - 1075) };
    while m % 2 == 0 {
        m /= 2;
        e += 1;
    }
    (sign * m, e)
}

// ---------------------------------------------------------------- environment

struct Env {
    tmin: i128,
    tmax: i128,
    local_zone: String,
    julian_epoch: i128,
    /// dimension key -> [(unit name, size of one unit in base units)]
    groups: Vec<(String, Vec<(String, f64)>)>,
}

fn discover_groups(imp: &mut Impl) -> Vec<(String, Vec<(String, f64)>)> {
    let mut by_dim: BTreeMap<String, Vec<(String, f64)>> = BTreeMap::new();
    let reps: Vec<(String, String)> = imp
        .ctx
        .unit_representations()
        .map(|(name, (br, _meta))| (name.to_string(), br.to_string()))
        .collect();
    for (name, dim) in reps {
        if dim == "Scalar" || !name.chars().all(|c| c.is_ascii_alphanumeric() || c == '_') {
            continue;
        }
        if let R::Q(b, p) = imp.eval(&format!("1 {}", name)) {
            let f = f64::from_bits(b);
            // the value in the unit itself must be exactly 1 and the size positive and moderate
            if f64::from_bits(p) == 1.0 && f.is_finite() && f > 1e-30 && f < 1e30 {
                by_dim.entry(dim).or_default().push((name, f));
            }
        }
    }
    let mut out: Vec<(String, Vec<(String, f64)>)> = by_dim.into_iter().filter(|(_, v)| v.len() >= 3).collect();
    for (_, v) in out.iter_mut() {
        v.sort_by(|a, b| a.0.cmp(&b.0));
    }
    out
}

// ---------------------------------------------------------------- cases

#[derive(Clone, Debug)]
enum Case {
    Temp(String, String),
    Unix(i128, usize),
    UnixN(i64),
    Julian(i128),
    JulianDays(String),
    Fn(usize, usize, String),
    Mixed(String, String, Vec<String>),
}

impl Case {
    fn text(&self) -> String {
        match self {
            Case::Temp(k, x) => format!("temp {} {}", k, x),
            Case::Unix(t, v) => format!("unix {} {}", t, v),
            Case::UnixN(n) => format!("unixn {}", n),
            Case::Julian(t) => format!("julian {}", t),
            Case::JulianDays(x) => format!("julian-days {}", x),
            Case::Fn(p, d, x) => format!("fn {} {} {}", p, d, x),
            Case::Mixed(v, u, us) => format!("mixed {} {} {}", v, u, us.join(",")),
        }
    }
    fn parse(line: &str) -> Option<Case> {
        let w: Vec<&str> = line.split_whitespace().collect();
        Some(match *w.first()? {
            "temp" => Case::Temp(w.get(1)?.to_string(), w.get(2)?.to_string()),
            "unix" => Case::Unix(w.get(1)?.parse().ok()?, w.get(2)?.parse().ok()?),
            "unixn" => Case::UnixN(w.get(1)?.parse().ok()?),
            "julian" => Case::Julian(w.get(1)?.parse().ok()?),
            "julian-days" => Case::JulianDays(w.get(1)?.to_string()),
            "fn" => Case::Fn(w.get(1)?.parse().ok()?, w.get(2)?.parse().ok()?, w.get(3)?.to_string()),
            "mixed" => Case::Mixed(w.get(1)?.to_string(), w.get(2)?.to_string(), w.get(3)?.split(',').map(|s| s.to_string()).collect()),
            _ => return None,
        })
    }
}

fn gen_instant(rng: &mut Rng, env: &Env) -> i128 {
    let k = rng.below(100);
    let span = (env.tmax - env.tmin) as u128;
    let t = if k < 35 {
        env.tmin + ((rng.next_u64() as u128 * (1u128 << 64) + rng.next_u64() as u128) % span) as i128
    } else if k < 75 {
        (rng.range(-2_208_988_800, 4_102_444_800) as i128) * NS + rng.range(0, 999_999_999) as i128
    } else if k < 85 {
        rng.range(-5_000_000_000, 5_000_000_000) as i128
    } else if k < 92 {
        env.tmin + rng.range(0, 2_000_000) as i128 * NS
    } else {
        env.tmax - rng.range(0, 2_000_000) as i128 * NS
    };
    let t = match rng.below(4) {
        0 => t.div_euclid(NS) * NS,
        1 => t.div_euclid(1000) * 1000,
        _ => t,
    };
    t.clamp(env.tmin, env.tmax)
}

fn gen_case(rng: &mut Rng, env: &Env, out: &mut Out) -> Case {
    let k = rng.below(100);
    if k < 22 {
        let kind = *rng.pick(&["c2k", "k2c", "f2k", "k2f"]);
        out.count(&format!("kind:temp:{}", kind));
        let x = match rng.below(6) {
            0 => -273.15 + rng.unit_f64() * 400.0,
            1 => rng.unit_f64() * 6000.0,
            2 => (rng.unit_f64() - 0.5) * 2e6,
            3 => 10f64.powf(rng.unit_f64() * 30.0 - 15.0) * if rng.chance(1, 2) { -1.0 } else { 1.0 },
            4 => *rng.pick(&[0.0, -273.15, -459.67, 273.15, 32.0, 100.0, 212.0, -40.0, 255.3722222222222, 1e15, -1e15]),
            _ => rng.range(-500, 5000) as f64,
        };
        let x = if kind.starts_with('k') { x.abs() } else { x };
        let l = fmt_lit(rng, x.abs());
        Case::Temp(kind.to_string(), if x < 0.0 { format!("-{}", l) } else { l })
    } else if k < 37 {
        out.count("kind:unix");
        Case::Unix(gen_instant(rng, env), rng.below(4))
    } else if k < 42 {
        out.count("kind:unixn");
        let n = match rng.below(3) {
            0 => rng.range(-9_007_199_254_740_991, 9_007_199_254_740_991),
            1 => rng.range(-4_000_000_000_000_000, 4_000_000_000_000_000),
            _ => rng.range(-1_000_000, 1_000_000),
        };
        Case::UnixN(n)
    } else if k < 52 {
        out.count("kind:julian");
        Case::Julian(gen_instant(rng, env))
    } else if k < 56 {
        out.count("kind:julian-days");
        let x = rng.unit_f64() * 5_000_000.0;
        Case::JulianDays(fmt_lit(rng, x))
    } else if k < 78 {
        let p = rng.below(PAIRS.len());
        let dir = rng.below(2);
        out.count(&format!("kind:fn:{}:{}", PAIRS[p].0, if dir == 0 { "inv(f(x))" } else { "f(inv(y))" }));
        let (_, _, xlo, xhi, ylo, yhi) = PAIRS[p];
        let (lo, hi) = if dir == 0 { (xlo, xhi) } else { (ylo, yhi) };
        let x = if p >= N_CORE_PAIRS && dir == 1 {
            // log-uniform magnitude over the range of y, either sign where the range allows; two-sided ranges start at
            // 1e-4 and `secant` ends at 1e4: beyond, `acot`/`arcsecant` are within 1e-9 of pi/2 and the round trip is
            // ill-conditioned by itself
            let (alo, ahi) = if lo < 0.0 && hi > 0.0 { (1.0e-4, hi) } else if lo < 0.0 { (-hi, -lo) } else { (lo, hi) };
            let m = 10f64.powf(alo.log10() + rng.unit_f64() * (ahi.log10() - alo.log10())).clamp(alo, ahi);
            if (lo < 0.0 && hi > 0.0 && rng.chance(1, 2)) || hi < 0.0 { -m } else { m }
        } else if p >= N_CORE_PAIRS && rng.chance(1, 3) {
            // small arguments of either sign
            let m = 10f64.powf(-4.0 + rng.unit_f64() * 3.5).min(hi);
            if lo < 0.0 && rng.chance(1, 2) { -m } else { m.max(lo) }
        } else if hi > 1e100 || lo.abs() > 1e100 {
            // log-uniform magnitude for the unbounded domains
            let lo_e = if lo > 0.0 { lo.log10() } else { -300.0 };
            let m = 10f64.powf(lo_e + rng.unit_f64() * (hi.log10().min(300.0) - lo_e));
            let m = m.clamp(if lo > 0.0 { lo } else { 0.0 }, hi);
            if lo < 0.0 && rng.chance(1, 2) { -m } else { m }
        } else if rng.chance(1, 5) {
            // close to the ends of the domain
            if rng.chance(1, 2) { lo + (hi - lo) * rng.unit_f64() * 1e-3 } else { hi - (hi - lo) * rng.unit_f64() * 1e-3 }
        } else {
            lo + (hi - lo) * rng.unit_f64()
        };
        let mut s = fmt_lit(rng, x.abs());
        // the printed literal may have left the domain through rounding of the digits: clamp by re-reading
        let v: f64 = s.parse().unwrap_or(0.0) * if x < 0.0 { -1.0 } else { 1.0 };
        if v < lo || v > hi {
            s = format!("{:e}", x.abs());
        }
        Case::Fn(p, dir, if x < 0.0 { format!("-{}", s) } else { s })
    } else {
        out.count("kind:mixed");
        let (_, units) = rng.pick(&env.groups);
        let n = rng.range(1, 5) as usize;
        let mut us = Vec::new();
        for _ in 0..n {
            us.push(rng.pick(units).0.clone());
        }
        if rng.chance(1, 6) {
            let dup = us[0].clone();
            us.push(dup);
        }
        let (vu, vf) = rng.pick(units).clone();
        // magnitude relative to the largest chosen unit
        let biggest = us.iter().map(|u| units.iter().find(|x| &x.0 == u).unwrap().1).fold(0.0, f64::max);
        let target = biggest * 10f64.powf(rng.unit_f64() * 6.0 - 2.0);
        let x = match rng.below(8) {
            0 => 0.0,
            1 => (target / vf).round().max(1.0),
            _ => target / vf,
        };
        let s = fmt_lit(rng, x);
        Case::Mixed(if rng.chance(1, 3) && x != 0.0 { format!("-{}", s) } else { s }, vu, us)
    }
}

// ---------------------------------------------------------------- running a case

struct CaseResult {
    fails: Vec<(String, String)>,
    lines: Vec<(String, String)>,
    nontrivial: bool,
    buckets: Vec<String>,
}

fn ulp(x: f64) -> f64 {
    let x = x.abs();
    if x == 0.0 || !x.is_finite() {
        return f64::MIN_POSITIVE;
    }
    f64::from_bits(x.to_bits() + 1) - x
}

fn run_case(imp: &mut Impl, env: &Env, c: &Case) -> CaseResult {
    imp.reset();
    let mut r = CaseResult { fails: vec![], lines: vec![], nontrivial: true, buckets: vec![] };
    match c {
        Case::Temp(kind, lit) => {
            let x = paren(lit);
            // the input as the interpreter reads it
            let xb = match imp.eval(&x) {
                R::Q(b, _) => b,
                other => {
                    r.fails.push(("C23:temp:literal".into(), format!("{} evaluates to {}", x, other.wire())));
                    return r;
                }
            };
            let xv = f64::from_bits(xb);
            // a temperature handed to °C / °F need not be written in kelvin: every fourth case writes it in mK, kK or µK
            // (chosen by the literal's bits, so that a replayed case is the same case)
            let (tu, tscale): (&str, f64) = match (kind.as_str(), xb % 8) {
                ("k2c" | "k2f", 1) => ("mK", 1e-3),
                ("k2c" | "k2f", 3) => ("kK", 1e3),
                ("k2c" | "k2f", 5) => ("µK", 1e-6),
                _ => ("K", 1.0),
            };
            let (fwd, back, req, func_f, func_b): (String, String, &str, &str, &str) = match kind.as_str() {
                "c2k" => (format!("from_celsius({})", x), format!("°C(from_celsius({}))", x), "fc", "from_celsius", "°C"),
                "k2c" => (format!("°C({} {})", x, tu), format!("from_celsius(°C({} {}))", x, tu), "tc", "°C", "from_celsius"),
                "f2k" => (format!("from_fahrenheit({})", x), format!("°F(from_fahrenheit({}))", x), "ff", "from_fahrenheit", "°F"),
                _ => (format!("°F({} {})", x, tu), format!("from_fahrenheit(°F({} {}))", x, tu), "tf", "°F", "from_fahrenheit"),
            };
            let rf = imp.eval(&fwd);
            if tu == "K" {
                r.lines.push((format!("{} {:016x}", req, xb), rf.wire()));
            } else {
                r.buckets.push(format!("temp:{}:written-in-{}", kind, tu));
            }
            let rb = imp.eval(&back);
            let xv = xv * tscale;
            let tol = 8.0 * EPS * (xv.abs() + 460.0) + 4.0 * EPS * xv.abs();
            match rb.base() {
                Some(v) if (v - xv).abs() <= tol => r.buckets.push(format!("temp:{}:ok", kind)),
                _ => r.fails.push((format!("C23:temp:{}", kind), format!("{}({}({})) = {} but the input is {:e} (tolerance {:e})", func_b, func_f, x, rb.wire_value(), xv, tol))),
            }
            // the surface syntax goes through the same functions: `x °C -> °C`, aliases
            let (syn, alias) = match kind.as_str() {
                "c2k" => (format!("{} °C -> °C", x), format!("celsius(from_celsius({}))", x)),
                "f2k" => (format!("{} °F -> °F", x), format!("fahrenheit(from_fahrenheit({}))", x)),
                "k2c" => (format!("({} {} -> °C) °C", x, tu), format!("from_celsius(degree_celsius({} {}))", x, tu)),
                _ => (format!("({} {} -> °F) °F", x, tu), format!("from_fahrenheit(degree_fahrenheit({} {}))", x, tu)),
            };
            for e in [syn, alias] {
                let rs = imp.eval(&e);
                if rs != rb {
                    r.fails.push((format!("C23:temp-syntax:{}", kind), format!("`{}` gives {} but `{}` gives {}", e, rs.wire(), back, rb.wire())));
                }
            }
            r.nontrivial = xv != 0.0;
        }
        Case::Unix(t, variant) => {
            let tt = format!("datetime(\"{}\")", rfc3339(*t));
            match imp.eval(&tt) {
                R::Dt(ns, _) if ns == *t => {}
                other => {
                    r.fails.push(("C23:unix:construct".into(), format!("{} gives {}", tt, other.wire())));
                    return r;
                }
            }
            // correspondence for the two foreign functions
            let rus = imp.eval(&format!("_unixtime_µs({})", tt));
            r.lines.push((format!("unixus {}", t), rus.wire()));
            if let R::Q(b, _) = &rus {
                let back = imp.eval(&format!("_from_unixtime_µs(_unixtime_µs({}))", tt));
                r.lines.push((format!("fromunixus {:016x} {}", b, env.local_zone), back.wire()));
            }
            let (expr, unit_ns): (String, i128) = match variant {
                0 => (format!("from_unixtime({} -> unixtime)", tt), 1_000),
                1 => (format!("from_unixtime_s({} -> unixtime_s)", tt), NS),
                2 => (format!("from_unixtime_ms({} -> unixtime_ms)", tt), 1_000_000),
                _ => (format!("from_unixtime_µs({} -> unixtime_µs)", tt), 1_000),
            };
            let us = (*t / 1000) as f64;
            // the µs count is an f64 and the .nbt code converts it to unix_s and back: allow 8 ulp of the count
            // (below 1 ns, i.e. nothing, for |t| < 10^12 µs; one whole µs from about 10^15 µs = year 2001 ± 31.7)
            let slop = (8.0 * ulp(us) * 1000.0) as i128;
            match imp.eval(&expr) {
                R::Dt(ns, _) => {
                    let d = (ns - *t).abs();
                    if d >= unit_ns + slop && d < 2 * unit_ns + slop {
                        // floor_in() / `as i64` applied to a value that the s <-> µs/ms detour left a hair below a whole number
                        r.fails.push((format!("C23:unix:{}:floor-off-by-one", variant), format!("{} is {} ns away from the instant {}: one whole unit ({} ns) more than the truncation allows", expr, d, t, unit_ns)));
                    } else if d >= unit_ns + slop {
                        r.fails.push((format!("C23:unix:{}", variant), format!("{} is {} ns away from the instant {} (allowed: below {} ns)", expr, d, t, unit_ns + slop)));
                    } else if slop == 0 && (*variant == 0 || *variant == 3) && (ns - (*t / 1000) * 1000).abs() == 1000 {
                        // the exact integer count was floored one microsecond down (same defect, seen below 1 µs distance)
                        r.fails.push((format!("C23:unix:{}:floor-off-by-one", variant), format!("{} = {} ns, one whole microsecond off {} truncated to microseconds", expr, ns, t)));
                    } else if slop == 0 && (*variant == 0 || *variant == 3) && ns != (*t / 1000) * 1000 {
                        r.fails.push((format!("C23:unix:{}", variant), format!("{} = {} is not {} truncated to microseconds", expr, ns, t)));
                    } else {
                        r.buckets.push(format!("unix:{}:ok", variant));
                    }
                }
                R::Err(e) if e == "dt" && ((env.tmax - *t) < unit_ns + slop + 1000 || (*t - env.tmin) < unit_ns + slop + 1000) => {
                    // the f64 count of an instant at the very end of the range rounds to a count outside the range
                    r.buckets.push(format!("unix:{}:edge-of-range-error", variant));
                }
                other => r.fails.push((format!("C23:unix:{}", variant), format!("{} gives {}", expr, other.wire()))),
            }
        }
        Case::UnixN(n) => {
            let expr = format!("unixtime_µs(from_unixtime_µs({}))", paren(&n.to_string()));
            let in_range = (*n as i128) * 1000 >= env.tmin && (*n as i128) * 1000 <= env.tmax;
            match imp.eval(&expr) {
                R::Q(b, _) if in_range => {
                    let got = f64::from_bits(b);
                    if (got - *n as f64).abs() <= 4.0 * ulp(*n as f64) {
                        r.buckets.push("unixn:ok".into());
                    } else if (got - *n as f64).abs() <= 1.0 {
                        r.fails.push(("C23:unixn:floor-off-by-one".into(), format!("{} = {} (off by one whole microsecond; 4 ulp of the input are {:e})", expr, got, 4.0 * ulp(*n as f64))));
                    } else if got != *n as f64 {
                        r.fails.push(("C23:unixn".into(), format!("{} = {:e}", expr, f64::from_bits(b))));
                    } else {
                        r.buckets.push("unixn:ok".into());
                    }
                }
                R::Err(e) if !in_range && e == "dt" => r.buckets.push("unixn:out-of-range".into()),
                other => r.fails.push(("C23:unixn".into(), format!("{} gives {}", expr, other.wire()))),
            }
            let rf = imp.eval(&format!("_from_unixtime_µs({})", paren(&n.to_string())));
            r.lines.push((format!("fromunixus {:016x} {}", (*n as f64).to_bits(), env.local_zone), rf.wire()));
        }
        Case::Julian(t) => {
            let tt = format!("datetime(\"{}\")", rfc3339(*t));
            let jd = imp.eval(&format!("julian_date({})", tt));
            r.lines.push((format!("diff {} {}", t, env.julian_epoch), jd.wire()));
            let jds = match jd.base() {
                Some(v) => v,
                None => {
                    r.fails.push(("C23:julian".into(), format!("julian_date({}) gives {}", tt, jd.wire())));
                    return r;
                }
            };
            let back = imp.eval(&format!("from_julian_date(julian_date({}))", tt));
            r.lines.push((format!("add {} UTC {:016x}", env.julian_epoch, jds.to_bits()), back.wire()));
            let tol = (2.0 * ulp(jds) * 1e9) as i128 + 1;
            match &back {
                R::Dt(ns, _) if (ns - *t).abs() <= tol => r.buckets.push("julian:ok".into()),
                // within the f64 resolution of the end of the range the rounded sum may lie outside the range
                R::Err(e) if e == "dt" && ((env.tmax - *t) <= tol || (*t - env.tmin) <= tol) => r.buckets.push("julian:edge-of-range-error".into()),
                other => r.fails.push(("C23:julian".into(), format!("from_julian_date(julian_date(t)) gives {} for t = {} ns (tolerance {} ns)", other.wire(), t, tol))),
            }
            // and the value itself is the distance to the epoch
            let want = (*t - env.julian_epoch) as f64 / 1e9;
            if (jds - want).abs() > 2.0 * ulp(want) {
                r.fails.push(("C23:julian-value".into(), format!("julian_date = {:e} s, expected {:e} s", jds, want)));
            }
        }
        Case::JulianDays(lit) => {
            let e = format!("julian_date(from_julian_date({} days))", lit);
            let x = imp.eval(&format!("{} days", lit)).base().unwrap_or(f64::NAN);
            match imp.eval(&e).base() {
                Some(v) if (v - x).abs() <= 4.0 * ulp(x) + 1e-9 => r.buckets.push("julian-days:ok".into()),
                other => r.fails.push(("C23:julian-days".into(), format!("{} = {:?} s but the input is {:e} s", e, other, x))),
            }
        }
        Case::Fn(p, dir, lit) => {
            let (f, g, _, _, _, _) = PAIRS[*p % PAIRS.len()];
            let x = paren(lit);
            let xv = match imp.eval(&x).base() {
                Some(v) => v,
                None => {
                    r.fails.push(("C23:fn:literal".into(), format!("{} is not a number", x)));
                    return r;
                }
            };
            let e = if *dir == 0 { format!("{}({}({}))", g, f, x) } else { format!("{}({}({}))", f, g, x) };
            let tol = if *p % PAIRS.len() >= N_CORE_PAIRS { 1e-9 * xv.abs() } else { 1e-9 * xv.abs().max(1.0) };
            match imp.eval(&e).base() {
                Some(v) if (v - xv).abs() <= tol => r.buckets.push("fn:ok".into()),
                other => r.fails.push((format!("C23:fn:{}:{}", f, dir), format!("{} = {:?} but the argument is {:e} (tolerance {:e})", e, other, xv, tol))),
            }
        }
        Case::Mixed(vlit, vunit, units) => {
            let v = format!("({} {})", vlit, vunit);
            let list = format!("[{}]", units.join(", "));
            let vb = match imp.eval(&v) {
                R::Q(b, _) => f64::from_bits(b),
                other => {
                    r.fails.push(("C23:mixed:value".into(), format!("{} gives {}", v, other.wire())));
                    return r;
                }
            };
            let expr = format!("unit_list({}, {})", list, v);
            let parts = match imp.eval(&expr) {
                R::L(l) => l,
                other => {
                    r.fails.push(("C23:mixed:result".into(), format!("{} gives {}", expr, other.wire())));
                    return r;
                }
            };
            let n = parts.len();
            if n == 0 || n > units.len() {
                r.fails.push(("C23:mixed:length".into(), format!("{} has {} parts for {} units", expr, n, units.len())));
                return r;
            }
            let sum: f64 = parts.iter().map(|p| f64::from_bits(p.0)).sum();
            let tol = 8.0 * (n as f64) * EPS * vb.abs();
            if !((sum - vb).abs() <= tol) {
                r.fails.push(("C23:mixed:sum".into(), format!("{}: the parts add up to {:e} but the value is {:e} (base units; tolerance {:e})", expr, sum, vb, tol)));
            }
            for (i, p) in parts.iter().enumerate() {
                let pv = f64::from_bits(p.1);
                if i + 1 < n && pv.fract() != 0.0 {
                    r.fails.push(("C23:mixed:whole".into(), format!("{}: part {} is {:e} {} — not a whole number", expr, i, pv, p.2)));
                }
            }
            r.buckets.push(format!("mixed:parts:{}", n));
            r.nontrivial = vb != 0.0;
            // exact model: the cleaned unit list as the implementation sees it
            if let R::L(clean) = imp.eval(&format!("_clean_units({})", list)) {
                let us: Vec<f64> = clean.iter().map(|c| f64::from_bits(c.0)).collect();
                // the value in base units as the implementation computed it (one rounding of value × unit size);
                // the 1-ulp difference to the exact product is far inside the robustness margin below
                let mut robust = us.len() == n && us.iter().all(|u| *u > 0.0);
                let mut rem = vb;
                if robust && vb != 0.0 {
                    for u in us.iter().take(n - 1) {
                        let q = rem / u;
                        // f64 noise of the implementation in this quotient is about eps * |V| / u
                        let thr = 1e-9 * (vb.abs() / u).max(1.0);
                        if thr >= 0.25 || (q - q.round()).abs() < thr || q.abs() > 1e15 {
                            robust = false;
                            break;
                        }
                        rem -= q.trunc() * u;
                    }
                }
                if robust {
                    let (vm, ve) = dyadic(vb);
                    let mut req = format!("mixed {} {} 1 0", vm, ve);
                    for u in &us {
                        let (m, e) = dyadic(*u);
                        req.push_str(&format!(" {} {}", m, e));
                    }
                    let counts: Vec<String> = parts.iter().take(n - 1).map(|p| format!("{}", f64::from_bits(p.1) as i128)).collect();
                    r.lines.push((req, format!("ok {}", counts.join(" ")).trim_end().to_string()));
                    r.buckets.push("mixed:model-line".into());
                } else {
                    r.buckets.push("mixed:near-integer-quotient(no model line)".into());
                }
            }
        }
    }
    r
}

impl R {
    fn wire_value(&self) -> String {
        match self.base() {
            Some(v) => format!("{:e}", v),
            None => self.wire(),
        }
    }
}

fn main() {
    let args = Args::parse();
    if args.extra.contains_key("dump-ast") {
        for (module, names) in ITEMS {
            match hook23::module_items_sexpr(module, names) {
                Ok(items) => {
                    for (n, s) in items {
                        println!("{}\t{}\t{}", module, n, s);
                    }
                }
                Err(e) => {
                    eprintln!("{}", e);
                    std::process::exit(1);
                }
            }
        }
        return;
    }
    let mut out = Out::new(&args);
    let mut imp = Impl::new();
    let (tmin, tmax) = hook19::timestamp_range_ns();
    let local_zone = match imp.eval("get_local_timezone()") {
        R::S(s) => s,
        _ => "UTC".into(),
    };
    let julian_epoch = match imp.eval("_julian_epoch") {
        R::Dt(ns, _) => ns,
        _ => panic!("_julian_epoch"),
    };
    let groups = discover_groups(&mut imp);
    assert!(!groups.is_empty());
    let env = Env { tmin, tmax, local_zone, julian_epoch, groups };
    out.extra.insert(
        "unit_groups".into(),
        env.groups.iter().map(|(d, v)| format!("{}:{}", d, v.len())).collect::<Vec<_>>().join(" "),
    );
    out.extra.insert("local_zone".into(), env.local_zone.clone());
    out.rule = "cases: 22% temperature (°C/°F/K, both directions; physical range, ±1e6, log-uniform 1e-15…1e15, fixed points), \
                15% Unix time round trips over the whole instant range in four variants, 5% integer µs counts, 10% Julian date \
                of random instants, 4% Julian days, 22% inverse pairs sin/asin cos/acos tan/atan sinh/asinh cosh/acosh \
                tanh/atanh exp/ln exp/log in both orders on their principal domains (20% near the ends), 22% unit_list with \
                1–6 units (duplicates allowed) drawn from one dimension group of the prelude (every group with ≥ 3 plain \
                units) and a value of 1–17 digits in a unit of that group, either sign, also 0 and whole multiples. \
                distinct = distinct case text; non-trivial = the input value is non-zero."
        .into();

    let mut cases: Vec<Case> = Vec::new();
    if let Some(dir) = args.extra.get("corpus") {
        let mut files: Vec<_> = std::fs::read_dir(dir).map(|r| r.flatten().map(|e| e.path()).collect()).unwrap_or_default();
        files.sort();
        for f in files {
            for l in read_lines(&f) {
                if let Some(c) = Case::parse(&l) {
                    cases.push(c);
                }
            }
        }
    }
    if let Some(rp) = &args.replay {
        for l in read_lines(rp) {
            if let Some(c) = Case::parse(&l) {
                cases.push(c);
            }
        }
    } else {
        let n = args.count(3000, 100_000);
        let mut rng = Rng::new(args.seed);
        for _ in 0..n {
            let c = gen_case(&mut rng, &env, &mut out);
            cases.push(c);
        }
    }
    let mut reported = std::collections::BTreeSet::new();
    for c in &cases {
        let res = run_case(&mut imp, &env, c);
        out.case(&c.text(), res.nontrivial);
        for b in &res.buckets {
            out.count(b);
        }
        for (rq, ans) in &res.lines {
            out.line(rq, ans);
        }
        for (key, what) in &res.fails {
            out.count(&format!("fail:{}", key));
            if reported.insert(key.clone()) {
                out.oracle_fail(key, &c.text(), what);
            }
        }
    }
    out.finish();
}
