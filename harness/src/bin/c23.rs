//! C23 (skeleton; dump mode only for now)
use nvh::*;

pub const ITEMS: &[(&str, &[&str])] = &[
    ("physics::temperature_conversion", &["_offset_celsius", "from_celsius", "°C", "celsius", "_offset_fahrenheit", "_scale_fahrenheit", "from_fahrenheit", "°F", "fahrenheit"]),
    ("core::functions", &["trunc_in"]),
    ("core::mixed_units", &["_zero_length", "_mixed_unit_list"]),
];

fn main() {
    let args = Args::parse();
    if args.extra.contains_key("dump-ast") {
        for (module, names) in ITEMS {
            match numbat::verif::c23::module_items_sexpr(module, names) {
                Ok(items) => {
                    for (n, s) in items {
                        println!("{}\t{}\t{}", module, n, s);
                    }
                }
                Err(e) => {
                    eprintln!("{}", e);
                    std::process::exit(1);
                }
            }
        }
        return;
    }
}
